(* CodeGenFacts12.v — the unsupported shapes of comparisons and conditional expressions are FAIL-CLOSED (property C01):

   arith_consumes_no_x : the arithmetic parser never consumes a comparison operator or one of the keywords if / else / and /
     or / not — not at the top, not inside parentheses, not inside the arguments of a call.  Hence a conditional expression
     nested in parentheses or in a call, and a comparison used as a value there, can never be part of an accepted statement;
   rhs_shape : an accepted right-hand side either contains no such token at all (plain arithmetic), or it is
     `a if …` with a free of them: a comparison used as a value (`Y = X > 1`), `not X`, `X and Y` … yield None. *)
From Coq Require Import String Ascii List Bool Arith ZArith Lia.
Import ListNotations.
Require Import Generated PyBase PyStr Lex Format Symbols Split Merge ParseEq ParseModel Eval CodeGen CodeGenFacts2.
Open Scope list_scope.

Definition not_x (t : ctok) : bool := match t with CX _ => false | _ => true end.
Definition nox (ts : list ctok) : bool := forallb not_x ts.

Lemma nox_app a b : nox (a ++ b) = nox a && nox b.
Proof. apply forallb_app. Qed.

Section NoX.
  Variable row : string -> option nat.

  Definition cons1 (p : list ctok -> option (sexpr * list ctok)) : Prop :=
    forall ts e rest, p ts = Some (e, rest) -> exists used, ts = used ++ rest /\ nox used = true.
  Definition consL (p : sexpr -> list ctok -> option (sexpr * list ctok)) : Prop :=
    forall acc ts e rest, p acc ts = Some (e, rest) -> exists used, ts = used ++ rest /\ nox used = true.
  Definition consA (p : list ctok -> option (list sexpr * list ctok)) : Prop :=
    forall ts es rest, p ts = Some (es, rest) -> exists used, ts = used ++ rest /\ nox used = true.

  Ltac chain u1 u2 := exists (u1 ++ u2); split; [rewrite <- app_assoc; reflexivity|rewrite nox_app; auto using andb_true_intro].

  Lemma tree_nox fuel :
    cons1 (p_expr row fuel) /\ consL (p_expr_loop row fuel) /\ cons1 (p_term row fuel) /\ consL (p_term_loop row fuel) /\
    cons1 (p_factor row fuel) /\ cons1 (p_power row fuel) /\ cons1 (p_atom row fuel) /\ consA (p_args row fuel).
  Proof.
    induction fuel as [|f (IHe & IHel & IHt & IHtl & IHf & IHp & IHa & IHas)].
    - refine (conj _ (conj _ (conj _ (conj _ (conj _ (conj _ (conj _ _))))))); red; intros;
        match goal with H : _ = Some _ |- _ => cbn in H; discriminate H end.
    - refine (conj _ (conj _ (conj _ (conj _ (conj _ (conj _ (conj _ _))))))).
      + intros ts e rest H. rewrite p_expr_S in H.
        destruct (p_term row f ts) as [[a r]|] eqn:E; [|discriminate].
        destruct (IHt _ _ _ E) as (u1 & -> & N1). destruct (IHel _ _ _ _ H) as (u2 & -> & N2).
        exists (u1 ++ u2). split; [rewrite app_assoc; reflexivity|rewrite nox_app, N1, N2; reflexivity].
      + intros acc ts e rest H. rewrite p_expr_loop_S in H.
        destruct ts as [|[x k|g|s| | | | | | | | | | |xt] r];
          try (inversion H; subst; exists []; split; reflexivity).
        * destruct (p_term row f r) as [[b r']|] eqn:E; [|discriminate].
          destruct (IHt _ _ _ E) as (u1 & -> & N1). destruct (IHel _ _ _ _ H) as (u2 & -> & N2).
          exists (CPlus :: u1 ++ u2). split; [cbn [app]; rewrite app_assoc; reflexivity|cbn [nox forallb not_x]; fold (nox (u1 ++ u2)); rewrite nox_app, N1, N2; reflexivity].
        * destruct (p_term row f r) as [[b r']|] eqn:E; [|discriminate].
          destruct (IHt _ _ _ E) as (u1 & -> & N1). destruct (IHel _ _ _ _ H) as (u2 & -> & N2).
          exists (CMinus :: u1 ++ u2). split; [cbn [app]; rewrite app_assoc; reflexivity|cbn [nox forallb not_x]; fold (nox (u1 ++ u2)); rewrite nox_app, N1, N2; reflexivity].
      + intros ts e rest H. rewrite p_term_S in H.
        destruct (p_factor row f ts) as [[a r]|] eqn:E; [|discriminate].
        destruct (IHf _ _ _ E) as (u1 & -> & N1). destruct (IHtl _ _ _ _ H) as (u2 & -> & N2).
        exists (u1 ++ u2). split; [rewrite app_assoc; reflexivity|rewrite nox_app, N1, N2; reflexivity].
      + intros acc ts e rest H. rewrite p_term_loop_S in H.
        destruct ts as [|[x k|g|s| | | | | | | | | | |xt] r];
          try (inversion H; subst; exists []; split; reflexivity).
        * destruct (p_factor row f r) as [[b r']|] eqn:E; [|discriminate].
          destruct (IHf _ _ _ E) as (u1 & -> & N1). destruct (IHtl _ _ _ _ H) as (u2 & -> & N2).
          exists (CStar :: u1 ++ u2). split; [cbn [app]; rewrite app_assoc; reflexivity|cbn [nox forallb not_x]; fold (nox (u1 ++ u2)); rewrite nox_app, N1, N2; reflexivity].
        * destruct (p_factor row f r) as [[b r']|] eqn:E; [|discriminate].
          destruct (IHf _ _ _ E) as (u1 & -> & N1). destruct (IHtl _ _ _ _ H) as (u2 & -> & N2).
          exists (CSlash :: u1 ++ u2). split; [cbn [app]; rewrite app_assoc; reflexivity|cbn [nox forallb not_x]; fold (nox (u1 ++ u2)); rewrite nox_app, N1, N2; reflexivity].
      + intros ts e rest H. rewrite p_factor_S in H.
        destruct ts as [|[x k|g|s| | | | | | | | | | |xt] r]; try (apply IHp in H; exact H).
        destruct (p_factor row f r) as [[a r']|] eqn:E; [|discriminate]. inversion H; subst.
        destruct (IHf _ _ _ E) as (u1 & -> & N1). exists (CMinus :: u1). split; [reflexivity|cbn [nox forallb not_x]; exact N1].
      + intros ts e rest H. rewrite p_power_S in H.
        destruct (p_atom row f ts) as [[a r]|] eqn:E; [|discriminate]. destruct (IHa _ _ _ E) as (u1 & -> & N1).
        destruct r as [|[x k|g|s| | | | | | | | | | |xt] r]; try (inversion H; subst; exists u1; split; [reflexivity|exact N1]).
        destruct (p_factor row f r) as [[b r']|] eqn:E2; [|discriminate]. inversion H; subst.
        destruct (IHf _ _ _ E2) as (u2 & -> & N2).
        exists (u1 ++ CPow :: u2). split; [rewrite <- app_assoc; reflexivity|rewrite nox_app, N1; cbn [nox forallb not_x andb]; exact N2].
      + intros ts e rest H. rewrite p_atom_S in H.
        destruct ts as [|[x k|g|s| | | | | | | | | | |xt] r]; try discriminate.
        * destruct (row x); [|discriminate]. inversion H; subst. exists [CRead x k]. split; reflexivity.
        * destruct r as [|[x k|g'|s| | | | | | | | | | |xt] r]; try discriminate.
          destruct (fun_kind g); [|discriminate].
          destruct (p_args row f r) as [[args r']|] eqn:E; [|discriminate].
          destruct (apply_fun _ args); [|discriminate]. inversion H; subst.
          destruct (IHas _ _ _ E) as (u1 & -> & N1). exists (CFun g :: CLPar :: u1). split; [reflexivity|cbn [nox forallb not_x andb]; exact N1].
        * destruct (num_ok s); [|discriminate]. inversion H; subst. exists [CNum s]. split; reflexivity.
        * destruct (p_expr row f r) as [[e' r']|] eqn:E; [|discriminate].
          destruct r' as [|[x k|g|s| | | | | | | | | | |xt] r']; try discriminate. inversion H; subst.
          destruct (IHe _ _ _ E) as (u1 & -> & N1). exists (CLPar :: u1 ++ [CRPar]).
          split; [cbn [app]; rewrite <- app_assoc; reflexivity|cbn [nox forallb not_x andb]; fold (nox (u1 ++ [CRPar])); rewrite nox_app, N1; reflexivity].
      + intros ts es rest H. rewrite p_args_S in H.
        destruct (p_expr row f ts) as [[e r]|] eqn:E; [|discriminate]. destruct (IHe _ _ _ E) as (u1 & -> & N1).
        destruct r as [|[x k|g|s| | | | | | | | | | |xt] r]; try discriminate.
        * inversion H; subst. exists (u1 ++ [CRPar]). split; [rewrite <- app_assoc; reflexivity|rewrite nox_app, N1; reflexivity].
        * destruct (p_args row f r) as [[es' r']|] eqn:E2; [|discriminate]. inversion H; subst.
          destruct (IHas _ _ _ E2) as (u2 & -> & N2).
          exists (u1 ++ CComma :: u2). split; [rewrite <- app_assoc; reflexivity|rewrite nox_app, N1; cbn [nox forallb not_x andb]; exact N2].
  Qed.

  Theorem arith_consumes_no_x fuel ts e rest :
    p_expr row fuel ts = Some (e, rest) -> exists used, ts = used ++ rest /\ nox used = true.
  Proof. apply (proj1 (tree_nox fuel)). Qed.

  (* an accepted right-hand side: plain arithmetic without any comparison / keyword token, or `a if …` with a free of them *)
  Theorem rhs_shape y k rhs i k0 st :
    src_of_tokens row (CRead y k :: CAssign :: rhs) = Some (y, i, k0, st) ->
    (exists e, st = SVal e /\ nox rhs = true) \/
    (exists a c b used r, st = SIf a c b /\ rhs = used ++ CX XIf :: r /\ nox used = true).
  Proof.
    cbn [src_of_tokens]. destruct (row y); [|discriminate].
    destruct (p_test row (test_fuel rhs) rhs) as [[st' [|? ?]]|] eqn:E; try discriminate.
    intros H; inversion H; subst. unfold test_fuel in E.
    replace (8 * length rhs + 8) with (S (8 * length rhs + 7)) in E by lia. rewrite p_test_S in E.
    destruct (p_expr row (tree_fuel rhs) rhs) as [[a r1]|] eqn:Ea; [|discriminate].
    destruct (arith_consumes_no_x _ _ _ _ Ea) as (used & -> & N).
    destruct r1 as [|[x k'|g|s| | | | | | | | | | |[o| | | | | ]] r1]; try (exfalso; inversion E; fail).
    { inversion E; subst. left. eexists. split; [reflexivity|]. rewrite app_nil_r. exact N. }
    match type of E with context [p_or row ?f ?r] => destruct (p_or row f r) as [[c r2]|] end; [|discriminate].
    destruct r2 as [|[x k'|g|s| | | | | | | | | | |[o| | | | | ]] r2]; try discriminate.
    match type of E with context [p_test row ?f ?r] => destruct (p_test row f r) as [[b rest']|] end; [|discriminate]. inversion E; subst.
    right. exists a, c, b, used, r1. repeat split; auto.
  Qed.

  (* in particular: a right-hand side whose first comparison / keyword token is not `if` denotes nothing *)
  Corollary comparison_as_value_rejected y k used x r :
    nox used = true -> x <> XIf ->
    src_of_tokens row (CRead y k :: CAssign :: used ++ CX x :: r) = None.
  Proof.
    intros N Hx. destruct (src_of_tokens row (CRead y k :: CAssign :: used ++ CX x :: r)) as [[[[y' i] k0] st]|] eqn:E; [|reflexivity].
    exfalso. assert (Ey : y' = y).
    { cbn [src_of_tokens] in E. destruct (row y); [|discriminate].
      match type of E with context [p_test row ?f ?r] => destruct (p_test row f r) as [[st' [|? ?]]|] end; try discriminate.
      inversion E; reflexivity. }
    subst y'. destruct (rhs_shape _ _ _ _ _ _ E) as [(e & _ & N')|(a & c & b & u' & r' & _ & Eq & N')].
    - rewrite nox_app in N'. apply andb_true_iff in N' as [_ N']. cbn in N'. discriminate.
    - (* the first CX token of both decompositions is the same *)
      revert u' Eq N'. clear - N Hx. induction used as [|t u IH]; intros u' Eq N'.
      + destruct u' as [|t' u']; cbn [app] in Eq; inversion Eq; subst; [congruence|]. cbn in N'. discriminate.
      + destruct u' as [|t' u']; cbn [app] in Eq; inversion Eq; subst.
        * cbn in N. discriminate.
        * cbn [nox forallb] in N, N'. apply andb_true_iff in N as [_ N]. apply andb_true_iff in N' as [_ N']. exact (IH N u' H1 N').
  Qed.
End NoX.
