(* CodeGenFacts4.v — which symbols carry the two strings (property C01, text level, last step).

   equation_symbols_carry : the per-equation symbol loop of parse_equation attaches the normalised equation and the
     code to EVERY symbol that ends up ENDOGENOUS, attaches them as a pair, and attaches nothing else to anybody
     (whatever the Type enum order regenerated in Generated.v is).
   With parse_equation_code_spec: Symbol.code of every endogenous symbol of an accepted statement IS code_text. *)
From Coq Require Import String Ascii List Bool Arith ZArith Lia.
Import ListNotations.
Require Import Generated PyBase PyStr Lex Format Symbols Split Merge ParseEq ParseModel Eval CodeGen CodeGenFacts.
Open Scope string_scope.

Section Carry.
  Variables std code : string.

  Definition strings_ok (s : symbol) : Prop :=
    (sequation s = None /\ scode s = None) \/ (sequation s = Some std /\ scode s = Some code).
  Definition endo_ok (s : symbol) : Prop :=
    stype s = TEndogenous -> sequation s = Some std /\ scode s = Some code.
  Definition sym_ok (s : symbol) : Prop := strings_ok s /\ endo_ok s.
  Definition dict_ok (d : list (string * symbol)) : Prop := Forall (fun kv => sym_ok (snd kv)) d.

  Lemma dict_get_ok k d s : dict_ok d -> dict_get k d = Some s -> sym_ok s.
  Proof.
    induction d as [|[k' v] r IH]; cbn [dict_get]; [discriminate|]. intros H.
    inversion H as [|? ? Hv Hr]; subst. destruct (String.eqb k k'); [intros E; inversion E; subst; exact Hv|apply IH, Hr].
  Qed.
  Lemma dict_set_ok k v d : dict_ok d -> sym_ok v -> dict_ok (dict_set k v d).
  Proof.
    induction d as [|[k' v'] r IH]; cbn [dict_set]; intros H Hv.
    - constructor; [exact Hv|constructor].
    - inversion H as [|? ? Hv' Hr]; subst. destruct (String.eqb k k'); constructor; auto. apply IH; auto.
  Qed.

  Lemma type_eqb_true a b : type_eqb a b = true -> a = b.
  Proof. destruct a, b; cbn; intros H; try discriminate; reflexivity. Qed.

  (* combining an acceptable old symbol with the symbol of a new term *)
  Lemma combine_ok old new c :
    sym_ok old -> sym_ok new -> combine old new = Ret c -> sym_ok c.
  Proof.
    intros [So Eo] [Sn En] H. unfold combine, obind in H.
    destruct (type_eqb (stype old) (stype new)) eqn:Et.
    - (* same type *)
      destruct (resolve_by_type_pair Z.min (slags old) (slags new)) as [lg|]; [|discriminate].
      destruct (resolve_by_type_pair Z.max (sleads old) (sleads new)) as [ld|]; [|discriminate].
      destruct (resolve_strings (sequation old) (sequation new)) as [e|] eqn:Re; [|discriminate].
      destruct (resolve_strings (scode old) (scode new)) as [cd|] eqn:Rc; [|discriminate].
      inversion H; subst; clear H. apply type_eqb_true in Et.
      unfold sym_ok, strings_ok, endo_ok. cbn [sequation scode stype].
      destruct So as [[So1 So2]|[So1 So2]], Sn as [[Sn1 Sn2]|[Sn1 Sn2]];
        rewrite So1, Sn1 in Re; rewrite So2, Sn2 in Rc; cbn [resolve_strings] in Re, Rc;
        rewrite ?String.eqb_refl in Re, Rc; inversion Re; inversion Rc; subst.
      + split; [left; auto|]. intros T. destruct (Eo T) as [X _]. congruence.
      + split; [right; auto|auto].
      + split; [right; auto|auto].
      + split; [right; auto|auto].
    - destruct (is_variable_type (stype old) && is_variable_type (stype new)); [|discriminate].
      destruct (resolve_by_type_pair Z.min (slags old) (slags new)) as [lg|]; [|discriminate].
      destruct (resolve_by_type_pair Z.max (sleads old) (sleads new)) as [ld|]; [|discriminate].
      destruct (resolve_strings (sequation old) (sequation new)) as [e|] eqn:Re; [|discriminate].
      destruct (resolve_strings (scode old) (scode new)) as [cd|] eqn:Rc; [|discriminate].
      inversion H; subst; clear H.
      unfold sym_ok, strings_ok, endo_ok. cbn [sequation scode stype].
      assert (Tm : type_max (stype old) (stype new) = stype old \/ type_max (stype old) (stype new) = stype new)
        by (unfold type_max; destruct (_ <? _)%Z; auto).
      destruct So as [[So1 So2]|[So1 So2]], Sn as [[Sn1 Sn2]|[Sn1 Sn2]];
        rewrite So1, Sn1 in Re; rewrite So2, Sn2 in Rc; cbn [resolve_strings] in Re, Rc;
        rewrite ?String.eqb_refl in Re, Rc; inversion Re; inversion Rc; subst.
      + split; [left; auto|]. intros T. destruct Tm as [Tm|Tm]; rewrite Tm in T.
        * destruct (Eo T) as [X _]. congruence.
        * destruct (En T) as [X _]. congruence.
      + split; [right; auto|auto].
      + split; [right; auto|auto].
      + split; [right; auto|auto].
  Qed.

  Lemma dict_combine_ok name sym d d' :
    dict_ok d -> sym_ok sym -> dict_combine name sym d = Ret d' -> dict_ok d'.
  Proof.
    intros Hd Hs. unfold dict_combine.
    destruct (dict_get name d) as [old|] eqn:G.
    - destruct (combine old sym) as [c|] eqn:C; [|discriminate]. intros H; inversion H; subst.
      apply dict_set_ok; [exact Hd|]. eapply combine_ok; [eapply dict_get_ok; eauto|exact Hs|exact C].
    - destruct (combine sym sym) as [c|] eqn:C; [|discriminate]. intros H; inversion H; subst.
      apply dict_set_ok; [exact Hd|]. eapply combine_ok; [exact Hs|exact Hs|exact C].
  Qed.

  Lemma go_ok terms : forall symbols functions d,
    dict_ok symbols -> equation_symbols_go std code terms symbols functions = Ret d -> dict_ok d.
  Proof.
    induction terms as [|t rest IH]; intros symbols functions d Hd H; cbn [equation_symbols_go] in H.
    - inversion H; subst; exact Hd.
    - assert (plain : sym_ok (mkSymbol (Some (tname t)) (ttype t) (tindex t) (tindex t) None None) \/ ttype t = TEndogenous).
      { destruct (ttype t) eqn:T; auto; left; (split; [left; split; reflexivity|intros X; discriminate X]). }
      destruct (ttype t) eqn:T;
        try (destruct (dict_combine (tname t) _ symbols) as [d1|] eqn:C; [|discriminate];
             eapply IH; [|exact H]; eapply dict_combine_ok; [exact Hd| |exact C];
             first [ destruct plain as [P|P]; [exact P|discriminate P]
                   | split; [right; split; reflexivity|intros _; split; reflexivity] ]).
      (* verbatim *) eapply IH; eauto.
  Qed.

  Theorem equation_symbols_carry terms syms :
    equation_symbols std code terms = Ret syms ->
    Forall (fun s => ((sequation s = None /\ scode s = None) \/ (sequation s = Some std /\ scode s = Some code)) /\
                     (stype s = TEndogenous -> sequation s = Some std /\ scode s = Some code)) syms.
  Proof.
    unfold equation_symbols. destruct (equation_symbols_go std code terms [] []) as [d|] eqn:G; [|discriminate].
    intros H; inversion H; subst. apply (go_ok terms [] [] d (Forall_nil _)) in G.
    unfold dict_values. apply Forall_map. exact G.
  Qed.
End Carry.

(* the code of every endogenous symbol of an accepted statement is code_text, its equation is equation_text *)
Theorem endogenous_symbols_carry_code_text eq syms :
  parse_equation_M eq = POk syms ->
  is_blank eq = false -> head_is "`" eq && last_is "`" eq = false ->
  aligned eq -> gaps_brace_free (scan_items eq) = true ->
  exists std code,
    equation_text eq = Some std /\ code_text eq = Some code /\
    Forall (fun s => ((sequation s = None /\ scode s = None) \/ (sequation s = Some std /\ scode s = Some code)) /\
                     (stype s = TEndogenous -> sequation s = Some std /\ scode s = Some code)) syms.
Proof.
  intros H Hb Hv Ha Hg.
  destruct (parse_equation_code_spec eq syms H Hb Hv Ha Hg) as (terms & std & code & _ & Hs & Hc & He).
  exists std, code. repeat split; auto. eapply equation_symbols_carry; exact He.
Qed.
