(* Classify.v — from the terms of a script to the class attributes of the model (property C03).
   Definitions only; total; executable.

   * A statement is taken *after lexing*: the raw term lists of its two sides (what parse_terms returns
     for the text left / right of the first `=`) together with the normalised equation text and the code
     text; or a verbatim block.  `stmt_terms` is the tail of parse_equation_terms (fsic/parser.py:513-547),
     `stmt_symbols` the per-equation symbol loop of parse_equation (Merge.equation_symbols, imported),
     `program_symbols` the loop of parse_model (statement by statement, first error wins) followed by the
     cross-equation merge (Merge.merge_symbols, imported).
   * `class_of` : the name lists and LAGS / LEADS computed by build_model_definition
     (fsic/parser.py:1046-1075), including its failure modes on symbol lists no parser produces
     (non-integer lag entries, min_lags=None).
   * `default_range` : the positions SolverMixin.iter_periods yields when neither start nor end is given
     (fsic/core/interfaces.py:309-339), for a span of n labels. *)
From Coq Require Import String Ascii List Bool ZArith.
Import ListNotations.
Require Import PyBase Symbols Merge ParseEq.
Open Scope string_scope.

(* ---------- statements as term lists ---------- *)
Inductive stmt : Type :=
| SEq (lhs rhs : list term) (equation code : string)
| SVerb (equation code : string).

(* parse_equation_terms after the two calls of parse_terms: retype, keyword / invalid check, "no variable
   to assign" check (2ef3e7c) *)
Definition stmt_terms (lhs0 rhs0 : list term) : outcome (list term) :=
  let lhs := map (replace_type TEndogenous) lhs0 in
  let rhs := map (replace_type TExogenous) rhs0 in
  if has_type TKeyword lhs || has_type TInvalid rhs then Raise ParserError
  else if negb (has_type TEndogenous lhs) then Raise ParserError
  else Ret (lhs ++ rhs)%list.

Definition verbatim_symbol (equation code : string) : symbol :=
  mkSymbol None TVerbatim None None (Some equation) (Some code).

Definition stmt_symbols (st : stmt) : outcome (list symbol) :=
  match st with
  | SEq l r e c => match stmt_terms l r with
                   | Ret ts => equation_symbols e c ts
                   | Raise x => Raise x
                   end
  | SVerb e c => Ret [verbatim_symbol e c]
  end.

(* for statement in …: equation_symbols = parse_equation(statement); the first failure ends the loop *)
Fixpoint program_by_equation (p : list stmt) : outcome (list (list symbol)) :=
  match p with
  | [] => Ret []
  | st :: r =>
    match stmt_symbols st with
    | Raise e => Raise e
    | Ret syms => match program_by_equation r with
                  | Ret l => Ret (syms :: l)
                  | Raise e => Raise e
                  end
    end
  end.

Definition program_symbols (p : list stmt) : outcome (list symbol) :=
  match program_by_equation p with
  | Ret l => merge_symbols l
  | Raise e => Raise e
  end.

(* ---------- build_model_definition: name lists, lags, leads ---------- *)
Definition has_stype (ty : ptype) (s : symbol) : bool := type_eqb (stype s) ty.
(* [s.name for s in symbols if s.type == Type.X] *)
Definition names_of (ty : ptype) (syms : list symbol) : list (option string) :=
  map sname (filter (has_stype ty) syms).
(* s.type not in (Type.FUNCTION, Type.KEYWORD, Type.VERBATIM) *)
Definition indexed_symbol (s : symbol) : bool :=
  match stype s with TFunction | TKeyword | TVerbatim => false | _ => true end.

Fixpoint ints_of (l : list (option pidx)) : option (list Z) :=
  match l with
  | [] => Some []
  | Some (IInt z) :: r => match ints_of r with Some zs => Some (z :: zs) | None => None end
  | _ :: _ => None
  end.
(* abs(min(…)) / abs(max(…)) over a non-empty generator: anything but built-in ints ends in TypeError
   (None < int, str < int, abs(None), abs(str)) *)
Definition extreme (f : Z -> Z -> Z) (l : list (option pidx)) : outcome Z :=
  match ints_of l with
  | Some (z :: zs) => Ret (Z.abs (fold_left f zs z))
  | _ => Raise TypeError
  end.
(* if lags is None: lags = abs(min(…)) if non_indexed_symbols else 0; lags = max(lags, min_lags) *)
Definition resolve_length (f : Z -> Z -> Z) (explicit floor : option Z) (vals : list (option pidx)) : outcome Z :=
  match explicit with
  | Some z => Ret z
  | None =>
    match (match vals with [] => Ret 0%Z | _ => extreme f vals end) with
    | Raise e => Raise e
    | Ret z => match floor with
               | Some m => Ret (Z.max z m)
               | None => Raise TypeError                  (* max(int, None) *)
               end
    end
  end.

Record bopts : Type := mkOpts { o_lags : option Z; o_leads : option Z; o_min_lags : option Z; o_min_leads : option Z }.
Definition default_opts : bopts := mkOpts None None (Some 0%Z) (Some 0%Z).

Record mclass : Type := mkClass {
  c_endogenous : list (option string); c_exogenous : list (option string);
  c_parameters : list (option string); c_errors : list (option string);
  c_lags : Z; c_leads : Z }.
(* NAMES = ENDOGENOUS + EXOGENOUS + PARAMETERS + ERRORS (evaluated in the class body) *)
Definition c_names (c : mclass) : list (option string) :=
  (c_endogenous c ++ c_exogenous c ++ c_parameters c ++ c_errors c)%list.

Definition class_of (syms : list symbol) (o : bopts) : outcome mclass :=
  let ix := filter indexed_symbol syms in
  match resolve_length Z.min (o_lags o) (o_min_lags o) (map slags ix) with
  | Raise e => Raise e
  | Ret lg =>
    match resolve_length Z.max (o_leads o) (o_min_leads o) (map sleads ix) with
    | Raise e => Raise e
    | Ret ld => Ret (mkClass (names_of TEndogenous syms) (names_of TExogenous syms)
                             (names_of TParameter syms) (names_of TError syms) lg ld)
    end
  end.

(* ---------- SolverMixin.iter_periods with start = end = None on a span of n labels (7cd6323) ----------
   the defaults are POSITIONS: first = lags (IndexError when lags >= n), last = n - 1 - leads (IndexError when negative);
   PeriodIter(range(first, last + 1), span[first : last + 1]) yields zip(positions, labels): as many pairs as the label
   slice has elements (Python slice clipping — only negative lengths make the two differ).  No label is looked up. *)
Definition default_range (n : nat) (lags leads : Z) : outcome (list Z) :=
  if (n =? 0)%nat then Raise (SolutionError None)
  else if (Z.of_nat n <=? lags)%Z then Raise IndexError
  else if (Z.of_nat n - 1 - leads <? 0)%Z then Raise IndexError
  else
    let stop := (Z.of_nat n - leads)%Z in
    let positions := Z.to_nat (stop - lags) in                                              (* len(range(lags, stop)) *)
    let labels := Z.to_nat (clip (Z.of_nat n) stop - clip (Z.of_nat n) lags) in             (* len(span[lags:stop]) *)
    Ret (map (fun i => (lags + Z.of_nat i)%Z) (seq 0 (Nat.min positions labels))).

(* ---------- the declarative side: what the script says ---------- *)
(* the terms of a statement that become symbols (verbatim terms inside an equation never do), typed as
   parse_equation_terms types them *)
Definition symbol_term (t : term) : bool := negb (type_eqb (ttype t) TVerbatim).
Definition stmt_mentions (st : stmt) : list term :=
  match st with
  | SEq l r _ _ => filter symbol_term (map (replace_type TEndogenous) l ++ map (replace_type TExogenous) r)%list
  | SVerb _ _ => []
  end.
Definition mentions (p : list stmt) : list term := concat (map stmt_mentions p).

(* names in order of first appearance *)
Fixpoint first_occurrences (l : list string) : list string :=
  match l with
  | [] => []
  | x :: r => x :: filter (fun y => negb (String.eqb x y)) (first_occurrences r)
  end.

Definition named (x : string) (t : term) : bool := String.eqb x (tname t).
Definition mentioned_as (ty : ptype) (x : string) (ts : list term) : bool :=
  existsb (fun t => named x t && type_eqb (ttype t) ty) ts.

(* integer offsets written next to x anywhere in the script (a string index counts as none) *)
Definition term_offset (t : term) : Z := match tindex t with Some (IInt z) => z | _ => 0%Z end.
Definition indexed_term (t : term) : bool := match ttype t with TFunction | TKeyword | TVerbatim => false | _ => true end.
Definition offsets (ts : list term) : list Z := map term_offset (filter indexed_term ts).
Definition min0 (l : list Z) : Z := fold_right Z.min 0%Z l.
Definition max0 (l : list Z) : Z := fold_right Z.max 0%Z l.

(* verbatim blocks of the script, in order *)
Fixpoint verbatim_blocks (p : list stmt) : list symbol :=
  match p with
  | [] => []
  | SVerb e c :: r => verbatim_symbol e c :: verbatim_blocks r
  | SEq _ _ _ _ :: r => verbatim_blocks r
  end.

(* terms as process_term_match builds them: index None exactly for FUNCTION and KEYWORD terms *)
Definition wf_term_b (t : term) : bool :=
  match ttype t with
  | TVerbatim => true
  | TFunction | TKeyword => match tindex t with None => true | Some _ => false end
  | _ => match tindex t with None => false | Some _ => true end
  end.
Definition wf_stmt (st : stmt) : bool :=
  match st with
  | SEq l r _ _ => forallb wf_term_b l && forallb wf_term_b r
  | SVerb _ _ => true
  end.
Definition wf_program (p : list stmt) : bool := forallb wf_stmt p.

(* ---------- what the property says, read off the script ---------- *)
Definition script_names (p : list stmt) : list string := first_occurrences (map tname (mentions p)).
Definition is_endogenous (p : list stmt) (x : string) : bool := mentioned_as TEndogenous x (mentions p).
Definition is_parameter (p : list stmt) (x : string) : bool := mentioned_as TParameter x (mentions p).
Definition is_error (p : list stmt) (x : string) : bool := mentioned_as TError x (mentions p).
(* exogenous otherwise: a variable (mentioned on some right-hand side) that no equation assigns *)
Definition is_exogenous (p : list stmt) (x : string) : bool :=
  mentioned_as TExogenous x (mentions p) && negb (mentioned_as TEndogenous x (mentions p)).
Definition named_offsets (x : string) (ts : list term) : list Z := offsets (filter (named x) ts).
(* deepest lag / furthest lead written anywhere in the script, as non-negative lengths *)
Definition script_lags (p : list stmt) : Z := (- min0 (offsets (mentions p)))%Z.
Definition script_leads (p : list stmt) : Z := max0 (offsets (mentions p)).
