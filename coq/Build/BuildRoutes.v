(* BuildRoutes.v — the class a generated text denotes, and the four routes to it (property C15).

   `read_with segs text` reads a class text against the literal segments of a template: the four list literals
   (BuildRepr.read_names), the two integers, and — everything after the docstring of _evaluate — the block of
   equations.  `exec_M text` tries the typed template's segments, then the untyped one's: a model of what CPython's
   exec makes of a text generated from either template, restricted to what the property observes of a class
   (ENDOGENOUS … ERRORS, LAGS, LEADS — NAMES and CHECK are fixed expressions of these inside a literal segment —
   and the body of _evaluate).  Definitions only. *)
From Coq Require Import String Ascii List Bool Arith ZArith DecimalString.
Import ListNotations.
Require Import PyBase Generated PyStr Symbols ParseEq ParseModel Classify BuildDef BuildRepr BuildDefFacts.
Open Scope string_scope.

Record ctuple : Type := mkTuple {
  t_endogenous : list (option string); t_exogenous : list (option string);
  t_parameters : list (option string); t_errors : list (option string);
  t_lags : Z; t_leads : Z; t_block : string }.
Definition t_names (t : ctuple) : list (option string) := (t_endogenous t ++ t_exogenous t ++ t_parameters t ++ t_errors t)%list.
Definition t_check (t : ctuple) : list (option string) := t_endogenous t.
Definition tuple_of (c : mclass) (block : string) : ctuple :=
  mkTuple (c_endogenous c) (c_exogenous c) (c_parameters c) (c_errors c) (c_lags c) (c_leads c) block.

(* an integer literal as str(int) writes it: optional minus, digits; stops at the first other character *)
Definition is_intc (c : ascii) : bool := is_digit c || Ascii.eqb c "-".
Definition read_int (s : string) : option (Z * string) :=
  let '(d, rest) := span_while is_intc s in
  match NilZero.int_of_string d with
  | Some i => Some (Z.of_int i, rest)
  | None => None
  end.

Definition read_with (segs : list string) (text : string) : option ctuple :=
  let sg i := nth i segs "" in
  match sg 7 with
  | "" =>
    match prefix_rest (sg 0) text with None => None | Some r0 =>
    match read_names r0 with None => None | Some (en, r1) =>
    match prefix_rest (sg 1) r1 with None => None | Some r2 =>
    match read_names r2 with None => None | Some (ex, r3) =>
    match prefix_rest (sg 2) r3 with None => None | Some r4 =>
    match read_names r4 with None => None | Some (pa, r5) =>
    match prefix_rest (sg 3) r5 with None => None | Some r6 =>
    match read_names r6 with None => None | Some (er, r7) =>
    match prefix_rest (sg 4) r7 with None => None | Some r8 =>
    match read_int r8 with None => None | Some (lg, r9) =>
    match prefix_rest (sg 5) r9 with None => None | Some r10 =>
    match read_int r10 with None => None | Some (ld, r11) =>
    match prefix_rest (sg 6) r11 with None => None | Some block =>
      Some (mkTuple en ex pa er lg ld block)
    end end end end end end end end end end end end end
  | _ => None
  end.

Definition exec_M (text : string) : option ctuple :=
  match read_with (segments true) text with
  | Some t => Some t
  | None => read_with (segments false) text
  end.
(* the same as an exec oracle for BuildDef.build_model_M: a text that cannot be read does not compile *)
Definition exec_oracle (text : string) : exec_res ctuple :=
  match exec_M text with Some t => ExecOk t | None => ExecSyntaxError end.
