(* BuildIndentFacts.v — textwrap.indent on text whose lines are separated by "\n" (property C15): the lines stay the
   same lines, each one that is not whitespace-only gets the prefix — nothing else of a converter's output changes. *)
From Coq Require Import String Ascii List Bool Arith Lia.
Import ListNotations.
Require Import Generated PyStr BuildDef BuildDefFacts.
Open Scope string_scope.
Open Scope nat_scope.

Fixpoint no_sep (s : string) : bool :=
  match s with "" => true | String c r => negb (is_linesep c) && no_sep r end.

Lemma nl_is_linesep : is_linesep nl = true /\ Ascii.eqb nl cr = false /\ is_pyspace nl = true.
Proof. repeat split; vm_compute; reflexivity. Qed.

Lemma lk_line b : forall cur rest, no_sep b = true ->
  lines_keepends cur (b ++ String nl rest) = (rev_str cur "" ++ b ++ nl_s) :: lines_keepends "" rest.
Proof.
  destruct nl_is_linesep as (N1 & N2 & _).
  induction b as [|c b IH]; intros cur rest H.
  - cbn [append lines_keepends]. rewrite N1, N2. rewrite rev_str_cons. reflexivity.
  - cbn [no_sep] in H. apply andb_true_iff in H as [Hc Hb]. apply negb_true_iff in Hc.
    cbn [append lines_keepends]. rewrite Hc, (IH (String c cur) rest Hb), rev_str_cons, sapp_assoc. reflexivity.
Qed.
Lemma lk_last b : forall cur, no_sep b = true ->
  lines_keepends cur b = match rev_str cur "" ++ b with "" => [] | s => [s] end.
Proof.
  induction b as [|c b IH]; intros cur H.
  - cbn [lines_keepends]. rewrite sapp_nil_r. destruct cur as [|x cur]; [reflexivity|].
    rewrite rev_str_cons. destruct (rev_str cur ""); reflexivity.
  - cbn [no_sep] in H. apply andb_true_iff in H as [Hc Hb]. apply negb_true_iff in Hc.
    cbn [lines_keepends]. rewrite Hc, (IH (String c cur) Hb), rev_str_cons, sapp_assoc. reflexivity.
Qed.

Lemma is_blank_cons c r : is_blank (String c r) = if is_pyspace c then is_blank r else false.
Proof. unfold is_blank, lstrip_by. cbn [span_while]. destruct (is_pyspace c); [destruct (span_while is_pyspace r); reflexivity|reflexivity]. Qed.
Lemma is_blank_app_nl l : is_blank (l ++ nl_s) = is_blank l.
Proof.
  destruct nl_is_linesep as (_ & _ & N3).
  induction l as [|c l IH]; [cbn [append]; unfold nl_s; rewrite is_blank_cons, N3; reflexivity|].
  cbn [append]. rewrite !is_blank_cons, IH. reflexivity.
Qed.
Lemma indent_line_nl p l : indent_line p (l ++ nl_s) = indent_line p l ++ nl_s.
Proof. unfold indent_line. rewrite is_blank_app_nl. destruct (is_blank l); [reflexivity|rewrite sapp_assoc; reflexivity]. Qed.

Theorem indent_join_nl p ls : forallb no_sep ls = true -> indent p (join_nl ls) = join_nl (map (indent_line p) ls).
Proof.
  induction ls as [|l ls IH]; intros H; [reflexivity|].
  cbn [forallb] in H. apply andb_true_iff in H as [Hl Hls].
  destruct ls as [|l2 ls].
  - cbn [join_nl map]. unfold indent. rewrite (lk_last l "" Hl). cbn [rev_str append].
    destruct l as [|c l]; [reflexivity|]. cbn [map String.concat]. reflexivity.
  - change (join_nl (l :: l2 :: ls)) with (l ++ nl_s ++ join_nl (l2 :: ls)).
    change (join_nl (map (indent_line p) (l :: l2 :: ls))) with (indent_line p l ++ nl_s ++ join_nl (map (indent_line p) (l2 :: ls))).
    rewrite <- (IH Hls). unfold indent. unfold nl_s at 1. cbn [append]. rewrite (lk_line l "" _ Hl). cbn [rev_str append map].
    rewrite sconcat_cons, indent_line_nl, sapp_assoc. reflexivity.
Qed.

(* so: a converter output of "\n"-separated lines comes back line by line, prefixed where not blank *)
Example indent_join_example :
  indent eq_prefix (join_nl ["# Y[t] = X[t]"; "self._Y[t] = (self._X[t] +"; ""; "   "; "    1)"]) =
  join_nl ["        # Y[t] = X[t]"; "        self._Y[t] = (self._X[t] +"; ""; "   "; "            1)"].
Proof. rewrite indent_join_nl by reflexivity. reflexivity. Qed.

(* the block is the very end of the class text, whatever it contains: text = (a head that does not depend on the block) ++ block *)
Theorem text_ends_with_block h c eqs :
  fill h c eqs = (seg h 0 ++ py_repr_names (Classify.c_endogenous c) ++ seg h 1 ++ py_repr_names (Classify.c_exogenous c) ++ seg h 2 ++
                  py_repr_names (Classify.c_parameters c) ++ seg h 3 ++ py_repr_names (Classify.c_errors c) ++ seg h 4 ++
                  ParseEq.string_of_Z (Classify.c_lags c) ++ seg h 5 ++ ParseEq.string_of_Z (Classify.c_leads c) ++ seg h 6) ++ eqs.
Proof.
  unfold fill. assert (E : seg h 7 = "") by (destruct h; vm_compute; reflexivity). rewrite E, sapp_nil_r, !sapp_assoc. reflexivity.
Qed.
