(* BuildReprFacts.v — reading back a written name list gives the list (property C15). *)
From Coq Require Import String Ascii List Bool Arith Lia.
Import ListNotations.
Require Import PyStr BuildDef BuildRepr.
Open Scope string_scope.
Open Scope nat_scope.

Lemma sapp_assoc' (a b c : string) : (a ++ b) ++ c = a ++ (b ++ c).
Proof. induction a as [|x a IH]; cbn; [reflexivity|rewrite IH; reflexivity]. Qed.

(* one character: whatever follows, reading its escape gives the character back (all 256 characters, both quotes) *)
Lemma read_char_sq c tail : read_body sq (repr_char sq c ++ tail) = ocons c (read_body sq tail).
Proof. destruct c as [[] [] [] [] [] [] [] []]; vm_compute; reflexivity. Qed.
Lemma read_char_dq c tail : read_body dq (repr_char dq c ++ tail) = ocons c (read_body dq tail).
Proof. destruct c as [[] [] [] [] [] [] [] []]; vm_compute; reflexivity. Qed.

Lemma read_body_repr q s rest : q = sq \/ q = dq -> read_body q (repr_body q s ++ String q rest) = Some (s, rest).
Proof.
  intros Hq. induction s as [|c s IH]; cbn [repr_body append].
  - cbn [read_body]. rewrite Ascii.eqb_refl. reflexivity.
  - rewrite sapp_assoc'. destruct Hq as [-> | ->]; [rewrite read_char_sq|rewrite read_char_dq]; rewrite IH; reflexivity.
Qed.

Theorem read_repr s rest : read_str (py_repr_str s ++ rest) = Some (s, rest).
Proof.
  unfold py_repr_str. set (q := if has_char sq s && negb (has_char dq s) then dq else sq).
  assert (Hq : q = sq \/ q = dq) by (unfold q; destruct (has_char sq s && negb (has_char dq s)); auto).
  cbn [append read_str]. rewrite sapp_assoc'. cbn [append].
  replace (Ascii.eqb q sq || Ascii.eqb q dq) with true by (destruct Hq as [-> | ->]; reflexivity).
  apply read_body_repr, Hq.
Qed.

(* two different names are never written alike *)
Theorem py_repr_str_injective s1 s2 : py_repr_str s1 = py_repr_str s2 -> s1 = s2.
Proof.
  intros H. pose proof (read_repr s1 "") as R1. pose proof (read_repr s2 "") as R2. rewrite H in R1. rewrite R1 in R2.
  inversion R2; reflexivity.
Qed.

Lemma repr_str_head s : exists r, py_repr_str s = String sq r \/ py_repr_str s = String dq r.
Proof. unfold py_repr_str. destruct (has_char sq s && negb (has_char dq s)); eexists; [right|left]; reflexivity. Qed.

Lemma read_item_repr n rest : read_item (py_repr_name n ++ rest) = Some (n, rest).
Proof.
  destruct n as [s|]; cbn [py_repr_name].
  - unfold read_item. destruct (repr_str_head s) as (r & [E|E]).
    + assert (P : prefix_rest "None" (py_repr_str s ++ rest) = None) by (rewrite E; reflexivity).
      rewrite P, read_repr. reflexivity.
    + assert (P : prefix_rest "None" (py_repr_str s ++ rest) = None) by (rewrite E; reflexivity).
      rewrite P, read_repr. reflexivity.
  - reflexivity.
Qed.

Lemma repr_name_head n rest : exists c r, py_repr_name n ++ rest = String c r /\ Ascii.eqb c "]" = false.
Proof.
  destruct n as [s|]; cbn [py_repr_name].
  - destruct (repr_str_head s) as (r & [E|E]); rewrite E; eexists; eexists; split; reflexivity.
  - eexists; eexists; split; reflexivity.
Qed.

Lemma read_items_repr l : forall fuel rest, length l < fuel ->
  read_items fuel (join_sep ", " (map py_repr_name l) ++ "]" ++ rest) = Some (l, rest).
Proof.
  induction l as [|x l IH]; intros fuel rest L.
  - destruct fuel; [cbn in L; lia|]. reflexivity.
  - destruct fuel as [|fuel]; [cbn in L; lia|]. cbn [length] in L.
    destruct l as [|y l].
    + cbn [map join_sep]. destruct (repr_name_head x ("]" ++ rest)) as (c & r & E & N).
      cbn [read_items]. rewrite E, N, <- E, read_item_repr. reflexivity.
    + change (join_sep ", " (map py_repr_name (x :: y :: l))) with (py_repr_name x ++ ", " ++ join_sep ", " (map py_repr_name (y :: l))).
      rewrite !sapp_assoc'. destruct (repr_name_head x (", " ++ join_sep ", " (map py_repr_name (y :: l)) ++ "]" ++ rest)) as (c & r & E & N).
      cbn [read_items]. rewrite E, N, <- E, read_item_repr.
      change (prefix_rest ", " (", " ++ join_sep ", " (map py_repr_name (y :: l)) ++ "]" ++ rest))
        with (Some (join_sep ", " (map py_repr_name (y :: l)) ++ "]" ++ rest)).
      rewrite (IH fuel rest) by (cbn [length] in *; lia). reflexivity.
Qed.

Lemma length_join_ge l : length l <= String.length (join_sep ", " (map py_repr_name l) ++ "]").
Proof.
  assert (A : forall a b, String.length (a ++ b) = String.length a + String.length b).
  { induction a as [|c a IH]; intros b; cbn; [reflexivity|rewrite IH; reflexivity]. }
  assert (P : forall n, 1 <= String.length (py_repr_name n)).
  { intros [s|]; cbn [py_repr_name]; [|cbn; lia]. unfold py_repr_str. cbn. lia. }
  induction l as [|x l IH]; [cbn; lia|]. destruct l as [|y l].
  - cbn [map join_sep length]. rewrite A. pose proof (P x). cbn. lia.
  - change (join_sep ", " (map py_repr_name (x :: y :: l))) with (py_repr_name x ++ ", " ++ join_sep ", " (map py_repr_name (y :: l))).
    rewrite !sapp_assoc', A. pose proof (P x). cbn [length] in *. cbn [append String.length]. lia.
Qed.

(* reading the literal that the generator writes for a list of names gives that list, whatever text follows *)
Theorem read_names_repr l rest : read_names (py_repr_names l ++ rest) = Some (l, rest).
Proof.
  unfold py_repr_names. rewrite !sapp_assoc'. cbn [append read_names]. rewrite (Ascii.eqb_refl "[").
  apply read_items_repr.
  assert (A : forall a b, String.length (a ++ b) = String.length a + String.length b).
  { induction a as [|c a IH]; intros b; cbn; [reflexivity|rewrite IH; reflexivity]. }
  pose proof (length_join_ge l) as G. rewrite A in G. cbn [String.length]. rewrite A. cbn [String.length append] in *. rewrite A. lia.
Qed.

Theorem py_repr_names_injective l1 l2 : py_repr_names l1 = py_repr_names l2 -> l1 = l2.
Proof.
  intros H. pose proof (read_names_repr l1 "") as R1. pose proof (read_names_repr l2 "") as R2. rewrite H in R1. rewrite R1 in R2.
  inversion R2; reflexivity.
Qed.
