(* BuildReprFacts.v — reading back a written name list gives the list (property C15). *)
From Coq Require Import String Ascii List Bool Arith Lia.
Import ListNotations.
Require Import PyStr BuildDef BuildRepr.
Open Scope string_scope.
Open Scope nat_scope.

Lemma sapp_assoc' (a b c : string) : (a ++ b) ++ c = a ++ (b ++ c).
Proof. induction a as [|x a IH]; cbn; [reflexivity|rewrite IH; reflexivity]. Qed.

(* unfolding equations of the reader *)
Lemma rb_plain q c r : Ascii.eqb c q = false -> Ascii.eqb c bs = false -> read_body q (String c r) = ocons c (read_body q r).
Proof. intros H1 H2. cbn [read_body]. rewrite H1, H2. reflexivity. Qed.
Lemma rb_esc_self q d r : Ascii.eqb bs q = false -> Ascii.eqb d bs || Ascii.eqb d sq || Ascii.eqb d dq = true ->
  read_body q (String bs (String d r)) = ocons d (read_body q r).
Proof. intros H1 H2. cbn [read_body]. rewrite H1, (Ascii.eqb_refl bs), H2. reflexivity. Qed.
Lemma rb_esc_t q r : Ascii.eqb bs q = false -> read_body q (String bs (String "t" r)) = ocons tab (read_body q r).
Proof. intros H1. cbn [read_body]. rewrite H1, (Ascii.eqb_refl bs). reflexivity. Qed.
Lemma rb_esc_n q r : Ascii.eqb bs q = false -> read_body q (String bs (String "n" r)) = ocons nl (read_body q r).
Proof. intros H1. cbn [read_body]. rewrite H1, (Ascii.eqb_refl bs). reflexivity. Qed.
Lemma rb_esc_r q r : Ascii.eqb bs q = false -> read_body q (String bs (String "r" r)) = ocons cr (read_body q r).
Proof. intros H1. cbn [read_body]. rewrite H1, (Ascii.eqb_refl bs). reflexivity. Qed.
Lemma rb_esc_x q h1 h2 a b r : Ascii.eqb bs q = false -> unhex_digit h1 = Some a -> unhex_digit h2 = Some b ->
  read_body q (String bs (String "x" (String h1 (String h2 r)))) = ocons (ascii_of_nat (16 * a + b)) (read_body q r).
Proof. intros H1 Ha Hb. cbn [read_body]. rewrite H1, (Ascii.eqb_refl bs), Ha, Hb. reflexivity. Qed.

(* \xNN round trip, all 256 characters (closed computations) *)
Lemma hex_roundtrip c :
  unhex_digit (hex_digit (nat_of_ascii c / 16)) = Some (nat_of_ascii c / 16) /\
  unhex_digit (hex_digit (nat_of_ascii c mod 16)) = Some (nat_of_ascii c mod 16) /\
  ascii_of_nat (16 * (nat_of_ascii c / 16) + nat_of_ascii c mod 16) = c.
Proof. destruct c as [[] [] [] [] [] [] [] []]; vm_compute; repeat split; reflexivity. Qed.

(* one character: whatever follows, reading its escape gives the character back *)
Lemma read_char q c tail : q = sq \/ q = dq -> read_body q (repr_char q c ++ tail) = ocons c (read_body q tail).
Proof.
  intros Hq. assert (Bq : Ascii.eqb bs q = false) by (destruct Hq as [-> | ->]; reflexivity).
  unfold repr_char. destruct (Ascii.eqb c q || Ascii.eqb c bs) eqn:E1.
  - cbn [append]. apply rb_esc_self; [exact Bq|].
    destruct Hq as [-> | ->]; destruct (Ascii.eqb c bs), (Ascii.eqb c sq), (Ascii.eqb c dq); cbn in E1 |- *; congruence.
  - apply orb_false_iff in E1 as [E1a E1b].
    destruct (Ascii.eqb c tab) eqn:E2; [apply Ascii.eqb_eq in E2; subst c; cbn [append]; apply rb_esc_t, Bq|].
    destruct (Ascii.eqb c nl) eqn:E3; [apply Ascii.eqb_eq in E3; subst c; cbn [append]; apply rb_esc_n, Bq|].
    destruct (Ascii.eqb c cr) eqn:E4; [apply Ascii.eqb_eq in E4; subst c; cbn [append]; apply rb_esc_r, Bq|].
    destruct (is_printable c).
    + cbn [append]. apply rb_plain; assumption.
    + cbn [append]. destruct (hex_roundtrip c) as (H1 & H2 & H3). rewrite (rb_esc_x q _ _ _ _ tail Bq H1 H2), H3. reflexivity.
Qed.

Lemma read_body_repr q s rest : q = sq \/ q = dq -> read_body q (repr_body q s ++ String q rest) = Some (s, rest).
Proof.
  intros Hq. induction s as [|c s IH]; cbn [repr_body append].
  - cbn [read_body]. rewrite Ascii.eqb_refl. reflexivity.
  - rewrite sapp_assoc', (read_char q c _ Hq), IH. reflexivity.
Qed.

Theorem read_repr s rest : read_str (py_repr_str s ++ rest) = Some (s, rest).
Proof.
  unfold py_repr_str. set (q := if has_char sq s && negb (has_char dq s) then dq else sq).
  assert (Hq : q = sq \/ q = dq) by (unfold q; destruct (has_char sq s && negb (has_char dq s)); auto).
  cbn [append read_str]. rewrite sapp_assoc'. cbn [append].
  replace (Ascii.eqb q sq || Ascii.eqb q dq) with true by (destruct Hq as [-> | ->]; reflexivity).
  apply read_body_repr, Hq.
Qed.

(* two different names are never written alike *)
Theorem py_repr_str_injective s1 s2 : py_repr_str s1 = py_repr_str s2 -> s1 = s2.
Proof.
  intros H. pose proof (read_repr s1 "") as R1. pose proof (read_repr s2 "") as R2. rewrite H in R1. rewrite R1 in R2.
  inversion R2; reflexivity.
Qed.

Lemma repr_str_head s : exists r, py_repr_str s = String sq r \/ py_repr_str s = String dq r.
Proof. unfold py_repr_str. destruct (has_char sq s && negb (has_char dq s)); eexists; [right|left]; reflexivity. Qed.

Lemma read_item_repr n rest : read_item (py_repr_name n ++ rest) = Some (n, rest).
Proof.
  destruct n as [s|]; cbn [py_repr_name].
  - unfold read_item. destruct (repr_str_head s) as (r & [E|E]).
    + assert (P : prefix_rest "None" (py_repr_str s ++ rest) = None) by (rewrite E; reflexivity).
      rewrite P, read_repr. reflexivity.
    + assert (P : prefix_rest "None" (py_repr_str s ++ rest) = None) by (rewrite E; reflexivity).
      rewrite P, read_repr. reflexivity.
  - reflexivity.
Qed.

Lemma repr_name_head n rest : exists c r, py_repr_name n ++ rest = String c r /\ Ascii.eqb c "]" = false.
Proof.
  destruct n as [s|]; cbn [py_repr_name].
  - destruct (repr_str_head s) as (r & [E|E]); rewrite E; eexists; eexists; split; reflexivity.
  - eexists; eexists; split; reflexivity.
Qed.

Lemma read_items_repr l : forall fuel rest, length l < fuel ->
  read_items fuel (join_sep ", " (map py_repr_name l) ++ "]" ++ rest) = Some (l, rest).
Proof.
  induction l as [|x l IH]; intros fuel rest L.
  - destruct fuel; [cbn in L; lia|]. reflexivity.
  - destruct fuel as [|fuel]; [cbn in L; lia|]. cbn [length] in L.
    destruct l as [|y l].
    + cbn [map join_sep]. destruct (repr_name_head x ("]" ++ rest)) as (c & r & E & N).
      cbn [read_items]. rewrite E, N, <- E, read_item_repr. reflexivity.
    + change (join_sep ", " (map py_repr_name (x :: y :: l))) with (py_repr_name x ++ ", " ++ join_sep ", " (map py_repr_name (y :: l))).
      rewrite !sapp_assoc'. destruct (repr_name_head x (", " ++ join_sep ", " (map py_repr_name (y :: l)) ++ "]" ++ rest)) as (c & r & E & N).
      cbn [read_items]. rewrite E, N, <- E, read_item_repr.
      change (prefix_rest ", " (", " ++ join_sep ", " (map py_repr_name (y :: l)) ++ "]" ++ rest))
        with (Some (join_sep ", " (map py_repr_name (y :: l)) ++ "]" ++ rest)).
      cbv beta iota. rewrite (IH fuel rest) by (cbn [length] in *; lia). reflexivity.
Qed.

Lemma length_join_ge l : length l <= String.length (join_sep ", " (map py_repr_name l) ++ "]").
Proof.
  assert (A : forall a b, String.length (a ++ b) = String.length a + String.length b).
  { induction a as [|c a IH]; intros b; cbn; [reflexivity|rewrite IH; reflexivity]. }
  assert (P : forall n, 1 <= String.length (py_repr_name n)).
  { intros [s|]; cbn [py_repr_name]; [|cbn; lia]. unfold py_repr_str. cbn. lia. }
  induction l as [|x l IH]; [cbn; lia|]. destruct l as [|y l].
  - cbn [map join_sep length]. rewrite A. pose proof (P x). cbn. lia.
  - change (join_sep ", " (map py_repr_name (x :: y :: l))) with (py_repr_name x ++ ", " ++ join_sep ", " (map py_repr_name (y :: l))).
    rewrite !sapp_assoc', A. pose proof (P x). cbn [length] in *. cbn [append String.length]. lia.
Qed.

(* reading the literal that the generator writes for a list of names gives that list, whatever text follows *)
Theorem read_names_repr l rest : read_names (py_repr_names l ++ rest) = Some (l, rest).
Proof.
  unfold py_repr_names. rewrite !sapp_assoc'. cbn [append read_names]. rewrite (Ascii.eqb_refl "[").
  apply read_items_repr.
  assert (A : forall a b, String.length (a ++ b) = String.length a + String.length b).
  { induction a as [|c a IH]; intros b; cbn; [reflexivity|rewrite IH; reflexivity]. }
  pose proof (length_join_ge l) as G. rewrite A in G. cbn [String.length] in G |- *. rewrite A. cbn [String.length]. lia.
Qed.

Theorem py_repr_names_injective l1 l2 : py_repr_names l1 = py_repr_names l2 -> l1 = l2.
Proof.
  intros H. pose proof (read_names_repr l1 "") as R1. pose proof (read_names_repr l2 "") as R2. rewrite H in R1. rewrite R1 in R2.
  inversion R2; reflexivity.
Qed.

(* ---------- the literals in the generated text ---------- *)
Require Import PyBase Symbols ParseEq Classify BuildDefFacts.

(* the four list literals of the class text read back as the four name lists of class_of, each followed by the next
   literal segment of the template *)
Theorem text_lists_read_back h c eqs :
  exists t1 t2 t3 t4,
    fill h c eqs = seg h 0 ++ t1 /\
    read_names t1 = Some (c_endogenous c, seg h 1 ++ t2) /\
    read_names t2 = Some (c_exogenous c, seg h 2 ++ t3) /\
    read_names t3 = Some (c_parameters c, seg h 3 ++ t4) /\
    read_names t4 = Some (c_errors c, seg h 4 ++ string_of_Z (c_lags c) ++ seg h 5 ++ string_of_Z (c_leads c) ++ seg h 6 ++ eqs ++ seg h 7).
Proof.
  unfold fill. eexists. eexists. eexists. eexists. split; [reflexivity|].
  split; [apply read_names_repr|]. split; [apply read_names_repr|]. split; apply read_names_repr.
Qed.

(* what the literal segments are: the attribute each field is assigned to (untyped template; the typed one agrees modulo hints) *)
Example untyped_segment_heads :
  seg false 0 = "class Model(BaseModel):" ++ nl_s ++ "    ENDOGENOUS = " /\
  seg false 1 = nl_s ++ "    EXOGENOUS = " /\
  seg false 2 = nl_s ++ nl_s ++ "    PARAMETERS = " /\
  seg false 3 = nl_s ++ "    ERRORS = " /\
  seg false 4 = nl_s ++ nl_s ++ "    NAMES = ENDOGENOUS + EXOGENOUS + PARAMETERS + ERRORS" ++ nl_s ++ "    CHECK = ENDOGENOUS" ++ nl_s ++ nl_s ++ "    LAGS = " /\
  seg false 5 = nl_s ++ "    LEADS = " /\
  seg false 7 = "".
Proof. repeat split; vm_compute; reflexivity. Qed.
Example typed_segment_heads :
  seg true 0 = "class Model(BaseModel):" ++ nl_s ++ "    ENDOGENOUS: List[str] = " /\
  seg true 4 = nl_s ++ nl_s ++ "    NAMES: List[str] = ENDOGENOUS + EXOGENOUS + PARAMETERS + ERRORS" ++ nl_s ++ "    CHECK: List[str] = ENDOGENOUS" ++ nl_s ++ nl_s ++ "    LAGS: int = " /\
  seg true 7 = "".
Proof. repeat split; vm_compute; reflexivity. Qed.
