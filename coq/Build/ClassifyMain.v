(* ClassifyMain.v — the theorems of property C03 about programs given as term lists, and about the default range. *)
From Coq Require Import String Ascii List Bool ZArith Lia.
Import ListNotations.
Require Import PyBase Generated Symbols SymbolsFacts Merge MergeFacts ParseEq Classify ClassifyFacts ClassifyProgram ClassifyClass.
Open Scope string_scope.

Lemma class_of_inv syms o c : class_of syms o = Ret c ->
  c_endogenous c = names_of TEndogenous syms /\ c_exogenous c = names_of TExogenous syms /\
  c_parameters c = names_of TParameter syms /\ c_errors c = names_of TError syms /\
  resolve_length Z.min (o_lags o) (o_min_lags o) (map slags (filter indexed_symbol syms)) = Ret (c_lags c) /\
  resolve_length Z.max (o_leads o) (o_min_leads o) (map sleads (filter indexed_symbol syms)) = Ret (c_leads c).
Proof.
  unfold class_of.
  destruct (resolve_length Z.min _ _ _) as [lg|] eqn:E1; [|discriminate].
  destruct (resolve_length Z.max _ _ _) as [ld|] eqn:E2; [|discriminate].
  intros H; inversion H; subst; cbn. repeat split; reflexivity.
Qed.

Lemma filter_indexed_verbatim q : filter indexed_symbol (verbatim_blocks q) = [].
Proof. induction q as [|[l r e c|e c] q IH]; cbn; auto. Qed.

Lemma mention_indexed p d x v a : DInv d (Gof (amentions p)) -> dict_get x d = Some v -> In a (amentions p) -> aname a = x ->
  unindexed_type (atype a) = unindexed_type (stype v).
Proof.
  intros (N & K & V) Eg Ia Na. destruct (V x v Eg) as (_ & Pv & _). destruct Pv as (_ & Tv & _).
  apply tcompat_unindexed, Tv. split; assumption.
Qed.

(* the lags / leads the generator computes from an accepted program's symbols *)
Lemma computed_lengths p d : DInv d (Gof (amentions p)) ->
  (match map slags (filter indexed_symbol (dict_values d)) with [] => Ret 0%Z
   | _ => extreme Z.min (map slags (filter indexed_symbol (dict_values d))) end) = Ret (script_lags p) /\
  (match map sleads (filter indexed_symbol (dict_values d)) with [] => Ret 0%Z
   | _ => extreme Z.max (map sleads (filter indexed_symbol (dict_values d))) end) = Ret (script_leads p).
Proof.
  intros HD. set (ix := filter indexed_symbol (dict_values d)).
  assert (IX : forall s, In s ix -> exists k, dict_get k d = Some s /\ unindexed_type (stype s) = false).
  { intros s I. apply filter_In in I as [I U]. unfold dict_values in I. apply in_map_iff in I as ([k v] & <- & I).
    exists k. split; [apply in_dict_get; [apply HD|exact I]|]. rewrite indexed_symbol_unindexed in U. apply negb_true_iff in U. exact U. }
  assert (XI : forall k v, dict_get k d = Some v -> unindexed_type (stype v) = false -> In v ix).
  { intros k v Eg U. apply filter_In. split; [eapply dict_get_in; eauto|]. rewrite indexed_symbol_unindexed, U. reflexivity. }
  (* every offset belongs to an indexed symbol *)
  assert (OFF : forall o, In o (offsets (mentions p)) -> exists k v a, dict_get k d = Some v /\ unindexed_type (stype v) = false /\
                                                         In a (amentions p) /\ aname a = k /\ aoff a = o).
  { intros o Io. apply in_offsets_iff in Io as (a & Ia & Ua & <-). pose proof HD as (N & K & V).
    pose proof (K (aname a) a (conj Ia eq_refl)) as Ik.
    destruct (dict_get (aname a) d) as [v|] eqn:Eg; [|apply dict_get_none_keys in Eg; contradiction].
    exists (aname a), v, a. split; [exact Eg|]. split; [rewrite <- (mention_indexed p d _ v a HD Eg Ia eq_refl); exact Ua|auto]. }
  split.
  - destruct (ints_of_all ix slags) as (zs & E & Z).
    { intros s I. destruct (IX s I) as (k & Eg & U). destruct (sym_lags p d HD k s Eg U) as (z & z' & Hz & _). eauto. }
    assert (S : forall z, In z zs -> (z <= 0)%Z).
    { intros z I. apply Z in I as (s & Is & Hs). destruct (IX s Is) as (k & Eg & U).
      destruct (sym_lags p d HD k s Eg U) as (z1 & z' & Hz & _ & L & _). rewrite Hs in Hz. inversion Hz; subst. exact L. }
    fold ix. rewrite (computed_min _ zs E S). f_equal. unfold script_lags. f_equal.
    apply Z.le_antisymm.
    + apply min0_ge; [apply min0_le_0|]. intros o Io. destruct (OFF o Io) as (k & v & a & Eg & U & Ia & Na & <-).
      destruct (sym_lags p d HD k v Eg U) as (z & z' & Hz & _ & _ & _ & B & _).
      assert (In z zs) by (apply Z; exists v; split; [eapply XI; eauto|exact Hz]).
      pose proof (min0_le_in zs z H). destruct (B a Ia Na). lia.
    + apply min0_ge; [apply min0_le_0|]. intros z I. apply Z in I as (s & Is & Hs). destruct (IX s Is) as (k & Eg & U).
      destruct (sym_lags p d HD k s Eg U) as (z1 & z' & Hz & _ & L & _ & _ & A & _). rewrite Hs in Hz. inversion Hz; subst z1.
      destruct A as [->|(a & Ia & Na & Ea)]; [apply min0_le_0|]. apply min0_le_in. apply in_offsets_iff. exists a.
      split; [exact Ia|]. split; [rewrite (mention_indexed p d k s a HD Eg Ia Na); exact U|exact Ea].
  - destruct (ints_of_all ix sleads) as (zs & E & Z).
    { intros s I. destruct (IX s I) as (k & Eg & U). destruct (sym_lags p d HD k s Eg U) as (z & z' & _ & Hz & _). eauto. }
    assert (S : forall z, In z zs -> (0 <= z)%Z).
    { intros z I. apply Z in I as (s & Is & Hs). destruct (IX s Is) as (k & Eg & U).
      destruct (sym_lags p d HD k s Eg U) as (z1 & z' & _ & Hz & _ & L & _). rewrite Hs in Hz. inversion Hz; subst. exact L. }
    fold ix. rewrite (computed_max _ zs E S). f_equal. unfold script_leads.
    apply Z.le_antisymm.
    + apply max0_le; [apply max0_ge_0|]. intros z I. apply Z in I as (s & Is & Hs). destruct (IX s Is) as (k & Eg & U).
      destruct (sym_lags p d HD k s Eg U) as (z1 & z' & _ & Hz & _ & L & _ & _ & A). rewrite Hs in Hz. inversion Hz; subst z'.
      destruct A as [->|(a & Ia & Na & Ea)]; [apply max0_ge_0|]. apply max0_ge_in. apply in_offsets_iff. exists a.
      split; [exact Ia|]. split; [rewrite (mention_indexed p d k s a HD Eg Ia Na); exact U|exact Ea].
    + apply max0_le; [apply max0_ge_0|]. intros o Io. destruct (OFF o Io) as (k & v & a & Eg & U & Ia & Na & <-).
      destruct (sym_lags p d HD k v Eg U) as (z & z' & _ & Hz & _ & _ & B & _).
      assert (In z' zs) by (apply Z; exists v; split; [eapply XI; eauto|exact Hz]).
      pose proof (max0_ge_in zs z' H). destruct (B a Ia Na). lia.
Qed.

(* ====================================================================================================== *)
Section Program.
  Variable p : list stmt.
  Hypothesis W : wf_program p = true.

  Lemma accepted_table syms : program_symbols p = Ret syms ->
    exists d, syms = (dict_values d ++ verbatim_blocks p)%list /\ DInv d (Gof (amentions p)) /\ dict_keys d = script_names p.
  Proof.
    intros A. pose proof (program_spec p W) as S. rewrite A in S. destruct S as (d & E & HD & K).
    exists d. split; [exact E|]. split; [exact HD|]. apply keys_are_script_names; assumption.
  Qed.

  Theorem symbol_order syms : program_symbols p = Ret syms ->
    exists d, syms = (dict_values d ++ verbatim_blocks p)%list /\ dict_keys d = script_names p /\
              forall k v, In (k, v) d -> sname v = Some k.
  Proof.
    intros A. destruct (accepted_table syms A) as (d & E & HD & K). exists d. split; [exact E|]. split; [exact K|].
    intros k v I. apply (DInv_entries d _ k v HD I).
  Qed.

  (* the four classes: filters of the names of the script, in order of first appearance *)
  Theorem name_lists syms o c : program_symbols p = Ret syms -> class_of syms o = Ret c ->
    c_endogenous c = map Some (filter (is_endogenous p) (script_names p)) /\
    c_exogenous c = map Some (filter (is_exogenous p) (script_names p)) /\
    c_parameters c = map Some (filter (is_parameter p) (script_names p)) /\
    c_errors c = map Some (filter (is_error p) (script_names p)).
  Proof.
    intros A C. destruct (accepted_table syms A) as (d & -> & HD & K).
    destruct (class_of_inv _ _ _ C) as (E1 & E2 & E3 & E4 & _).
    rewrite E1, E2, E3, E4, !names_of_app, !names_of_verbatim, !app_nil_r, <- K by discriminate.
    split; [|split; [|split]]; apply names_of_dict; apply (entry_type p d HD); intros x v Eg;
      destruct (sym_types p d HD x v Eg) as (T1 & T2 & T3 & T4); assumption.
  Qed.

  (* endogenous iff assigned, parameter iff in braces, error iff in angle brackets, exogenous otherwise *)
  Theorem membership syms o c x : program_symbols p = Ret syms -> class_of syms o = Ret c ->
    (In (Some x) (c_endogenous c) <-> is_endogenous p x = true) /\
    (In (Some x) (c_parameters c) <-> is_parameter p x = true) /\
    (In (Some x) (c_errors c) <-> is_error p x = true) /\
    (In (Some x) (c_exogenous c) <-> is_exogenous p x = true).
  Proof.
    intros A C. destruct (name_lists syms o c A C) as (E1 & E2 & E3 & E4). rewrite E1, E2, E3, E4.
    assert (X : forall (f : string -> bool) ty, (forall y, f y = true -> mentioned_as ty y (mentions p) = true) ->
                (In (Some x) (map Some (filter f (script_names p))) <-> f x = true)).
    { intros f ty Hf. rewrite in_map_iff. split.
      - intros (y & Ey & I). inversion Ey; subst. apply filter_In in I. apply I.
      - intros Fx. exists x. split; [reflexivity|]. apply filter_In. split; [|exact Fx].
        unfold script_names. rewrite <- dedup_first_occurrences. apply dedup_in.
        specialize (Hf x Fx). unfold mentioned_as in Hf. apply existsb_exists in Hf as (t & It & Ht).
        apply andb_true_iff in Ht as [Hn _]. unfold named in Hn. apply String.eqb_eq in Hn. subst x. apply in_map. exact It. }
    split; [|split; [|split]].
    - apply (X _ TEndogenous). auto.
    - apply (X _ TParameter). auto.
    - apply (X _ TError). auto.
    - apply (X _ TExogenous). unfold is_exogenous. intros y H. apply andb_true_iff in H. apply H.
  Qed.

  (* no name is in two classes: the concatenation NAMES has no duplicate *)
  Lemma nodup_app {A} (l1 l2 : list A) : NoDup l1 -> NoDup l2 -> (forall x, In x l1 -> ~ In x l2) -> NoDup (l1 ++ l2).
  Proof.
    induction l1 as [|a l1 IH]; intros N1 N2 D; cbn; [exact N2|]. inversion N1; subst. constructor.
    - intros I. apply in_app_or in I as [I|I]; [contradiction|]. apply (D a); [left; reflexivity|exact I].
    - apply IH; auto. intros x I. apply D. right; exact I.
  Qed.
  Lemma nodup_filter {A} (f : A -> bool) l : NoDup l -> NoDup (filter f l).
  Proof.
    induction 1 as [|a l N1 N2 IH]; cbn; [constructor|]. destruct (f a); [|exact IH].
    constructor; [|exact IH]. intros I. apply filter_In in I. apply N1, I.
  Qed.
  Lemma nodup_map_some (l : list string) : NoDup l -> NoDup (map Some l).
  Proof.
    induction 1 as [|a l N1 N2 IH]; cbn; constructor; [|exact IH].
    intros I. apply in_map_iff in I as (y & E & I). inversion E; subst. contradiction.
  Qed.

  Theorem names_partition syms o c : program_symbols p = Ret syms -> class_of syms o = Ret c ->
    NoDup (c_names c) /\
    (forall x, In (Some x) (c_names c) <->
               In x (script_names p) /\ (is_endogenous p x || is_exogenous p x || is_parameter p x || is_error p x = true)).
  Proof.
    intros A C. destruct (name_lists syms o c A C) as (E1 & E2 & E3 & E4).
    destruct (accepted_table syms A) as (d & _ & HD & K).
    assert (ND : NoDup (script_names p)) by (unfold script_names; rewrite <- dedup_first_occurrences; apply dedup_nodup).
    (* exclusivity of the classes, from the single type of the merged symbol *)
    assert (TY : forall x, In x (script_names p) -> exists v, dict_get x d = Some v).
    { intros x I. rewrite <- K in I. destruct (dict_get x d) as [v|] eqn:Eg; [eauto|]. apply dict_get_none_keys in Eg. contradiction. }
    assert (EX : forall (f g : string -> bool) tf tg, tf <> tg ->
              (forall x v, dict_get x d = Some v -> (stype v = tf <-> f x = true)) ->
              (forall x v, dict_get x d = Some v -> (stype v = tg <-> g x = true)) ->
              forall x, In x (map Some (filter f (script_names p))) -> ~ In x (map Some (filter g (script_names p)))).
    { intros f g tf tg N Hf Hg x I1 I2. apply in_map_iff in I1 as (y & <- & I1). apply in_map_iff in I2 as (y' & E & I2).
      inversion E; subst y'. apply filter_In in I1 as [Iy F]. apply filter_In in I2 as [_ Gy].
      destruct (TY y Iy) as [v Eg]. apply (Hf y v Eg) in F. apply (Hg y v Eg) in Gy. congruence. }
    assert (T : forall x v, dict_get x d = Some v ->
                (stype v = TEndogenous <-> is_endogenous p x = true) /\ (stype v = TParameter <-> is_parameter p x = true) /\
                (stype v = TError <-> is_error p x = true) /\ (stype v = TExogenous <-> is_exogenous p x = true)).
    { intros x v Eg. apply (sym_types p d HD x v Eg). }
    split.
    - unfold c_names. rewrite E1, E2, E3, E4.
      assert (NDf : forall f : string -> bool, NoDup (map Some (filter f (script_names p)))).
      { intros f. apply nodup_map_some, nodup_filter, ND. }
      apply nodup_app; [apply NDf| |].
      + apply nodup_app; [apply NDf| |].
        * apply nodup_app; [apply NDf|apply NDf|].
          intros x I J. revert J. eapply (EX _ _ TParameter TError); [discriminate| | |exact I]; intros y v Eg; apply (T y v Eg).
        * intros x I J. apply in_app_or in J as [J|J].
          -- revert J. eapply (EX _ _ TExogenous TParameter); [discriminate| | |exact I]; intros y v Eg; apply (T y v Eg).
          -- revert J. eapply (EX _ _ TExogenous TError); [discriminate| | |exact I]; intros y v Eg; apply (T y v Eg).
      + intros x I J. apply in_app_or in J as [J|J]; [|apply in_app_or in J as [J|J]].
        * revert J. eapply (EX _ _ TEndogenous TExogenous); [discriminate| | |exact I]; intros y v Eg; apply (T y v Eg).
        * revert J. eapply (EX _ _ TEndogenous TParameter); [discriminate| | |exact I]; intros y v Eg; apply (T y v Eg).
        * revert J. eapply (EX _ _ TEndogenous TError); [discriminate| | |exact I]; intros y v Eg; apply (T y v Eg).
    - intros x. unfold c_names. rewrite E1, E2, E3, E4, !in_app_iff, !in_map_iff.
      assert (F : forall f : string -> bool, (exists y, Some y = Some x /\ In y (filter f (script_names p))) <-> In x (script_names p) /\ f x = true).
      { intros f. split; [intros (y & E & I); inversion E; subst; apply filter_In in I; exact I|intros H; exists x; split; [reflexivity|apply filter_In; exact H]]. }
      rewrite !F, !orb_true_iff. tauto.
  Qed.

  (* LAGS / LEADS: deepest lag / furthest lead of the script, explicit values replace, minima only raise *)
  Theorem lags_leads syms o c : program_symbols p = Ret syms -> class_of syms o = Ret c ->
    (forall z, o_lags o = Some z -> c_lags c = z) /\
    (o_lags o = None -> exists m, o_min_lags o = Some m /\ c_lags c = Z.max (script_lags p) m) /\
    (forall z, o_leads o = Some z -> c_leads c = z) /\
    (o_leads o = None -> exists m, o_min_leads o = Some m /\ c_leads c = Z.max (script_leads p) m).
  Proof.
    intros A C. destruct (accepted_table syms A) as (d & -> & HD & K).
    destruct (class_of_inv _ _ _ C) as (_ & _ & _ & _ & R1 & R2).
    rewrite filter_app, filter_indexed_verbatim, app_nil_r in R1, R2.
    destruct (computed_lengths p d HD) as [L1 L2].
    unfold resolve_length in R1, R2. rewrite L1 in R1. rewrite L2 in R2.
    split; [|split; [|split]].
    - intros z E. rewrite E in R1. inversion R1; reflexivity.
    - intros E. rewrite E in R1. destruct (o_min_lags o) as [m|]; [|discriminate]. exists m. split; [reflexivity|]. inversion R1; reflexivity.
    - intros z E. rewrite E in R2. inversion R2; reflexivity.
    - intros E. rewrite E in R2. destruct (o_min_leads o) as [m|]; [|discriminate]. exists m. split; [reflexivity|]. inversion R2; reflexivity.
  Qed.

  (* the class is built for every accepted program whenever each length has an explicit value or a minimum *)
  Theorem class_of_total syms o : program_symbols p = Ret syms ->
    (o_lags o <> None \/ o_min_lags o <> None) -> (o_leads o <> None \/ o_min_leads o <> None) ->
    exists c, class_of syms o = Ret c.
  Proof.
    intros A H1 H2. destruct (accepted_table syms A) as (d & -> & HD & K).
    destruct (computed_lengths p d HD) as [L1 L2]. unfold class_of.
    rewrite filter_app, filter_indexed_verbatim, app_nil_r. unfold resolve_length. rewrite L1, L2.
    destruct (o_lags o) as [z1|]; [|destruct (o_min_lags o) as [m1|]; [|destruct H1; congruence]];
      (destruct (o_leads o) as [z2|]; [|destruct (o_min_leads o) as [m2|]; [|destruct H2; congruence]]); eauto.
  Qed.

  (* ---------- rejections ---------- *)
  Theorem rejection_classes x : program_symbols p = Raise x ->
    (x = ParserError /\ existsb stmt_rejected p = true) \/
    (x = SymbolError /\ exists a b, In a (amentions p) /\ In b (amentions p) /\ aname a = aname b /\ clash (atype a) (atype b)) \/
    (x = ParserError /\ exists a b, In a (amentions p) /\ In b (amentions p) /\ aname a = aname b /\ two_texts a b).
  Proof.
    intros A. pose proof (program_spec p W) as S. rewrite A in S. destruct S as [S|[S|S]]; auto.
  Qed.

  Theorem conflict_rejected a b : In a (amentions p) -> In b (amentions p) -> aname a = aname b -> clash (atype a) (atype b) ->
    exists x, program_symbols p = Raise x /\ (x = SymbolError \/ x = ParserError).
  Proof.
    intros Ia Ib N C. destruct (program_symbols p) as [syms|x] eqn:A.
    - exfalso. destruct (accepted_table syms A) as (d & _ & HD & _). apply (accepted_no_clash p d HD a b Ia Ib N C).
    - exists x. split; [reflexivity|]. destruct (rejection_classes x A) as [(-> & _)|[(-> & _)|(-> & _)]]; auto.
  Qed.

  (* in particular a name called as a function and also used as a variable, parameter or error — in one equation, in
     either order, or in different equations (b45daa1) *)
  Theorem function_clash_rejected a b : In a (amentions p) -> In b (amentions p) -> aname a = aname b ->
    atype a = TFunction -> atype b <> TFunction ->
    exists x, program_symbols p = Raise x /\ (x = SymbolError \/ x = ParserError).
  Proof.
    intros Ia Ib N Ta Tb. apply (conflict_rejected a b Ia Ib N). unfold clash. rewrite Ta. split; [congruence|reflexivity].
  Qed.

  Theorem double_definition_rejected a b : In a (amentions p) -> In b (amentions p) -> aname a = aname b -> two_texts a b ->
    exists x, program_symbols p = Raise x /\ (x = SymbolError \/ x = ParserError).
  Proof.
    intros Ia Ib N C. destruct (program_symbols p) as [syms|x] eqn:A.
    - exfalso. destruct (accepted_table syms A) as (d & _ & HD & _). apply (accepted_one_text p d HD a b Ia Ib N C).
    - exists x. split; [reflexivity|]. destruct (rejection_classes x A) as [(-> & _)|[(-> & _)|(-> & _)]]; auto.
  Qed.
End Program.

(* ====================================================================================================== *)
(* the default solution range *)
Lemma default_range_ok n lags leads : (0 <= lags)%Z -> (0 <= leads)%Z -> (lags + leads + 1 <= Z.of_nat n)%Z ->
  default_range n lags leads =
  Ret (map (fun i => (lags + Z.of_nat i)%Z) (seq 0 (Z.to_nat (Z.of_nat n - leads - lags)))).
Proof.
  intros H1 H2 H3. unfold default_range.
  destruct (Nat.eqb n 0) eqn:En; [apply Nat.eqb_eq in En; lia|].
  replace (Z.of_nat n <=? lags)%Z with false by (symmetry; apply Z.leb_gt; lia).
  replace (Z.of_nat n - 1 - leads <? 0)%Z with false by (symmetry; apply Z.ltb_ge; lia).
  cbv zeta. f_equal. f_equal. f_equal. unfold clip.
  replace (Z.of_nat n - leads <? 0)%Z with false by (symmetry; apply Z.ltb_ge; lia).
  replace (Z.of_nat n <? Z.of_nat n - leads)%Z with false by (symmetry; apply Z.ltb_ge; lia).
  replace (lags <? 0)%Z with false by (symmetry; apply Z.ltb_ge; lia).
  replace (Z.of_nat n <? lags)%Z with false by (symmetry; apply Z.ltb_ge; lia).
  apply Nat.min_id.
Qed.

Lemma nodup_map_inj {A B} (f : A -> B) l : (forall x y, f x = f y -> x = y) -> NoDup l -> NoDup (map f l).
Proof.
  intros Inj. induction 1 as [|a l N1 N2 IH]; cbn; constructor; [|exact IH].
  intros I. apply in_map_iff in I as (y & E & I). apply Inj in E. subst. contradiction.
Qed.

Theorem default_range_periods n lags leads l : (0 <= lags)%Z -> (0 <= leads)%Z -> (lags + leads + 1 <= Z.of_nat n)%Z ->
  default_range n lags leads = Ret l ->
  NoDup l /\ forall t, In t l <-> (0 <= t - lags /\ t + leads <= Z.of_nat n - 1)%Z.
Proof.
  intros H1 H2 H3 E. rewrite (default_range_ok n lags leads H1 H2 H3) in E. inversion E; subst l. split.
  - apply nodup_map_inj; [intros i j Hij; lia|apply seq_NoDup].
  - intros t. rewrite in_map_iff. split.
    + intros (i & <- & I). apply in_seq in I. lia.
    + intros [A B]. exists (Z.to_nat (t - lags)). split; [lia|]. apply in_seq. lia.
Qed.

(* … which, for the lengths of the script, is the set of periods at which every written offset stays inside the span *)
Theorem default_range_feasible p n l : (script_lags p + script_leads p + 1 <= Z.of_nat n)%Z ->
  default_range n (script_lags p) (script_leads p) = Ret l ->
  forall t, In t l <-> (0 <= t < Z.of_nat n /\ forall k, In k (offsets (mentions p)) -> 0 <= t + k < Z.of_nat n)%Z.
Proof.
  intros H E t. assert (L0 : (0 <= script_lags p)%Z) by (unfold script_lags; pose proof (min0_le_0 (offsets (mentions p))); lia).
  assert (D0 : (0 <= script_leads p)%Z) by apply max0_ge_0.
  destruct (default_range_periods n _ _ l L0 D0 H E) as [_ P]. rewrite P. unfold script_lags, script_leads in *. split.
  - intros [A B]. split; [lia|]. intros k Ik. pose proof (min0_le_in _ _ Ik). pose proof (max0_ge_in _ _ Ik). lia.
  - intros [A B]. split.
    + assert (X : (- t <= min0 (offsets (mentions p)))%Z) by (apply min0_ge; [lia|]; intros k Ik; specialize (B k Ik); lia). lia.
    + assert (X : (max0 (offsets (mentions p)) <= Z.of_nat n - 1 - t)%Z) by (apply max0_le; [lia|]; intros k Ik; specialize (B k Ik); lia). lia.
Qed.

(* shorter spans: nothing is solved — SolutionError on an empty span, IndexError or an empty range otherwise *)
Theorem default_range_short n lags leads : (0 <= lags)%Z -> (0 <= leads)%Z -> (Z.of_nat n < lags + leads + 1)%Z ->
  default_range n lags leads =
  if Nat.eqb n 0 then Raise (SolutionError None)
  else if (Z.of_nat n <=? lags)%Z || (Z.of_nat n <=? leads)%Z then Raise IndexError else Ret [].
Proof.
  intros H1 H2 H3. unfold default_range. destruct (Nat.eqb n 0) eqn:En; [reflexivity|]. apply Nat.eqb_neq in En.
  destruct (Z.of_nat n <=? lags)%Z eqn:E1; [reflexivity|]. apply Z.leb_gt in E1. cbn [orb].
  destruct (Z.of_nat n <=? leads)%Z eqn:E2.
  - apply Z.leb_le in E2. replace (Z.of_nat n - 1 - leads <? 0)%Z with true by (symmetry; apply Z.ltb_lt; lia). reflexivity.
  - apply Z.leb_gt in E2. replace (Z.of_nat n - 1 - leads <? 0)%Z with false by (symmetry; apply Z.ltb_ge; lia).
    cbv zeta. replace (Z.to_nat (Z.of_nat n - leads - lags)) with 0%nat by lia. reflexivity.
Qed.

