(* BuildDef.v — build_model_definition as text (fsic/parser.py:1046-1105), property C15.  Definitions only;
   total; executable.

   * repr of the name lists (`str.format` of a list = `str(list)` = `repr` of each element): `py_repr_str` is
     CPython's unicode_repr restricted to Latin-1 (quote choice, backslash escapes, \xNN for non-printable code
     points; printable Latin-1 = 32..126 and 161..255 without 173 — validated against str.isprintable by the
     correspondence check), `None` for a missing name.
   * `format_named` : `template.format of keyword fields` on the fragment a class template can contain: literal text,
     `{{`, `}}`, `{identifier}`.  A lone `}` / an unterminated field / `{` inside a field → ValueError, an unknown
     field → KeyError, an empty or numeric field → IndexError (there are no positional arguments); any other
     field syntax (attribute, index, conversion, format spec) → PUnmodelled.
   * `indent` : textwrap.indent(text, prefix) — prefix before every line of `text.splitlines(True)` that is not
     whitespace only.
   * the converter is a *stateful* oracle `conv : St -> symbol -> St * string` (a Python callable may count its
     calls): `expressions` threads the state through the symbols in list order, calling `conv` exactly for the
     symbols that `emits` (ENDOGENOUS / VERBATIM with equation and code).
   * `build_def` : lags / leads first (a failure there happens before any converter call), then the
     expressions, the "\n\n" join, the `pass` fallback and the template fill. *)
From Coq Require Import String Ascii List Bool Arith ZArith.
Import ListNotations.
Require Import PyBase Generated PyStr Symbols ParseEq ParseModel Classify.
Open Scope string_scope.
Open Scope nat_scope.

(* ---------- repr ---------- *)
Definition is_printable (c : ascii) : bool :=
  let n := nat_of_ascii c in ((32 <=? n) && (n <=? 126)) || ((161 <=? n) && negb (n =? 173)).
Definition hex_digit (n : nat) : ascii := nth n (list_ascii_of_string "0123456789abcdef") "0"%char.
Definition bs : ascii := ascii_of_nat 92.
Definition sq : ascii := ascii_of_nat 39.
Definition dq : ascii := ascii_of_nat 34.
Definition tab : ascii := ascii_of_nat 9.
Definition repr_char (q c : ascii) : string :=
  if Ascii.eqb c q || Ascii.eqb c bs then String bs (String c "")
  else if Ascii.eqb c tab then String bs "t"
  else if Ascii.eqb c nl then String bs "n"
  else if Ascii.eqb c cr then String bs "r"
  else if is_printable c then String c ""
  else String bs (String "x" (String (hex_digit (nat_of_ascii c / 16)) (String (hex_digit (nat_of_ascii c mod 16)) ""))).
Fixpoint repr_body (q : ascii) (s : string) : string :=
  match s with "" => "" | String c r => repr_char q c ++ repr_body q r end.
Definition py_repr_str (s : string) : string :=
  let q := if has_char sq s && negb (has_char dq s) then dq else sq in
  String q (repr_body q s ++ String q "").
Definition py_repr_name (n : option string) : string :=
  match n with Some s => py_repr_str s | None => "None" end.

Fixpoint join_sep (sep : string) (l : list string) : string :=
  match l with
  | [] => ""
  | [x] => x
  | x :: r => x ++ sep ++ join_sep sep r
  end.
Definition py_repr_names (l : list (option string)) : string := "[" ++ join_sep ", " (map py_repr_name l) ++ "]".

(* ---------- template.format of keyword fields ---------- *)
Fixpoint assoc_str (k : string) (l : list (string * string)) : option string :=
  match l with
  | [] => None
  | (k', v) :: r => if String.eqb k k' then Some v else assoc_str k r
  end.
Definition all_digits (s : string) : bool :=
  match s with "" => true | _ => (fix go (s : string) := match s with "" => true | String c r => is_digit c && go r end) s end.
Definition papp (a : string) (r : pres string) : pres string :=
  match r with POk b => POk (a ++ b) | PErr e => PErr e | PUnmodelled => PUnmodelled end.

(* field = None: literal text; Some acc: inside `{…`, acc = the field name read so far, reversed *)
Fixpoint format_named_go (env : list (string * string)) (s : string) (field : option string) : pres string :=
  match field with
  | None =>
    match s with
    | "" => POk ""
    | String c r =>
      if Ascii.eqb c "{" then
        match r with
        | String c2 r2 => if Ascii.eqb c2 "{" then papp "{" (format_named_go env r2 None) else format_named_go env r (Some "")
        | "" => PErr ValueError                                  (* Single '{' encountered in format string *)
        end
      else if Ascii.eqb c "}" then
        match r with
        | String c2 r2 => if Ascii.eqb c2 "}" then papp "}" (format_named_go env r2 None) else PErr ValueError
        | "" => PErr ValueError                                  (* Single '}' encountered in format string *)
        end
      else papp (String c "") (format_named_go env r None)
    end
  | Some acc =>
    match s with
    | "" => PErr ValueError                                      (* expected '}' before end of string *)
    | String c r =>
      if Ascii.eqb c "}" then
        let name := rev_str acc "" in
        if all_digits name then PErr IndexError                  (* positional field, no positional arguments *)
        else match assoc_str name env with
             | Some v => papp v (format_named_go env r None)
             | None => PErr KeyError
             end
      else if Ascii.eqb c "{" then PErr ValueError               (* unexpected '{' in field name *)
      else if is_idc c then format_named_go env r (Some (String c acc))
      else PUnmodelled
    end
  end.
Definition format_named (tpl : string) (env : list (string * string)) : pres string := format_named_go env tpl None.

(* ---------- textwrap.indent ---------- *)
(* str.splitlines(keepends=True); cur = current line, reversed *)
Fixpoint lines_keepends (cur : string) (s : string) : list string :=
  match s with
  | "" => match cur with "" => [] | _ => [rev_str cur ""] end
  | String c r =>
    if is_linesep c then
      if Ascii.eqb c cr then
        match r with
        | String c2 r2 => if Ascii.eqb c2 nl then rev_str (String c2 (String c cur)) "" :: lines_keepends "" r2
                          else rev_str (String c cur) "" :: lines_keepends "" r
        | "" => rev_str (String c cur) "" :: lines_keepends "" r
        end
      else rev_str (String c cur) "" :: lines_keepends "" r
    else lines_keepends (String c cur) r
  end.
Definition indent_line (prefix line : string) : string := if is_blank line then line else prefix ++ line.
Definition indent (prefix text : string) : string := String.concat "" (map (indent_line prefix) (lines_keepends "" text)).
Definition eq_prefix : string := "        ".

(* ---------- default_converter ---------- *)
Definition opt_str (o : option string) : string := match o with Some s => s | None => "" end.
(* '{}\n{}'.format('\n'.join('# ' + x for x in symbol.equation.splitlines()), symbol.code); only ever called on
   symbols with equation and code (see `expressions`) *)
Definition default_converter (s : symbol) : string :=
  join_nl (map (fun x => "# " ++ x) (splitlines_aux "" (opt_str (sequation s)))) ++ nl_s ++ opt_str (scode s).

(* ---------- the generator ---------- *)
Section Converter.
  Variable St : Type.
  Variable conv : St -> symbol -> St * string.

  (* expressions = [converter(s) for s in symbols if s.type in (ENDOGENOUS, VERBATIM) and s.equation is not None
     and s.code is not None] — evaluated left to right *)
  Fixpoint expressions (st : St) (syms : list symbol) : St * list string :=
    match syms with
    | [] => (st, [])
    | s :: r =>
      if emits s then
        let '(st1, e) := conv st s in
        let '(st2, es) := expressions st1 r in (st2, e :: es)
      else expressions st r
    end.

  Definition equations_block (exprs : list string) : string :=
    let eqs := join_sep (nl_s ++ nl_s) (map (indent eq_prefix) exprs) in
    match eqs with "" => "        pass" | _ => eqs end.

  Definition class_fields (c : mclass) (equations : string) : list (string * string) :=
    [("endogenous", py_repr_names (c_endogenous c)); ("exogenous", py_repr_names (c_exogenous c));
     ("parameters", py_repr_names (c_parameters c)); ("errors", py_repr_names (c_errors c));
     ("lags", string_of_Z (c_lags c)); ("leads", string_of_Z (c_leads c)); ("equations", equations)].

  Definition template_of_hints (with_type_hints : bool) : string :=
    if with_type_hints then model_template_typed else model_template_untyped.

  Definition build_def (st : St) (syms : list symbol) (o : bopts) (with_type_hints : bool) : St * pres string :=
    match class_of syms o with
    | Raise e => (st, PErr e)
    | Ret c =>
      let '(st', exprs) := expressions st syms in
      (st', format_named (template_of_hints with_type_hints) (class_fields c (equations_block exprs)))
    end.
End Converter.

(* ---------- converters used by the correspondence check (the same four are written in Python there) ---------- *)
Definition stateless (f : symbol -> string) : unit -> symbol -> unit * string := fun st s => (st, f s).
Definition conv_default : unit -> symbol -> unit * string := stateless default_converter.
(* identity on the code *)
Definition conv_code : unit -> symbol -> unit * string := stateless (fun s => opt_str (scode s)).
(* a wrapping converter: a guard line, the default text indented under it *)
Definition conv_wrap : unit -> symbol -> unit * string :=
  stateless (fun s => "if True:" ++ nl_s ++ indent "    " (default_converter s)).
(* a converter that numbers its calls *)
Definition conv_count : nat -> symbol -> nat * string :=
  fun n s => (S n, "# call " ++ string_of_Z (Z.of_nat n) ++ nl_s ++ opt_str (scode s)).
(* a converter whose output does not compile (guard class of the build_model fallback finding) *)
Definition conv_broken : unit -> symbol -> unit * string := stateless (fun _ => "x = (").
(* a converter whose output contains the template's own field tokens (they must stay as they are) *)
Definition conv_fields : unit -> symbol -> unit * string :=
  stateless (fun s => opt_str (scode s) ++ "  # {endogenous} {exogenous} {parameters} {errors} {lags} {leads} {equations} {{x}}").
(* a converter that returns nothing *)
Definition conv_empty : unit -> symbol -> unit * string := stateless (fun _ => "").

(* ---------- the two templates differ by their type hints only ---------- *)
(* str.replace(from, to) for a non-empty `from`; fuel = length of the text *)
Fixpoint replace_all_go (fuel : nat) (from to s : string) : string :=
  match fuel with
  | O => s
  | S f =>
    match s with
    | "" => ""
    | String c r =>
      match prefix_rest from s with
      | Some rest => to ++ replace_all_go f from to rest
      | None => String c (replace_all_go f from to r)
      end
    end
  end.
Definition replace_all (from to s : string) : string := replace_all_go (String.length s) from to s.
Definition replace_many (l : list (string * string)) (s : string) : string :=
  fold_left (fun acc ft => replace_all (fst ft) (snd ft) acc) l s.
(* annotations of a `def` line, and of a class-attribute line *)
Definition def_hints : list (string * string) :=
  [(": str = ", "="); (": bool = ", "="); (": Optional[int] = ", "="); (": int", ""); (": Any", ""); (" -> None", "")].
Definition attr_hints : list (string * string) := [(": List[str] = ", " = "); (": int = ", " = ")].
Definition erase_line (line : string) : string :=
  if startswith "def " (lstrip_by (fun c => Ascii.eqb c " ") line) then replace_many def_hints line
  else replace_many attr_hints line.
Fixpoint split_nl (cur : string) (s : string) : list string :=       (* text.split('\n'); cur reversed *)
  match s with
  | "" => [rev_str cur ""]
  | String c r => if Ascii.eqb c nl then rev_str cur "" :: split_nl "" r else split_nl (String c cur) r
  end.
Definition erase_hints (tpl : string) : string := join_nl (map erase_line (split_nl "" tpl)).

(* ---------- build_model: exec of the text, CODE, and the SyntaxError fallback ---------- *)
Inductive exec_res (Cls : Type) : Type := ExecOk (c : Cls) | ExecSyntaxError | ExecOther (e : exn).
Arguments ExecOk {Cls} c.
Arguments ExecSyntaxError {Cls}.
Arguments ExecOther {Cls} e.
Inductive build_res (Cls : Type) : Type :=
| Built (c : Cls) (code : string)          (* the class and its CODE attribute *)
| BuildError (listed : bool)               (* BuildError chained from the SyntaxError; listed = some single-symbol definition
                                              failed too and is named in the message (false: none reproduces it, 56579cc) *)
| BuildRaise (e : exn)
| BuildUnmodelled.
Arguments Built {Cls} c code.
Arguments BuildError {Cls} listed.
Arguments BuildRaise {Cls} e.
Arguments BuildUnmodelled {Cls}.

Section BuildModel.
  Variable St Cls : Type.
  Variable conv : St -> symbol -> St * string.
  Variable exec : string -> exec_res Cls.          (* CPython's exec of a class text in a namespace with BaseModel *)

  (* the fallback loop: for s in symbols_with_equations: exec(build_model_definition([s])) with the DEFAULT options,
     converter and template; a SyntaxError is recorded, anything else propagates *)
  Fixpoint retry_each (syms : list symbol) (failed : bool) : bool + exn :=
    match syms with
    | [] => inl failed
    | s :: r =>
      match sequation s with
      | None => retry_each r failed
      | Some _ =>
        match snd (build_def unit conv_default tt [s] default_opts true) with
        | POk text =>
          match exec text with
          | ExecOk _ => retry_each r failed
          | ExecSyntaxError => retry_each r true
          | ExecOther e => inr e
          end
        | PErr e => inr e
        | PUnmodelled => inr OtherError
        end
      end
    end.

  Definition build_model_M (st : St) (syms : list symbol) (o : bopts) (with_type_hints : bool) : St * build_res Cls :=
    match build_def St conv st syms o with_type_hints with
    | (st', PErr e) => (st', BuildRaise e)
    | (st', PUnmodelled) => (st', BuildUnmodelled)
    | (st', POk text) =>
      match exec text with
      | ExecOk c => (st', Built c text)
      | ExecOther e => (st', BuildRaise e)
      | ExecSyntaxError =>
        match retry_each syms false with
        | inr e => (st', BuildRaise e)
        | inl listed => (st', BuildError listed)          (* in both sub-cases: no class is returned (56579cc) *)
        end
      end
    end.
End BuildModel.
