(* ClassifyOrder.v — which exception surfaces (the first error in processing order), the per-symbol lags / leads, and the
   refutation witness of "only DIFFERENT equations are rejected" (property C03). *)
From Coq Require Import String Ascii List Bool ZArith Lia.
Import ListNotations.
Require Import PyBase Generated PyStr Symbols SymbolsFacts Merge MergeFacts ParseEq ParseModel Classify ClassifyFacts ClassifyProgram ClassifyClass ClassifyMain ClassifyExamples.
Open Scope string_scope.

(* ---------- the first error in processing order ---------- *)
(* statements are parsed one after the other: the first statement that fails decides, whatever comes later *)
Theorem first_failing_statement p1 st p2 ls1 x :
  program_by_equation p1 = Ret ls1 -> stmt_symbols st = Raise x -> program_symbols (p1 ++ st :: p2) = Raise x.
Proof.
  intros H1 H2. unfold program_symbols.
  assert (E : program_by_equation (p1 ++ st :: p2) = Raise x).
  { revert ls1 H1. induction p1 as [|s0 p1 IH]; intros ls1 H1; cbn [app program_by_equation].
    - rewrite H2. reflexivity.
    - cbn [program_by_equation] in H1. destruct (stmt_symbols s0); [|discriminate].
      destruct (program_by_equation p1) as [l|] eqn:E1; [|discriminate]. rewrite (IH l eq_refl). reflexivity. }
  rewrite E. reflexivity.
Qed.

(* the merge as a run over the chained symbols: state = (table, verbatim blocks so far) *)
Fixpoint merge_run (syms : list symbol) (d : list (string * symbol)) (vb : list symbol) : outcome (list (string * symbol) * list symbol) :=
  match syms with
  | [] => Ret (d, vb)
  | s :: rest =>
    match sname s with
    | None => merge_run rest d (s :: vb)
    | Some n => match dict_combine n s d with Ret d' => merge_run rest d' vb | Raise e => Raise e end
    end
  end.
Lemma merge_go_run syms : forall d vb,
  merge_go syms d vb = match merge_run syms d vb with Ret (d', vb') => Ret (dict_values d' ++ rev vb')%list | Raise e => Raise e end.
Proof.
  induction syms as [|s rest IH]; intros d vb; cbn [merge_go merge_run]; [reflexivity|].
  destruct (sname s); [destruct (dict_combine s0 s d); [apply IH|reflexivity]|apply IH].
Qed.
Lemma merge_run_app l1 l2 : forall d vb,
  merge_run (l1 ++ l2) d vb = match merge_run l1 d vb with Ret (d', vb') => merge_run l2 d' vb' | Raise e => Raise e end.
Proof.
  induction l1 as [|s l1 IH]; intros d vb; cbn [app merge_run]; [reflexivity|].
  destruct (sname s); [destruct (dict_combine s0 s d); [apply IH|reflexivity]|apply IH].
Qed.

(* every statement parses: the merge goes through the symbols in script order; the first symbol whose combination with the
   table built so far fails decides, whatever clashes come later *)
Theorem first_failing_symbol p ls l1 s l2 d1 vb1 n x :
  program_by_equation p = Ret ls -> concat ls = (l1 ++ s :: l2)%list ->
  merge_run l1 [] [] = Ret (d1, vb1) -> sname s = Some n -> dict_combine n s d1 = Raise x ->
  program_symbols p = Raise x.
Proof.
  intros H E R N C. unfold program_symbols. rewrite H. unfold merge_symbols. rewrite merge_go_run, E, merge_run_app, R.
  cbn [merge_run]. rewrite N, C. reflexivity.
Qed.

(* the two orders of the reviewer's example: Y = a ; Z = {a} ; Y = b  ->  SymbolError,   Y = b ; Y = a ; Z = {a}  ->  ParserError *)
Example first_error_examples :
  program_symbols [SEq [tv "Y" 0] [tv "a" 0] "Y[t] = a[t]" "c1"; SEq [tv "Z" 0] [tp "a" 0] "Z[t] = a[t]" "c2"; SEq [tv "Y" 0] [tv "b" 0] "Y[t] = b[t]" "c3"]
    = Raise SymbolError /\
  program_symbols [SEq [tv "Y" 0] [tv "b" 0] "Y[t] = b[t]" "c3"; SEq [tv "Y" 0] [tv "a" 0] "Y[t] = a[t]" "c1"; SEq [tv "Z" 0] [tp "a" 0] "Z[t] = a[t]" "c2"]
    = Raise ParserError /\
  parse_model_nocheck ("Y = a" ++ nl_s ++ "Z = {a}" ++ nl_s ++ "Y = b") = PErr SymbolError /\
  parse_model_nocheck ("Y = b" ++ nl_s ++ "Y = a" ++ nl_s ++ "Z = {a}") = PErr ParserError /\
  (* a malformed statement comes before every merge error *)
  parse_model_nocheck ("Y = a" ++ nl_s ++ "Z = {a}" ++ nl_s ++ "if = 1") = PErr ParserError.
Proof. repeat split; vm_compute; reflexivity. Qed.

(* ---------- per-symbol lags / leads ---------- *)
Theorem symbol_lengths p syms v x : wf_program p = true -> program_symbols p = Ret syms ->
  In v syms -> sname v = Some x -> unindexed_type (stype v) = false ->
  exists z z', slags v = Some (IInt z) /\ sleads v = Some (IInt z') /\ (z <= 0)%Z /\ (0 <= z')%Z /\
    (forall a, In a (amentions p) -> aname a = x -> (z <= aoff a <= z')%Z) /\
    (z = 0%Z \/ exists a, In a (amentions p) /\ aname a = x /\ aoff a = z) /\
    (z' = 0%Z \/ exists a, In a (amentions p) /\ aname a = x /\ aoff a = z').
Proof.
  intros W A Iv Hv U. destruct (accepted_table p W syms A) as (d & -> & HD & _).
  apply in_app_or in Iv as [Iv|Iv].
  - unfold dict_values in Iv. apply in_map_iff in Iv as ([k w] & E & I). cbn in E. subst w.
    destruct (DInv_entries d _ k v HD I) as [Hk _]. rewrite Hv in Hk. inversion Hk; subst k.
    apply (sym_lags p d HD x v); [apply in_dict_get; [apply HD|exact I]|exact U].
  - exfalso. clear - Iv Hv. induction p as [|[l r e c|e c] p IH]; cbn in Iv; [contradiction|auto|].
    destruct Iv as [<-|Iv]; [discriminate|auto].
Qed.
(* e.g. a variable seen first with a lead, later with a lag and with a string index: lags -2, leads 3 *)
Example symbol_lengths_example :
  match program_symbols [SEq [tv "Y" 0] [tv "X" 3; ts "X" "'2000'"] "e1" "c1"; SEq [tv "Z" 0] [tv "X" (-2); tv "X" 1] "e2" "c2"] with
  | Ret syms => map (fun s => (sname s, slags s, sleads s)) syms =
                [(Some "Y", Some (IInt 0), Some (IInt 0)); (Some "X", Some (IInt (-2)), Some (IInt 3)); (Some "Z", Some (IInt 0), Some (IInt 0))]
  | Raise _ => False
  end.
Proof. vm_compute. reflexivity. Qed.

(* ---------- "defined by two DIFFERENT equations": refuted (reviewer-B) ---------- *)
(* the same equation — same terms on both sides — written twice with different spacing is rejected as defined twice: the
   normalised texts `Y[t] = X[t]` and `Y[t]=X[t]` differ (only runs of blanks are collapsed) *)
Theorem same_equation_different_spacing_refuted :
  exists l r e1 c1 e2 c2, program_symbols [SEq l r e1 c1; SEq l r e2 c2] = Raise ParserError /\
                          parse_model_nocheck ("Y = X" ++ nl_s ++ "Y=X") = PErr ParserError /\
                          exists syms, parse_model_nocheck ("Y = X" ++ nl_s ++ "Y  =  X") = POk syms.
Proof.
  exists [tv "Y" 0], [tv "X" 0], "Y[t] = X[t]", "self._Y[t] = self._X[t]", "Y[t]=X[t]", "self._Y[t]=self._X[t]".
  split; [vm_compute; reflexivity|]. split; [vm_compute; reflexivity|]. eexists. vm_compute. reflexivity.
Qed.

(* ---------- the default range for ANY integers (negative explicit lengths included) ---------- *)
Lemma clip_range n i : (0 <= n)%Z -> (0 <= clip n i <= n)%Z.
Proof.
  intros H. unfold clip. destruct (i <? 0)%Z eqn:E1.
  - destruct (i + n <? 0)%Z eqn:E2; [lia|]. apply Z.ltb_lt in E1. apply Z.ltb_ge in E2. lia.
  - destruct (n <? i)%Z eqn:E2; [lia|]. apply Z.ltb_ge in E1. apply Z.ltb_ge in E2. lia.
Qed.

Theorem default_range_bounds n lags leads l : default_range n lags leads = Ret l ->
  (forall t, In t l -> (lags <= t <= Z.of_nat n - 1 - leads)%Z) /\ (length l <= n)%nat /\ NoDup l.
Proof.
  unfold default_range. destruct (Nat.eqb n 0); [discriminate|]. destruct (Z.of_nat n <=? lags)%Z eqn:E1; [discriminate|].
  destruct (Z.of_nat n - 1 - leads <? 0)%Z eqn:E2; [discriminate|]. cbv zeta. intros H; inversion H; subst l; clear H.
  apply Z.leb_gt in E1. apply Z.ltb_ge in E2.
  set (k := Nat.min _ _).
  assert (K1 : (k <= Z.to_nat (Z.of_nat n - leads - lags))%nat) by (unfold k; apply Nat.le_min_l).
  assert (K2 : (k <= n)%nat).
  { unfold k. etransitivity; [apply Nat.le_min_r|].
    pose proof (clip_range (Z.of_nat n) (Z.of_nat n - leads) ltac:(lia)). pose proof (clip_range (Z.of_nat n) lags ltac:(lia)). lia. }
  split; [|split].
  - intros t I. apply in_map_iff in I as (i & <- & Ii). apply in_seq in Ii. lia.
  - rewrite map_length, seq_length. exact K2.
  - apply nodup_map_inj; [intros i j Hij; lia|apply seq_NoDup].
Qed.

(* ---------- "endogenous iff some equation assigns it": a second assignment target is not seen (kept finding) ---------- *)
(* only the text left of the FIRST `=` is the left-hand side: in  Y = Z = X[-1]  and  Y = X[-1] ; X = 3  the names Z / X are
   written by the generated code (`self._Y[t] = self._Z[t] = self._X[t-1]`) but classified EXOGENOUS *)
Theorem chained_assignment_refuted :
  match parse_model_nocheck "Y = Z = X[-1]" with
  | POk syms => map (fun s => (sname s, stype s, scode s)) syms =
                [(Some "Y", TEndogenous, Some "self._Y[t] = self._Z[t] = self._X[t-1]"); (Some "Z", TExogenous, None); (Some "X", TExogenous, None)]
  | _ => False
  end /\
  match parse_model_nocheck "Y = X[-1] ; X = 3" with
  | POk syms => map (fun s => (sname s, stype s, scode s)) syms =
                [(Some "Y", TEndogenous, Some "self._Y[t] = self._X[t-1] ; self._X[t] = 3"); (Some "X", TExogenous, None)]
  | _ => False
  end.
Proof. split; vm_compute; reflexivity. Qed.
