(* BuildDefFacts.v — proofs about the class text generator (property C15). *)
From Coq Require Import String Ascii List Bool Arith ZArith Lia.
Import ListNotations.
Require Import PyBase Generated PyStr Symbols ParseEq ParseModel Classify BuildDef.
Open Scope string_scope.
Open Scope nat_scope.

Lemma sapp_assoc (a b c : string) : (a ++ b) ++ c = a ++ (b ++ c).
Proof. induction a as [|x a IH]; cbn; [reflexivity|rewrite IH; reflexivity]. Qed.
Lemma sapp_nil_r (a : string) : a ++ "" = a.
Proof. induction a as [|x a IH]; cbn; [reflexivity|rewrite IH; reflexivity]. Qed.

(* ---------- the two templates agree modulo type hints (re-checked on the regenerated strings) ---------- *)
Theorem templates_agree_modulo_hints : erase_hints model_template_typed = model_template_untyped.
Proof. vm_compute. reflexivity. Qed.
(* erasing is not vacuous (the templates differ) and leaves the hint-free template alone *)
Theorem templates_differ : model_template_typed <> model_template_untyped.
Proof. intros H. assert (E : String.length model_template_typed = String.length model_template_untyped) by (rewrite H; reflexivity). vm_compute in E. discriminate. Qed.
Theorem erase_hints_untyped : erase_hints model_template_untyped = model_template_untyped.
Proof. vm_compute. reflexivity. Qed.

(* ---------- str.format on literal text and on one named field ---------- *)
Definition no_brace (s : string) : bool := negb (has_char "{" s) && negb (has_char "}" s).

Lemma papp_papp a b r : papp a (papp b r) = papp (a ++ b) r.
Proof. destruct r; cbn; [rewrite sapp_assoc|..]; reflexivity. Qed.
Lemma papp_nil r : papp "" r = r.
Proof. destruct r; reflexivity. Qed.

Lemma fmt_lit env lit rest : no_brace lit = true ->
  format_named_go env (lit ++ rest) None = papp lit (format_named_go env rest None).
Proof.
  induction lit as [|c lit IH]; intros H; [rewrite papp_nil; reflexivity|].
  unfold no_brace in H. cbn [has_char] in H. rewrite !negb_orb in H.
  apply andb_true_iff in H as [H1 H2]. apply andb_true_iff in H1 as [H1a H1b]. apply andb_true_iff in H2 as [H2a H2b].
  apply negb_true_iff in H1a, H2a.
  assert (IH' := IH ltac:(unfold no_brace; rewrite H1b, H2b; reflexivity)).
  change ((String c lit) ++ rest) with (String c (lit ++ rest)). cbn [format_named_go].
  rewrite H1a, H2a, IH'. rewrite papp_papp. reflexivity.
Qed.

Definition ident_name (s : string) : bool :=
  (fix go (s : string) := match s with "" => true | String c r => is_idc c && go r end) s.

Lemma rev_str_app s acc : rev_str s acc = rev_str s "" ++ acc.
Proof.
  revert acc. induction s as [|c s IH]; intros acc; cbn [rev_str]; [reflexivity|].
  rewrite (IH (String c acc)), (IH (String c "")), sapp_assoc. reflexivity.
Qed.

Lemma fmt_field_go env name : forall acc rest v,
  ident_name name = true -> all_digits (rev_str acc "" ++ name) = false ->
  assoc_str (rev_str acc "" ++ name) env = Some v ->
  format_named_go env (name ++ "}" ++ rest) (Some acc) = papp v (format_named_go env rest None).
Proof.
  induction name as [|c name IH]; intros acc rest v Hi Hd Ha.
  - rewrite sapp_nil_r in Hd, Ha. cbn. rewrite Hd, Ha. reflexivity.
  - cbn [ident_name] in Hi. apply andb_true_iff in Hi as [Hc Hi].
    change ((String c name) ++ "}" ++ rest) with (String c (name ++ "}" ++ rest)). cbn [format_named_go].
    assert (N1 : Ascii.eqb c "}" = false) by (destruct (Ascii.eqb c "}") eqn:E; [apply Ascii.eqb_eq in E; subst; discriminate|reflexivity]).
    assert (N2 : Ascii.eqb c "{" = false) by (destruct (Ascii.eqb c "{") eqn:E; [apply Ascii.eqb_eq in E; subst; discriminate|reflexivity]).
    rewrite N1, N2, Hc. apply IH; [exact Hi| |].
    + cbn [rev_str]. rewrite rev_str_app, sapp_assoc. exact Hd.
    + cbn [rev_str]. rewrite rev_str_app, sapp_assoc. exact Ha.
Qed.

Lemma fmt_open env c r : Ascii.eqb c "{" = false ->
  format_named_go env (String "{" (String c r)) None = format_named_go env (String c r) (Some "").
Proof. intros N. cbn [format_named_go]. rewrite (Ascii.eqb_refl "{"), N. reflexivity. Qed.

Lemma fmt_field env name rest v : ident_name name = true -> all_digits name = false -> assoc_str name env = Some v ->
  format_named_go env ("{" ++ name ++ "}" ++ rest) None = papp v (format_named_go env rest None).
Proof.
  intros Hi Hd Ha. destruct name as [|c name]; [discriminate|].
  assert (Hc : is_idc c = true) by (cbn [ident_name] in Hi; apply andb_true_iff in Hi; apply Hi).
  assert (N2 : Ascii.eqb c "{" = false) by (destruct (Ascii.eqb c "{") eqn:E; [apply Ascii.eqb_eq in E; subst; discriminate|reflexivity]).
  change ("{" ++ String c name ++ "}" ++ rest) with (String "{" (String c (name ++ "}" ++ rest))).
  rewrite (fmt_open env c _ N2).
  exact (fmt_field_go env (String c name) "" rest v Hi Hd Ha).
Qed.

Lemma fmt_field_lit env name rest v lit : lit = "{" ++ name ++ "}" ->
  ident_name name = true -> all_digits name = false -> assoc_str name env = Some v ->
  format_named_go env (lit ++ rest) None = papp v (format_named_go env rest None).
Proof.
  intros -> Hi Hd Ha. rewrite <- (fmt_field env name rest v Hi Hd Ha). f_equal.
  change ("{" ++ name ++ "}") with (String "{" (name ++ "}")). cbn [append]. f_equal. apply sapp_assoc.
Qed.

(* ---------- the templates as literal segments around the seven fields ---------- *)
(* segments of a template: the text between the fields, and the field names, computed *)
Fixpoint tpl_split (s : string) (cur : string) (field : option string) : list string * list string :=
  match field with
  | None =>
    match s with
    | "" => ([rev_str cur ""], [])
    | String c r => if Ascii.eqb c "{" then let '(segs, names) := tpl_split r "" (Some "") in (rev_str cur "" :: segs, names)
                    else tpl_split r (String c cur) None
    end
  | Some acc =>
    match s with
    | "" => ([], [rev_str acc ""])
    | String c r => if Ascii.eqb c "}" then let '(segs, names) := tpl_split r "" None in (segs, rev_str acc "" :: names)
                    else tpl_split r cur (Some (String c acc))
    end
  end.
Definition segments (h : bool) : list string := fst (tpl_split (template_of_hints h) "" None).
Definition seg (h : bool) (i : nat) : string := nth i (segments h) "".
Definition field_names : list string := ["endogenous"; "exogenous"; "parameters"; "errors"; "lags"; "leads"; "equations"].

Theorem template_fields h :
  snd (tpl_split (template_of_hints h) "" None) = field_names /\ length (segments h) = 8 /\
  forallb no_brace (segments h) = true /\
  template_of_hints h = seg h 0 ++ "{endogenous}" ++ seg h 1 ++ "{exogenous}" ++ seg h 2 ++ "{parameters}" ++ seg h 3 ++ "{errors}" ++
                        seg h 4 ++ "{lags}" ++ seg h 5 ++ "{leads}" ++ seg h 6 ++ "{equations}" ++ seg h 7.
Proof. destruct h; vm_compute; repeat split; reflexivity. Qed.

(* the hint-free parts: the attribute names the fields are assigned to are the same in both templates *)
Theorem attribute_lines_agree : map erase_hints (segments true) = segments false.
Proof. vm_compute. reflexivity. Qed.

Definition fill (h : bool) (c : mclass) (equations : string) : string :=
  seg h 0 ++ py_repr_names (c_endogenous c) ++ seg h 1 ++ py_repr_names (c_exogenous c) ++ seg h 2 ++
  py_repr_names (c_parameters c) ++ seg h 3 ++ py_repr_names (c_errors c) ++ seg h 4 ++ string_of_Z (c_lags c) ++
  seg h 5 ++ string_of_Z (c_leads c) ++ seg h 6 ++ equations ++ seg h 7.

Lemma seg_no_brace h i : i < 8 -> no_brace (seg h i) = true.
Proof.
  intros H. destruct (template_fields h) as (_ & L & F & _). rewrite forallb_forall in F. apply F. unfold seg. apply nth_In. lia.
Qed.

(* filling never fails, whatever the field values are: they are inserted verbatim between the literal segments *)
Theorem fill_spec h c equations :
  format_named (template_of_hints h) (class_fields c equations) = POk (fill h c equations).
Proof.
  unfold format_named. destruct (template_fields h) as (_ & _ & _ & E). rewrite E. unfold fill. set (env := class_fields c equations).
  rewrite fmt_lit by (apply seg_no_brace; lia).
  rewrite (fmt_field_lit env "endogenous" _ _ "{endogenous}" eq_refl eq_refl eq_refl eq_refl), fmt_lit by (apply seg_no_brace; lia).
  rewrite (fmt_field_lit env "exogenous" _ _ "{exogenous}" eq_refl eq_refl eq_refl eq_refl), fmt_lit by (apply seg_no_brace; lia).
  rewrite (fmt_field_lit env "parameters" _ _ "{parameters}" eq_refl eq_refl eq_refl eq_refl), fmt_lit by (apply seg_no_brace; lia).
  rewrite (fmt_field_lit env "errors" _ _ "{errors}" eq_refl eq_refl eq_refl eq_refl), fmt_lit by (apply seg_no_brace; lia).
  rewrite (fmt_field_lit env "lags" _ _ "{lags}" eq_refl eq_refl eq_refl eq_refl), fmt_lit by (apply seg_no_brace; lia).
  rewrite (fmt_field_lit env "leads" _ _ "{leads}" eq_refl eq_refl eq_refl eq_refl), fmt_lit by (apply seg_no_brace; lia).
  rewrite (fmt_field_lit env "equations" _ _ "{equations}" eq_refl eq_refl eq_refl eq_refl).
  rewrite <- (sapp_nil_r (seg h 7)) at 1. rewrite fmt_lit by (apply seg_no_brace; lia). cbn [format_named_go].
  rewrite !papp_papp. cbn [papp]. rewrite sapp_nil_r, ?sapp_assoc. reflexivity.
Qed.

(* ---------- the converter: called for the emitting symbols only, once each, in symbol order ---------- *)
Section Conv.
  Variable St : Type.
  Variable conv : St -> symbol -> St * string.

  (* plain state threading over a list *)
  Fixpoint run (st : St) (l : list symbol) : St * list string :=
    match l with
    | [] => (st, [])
    | s :: r => let '(st1, e) := conv st s in let '(st2, es) := run st1 r in (st2, e :: es)
    end.

  Theorem expressions_run st syms : expressions St conv st syms = run st (filter emits syms).
  Proof.
    revert st. induction syms as [|s r IH]; intros st; cbn [expressions filter]; [reflexivity|].
    destruct (emits s); [|apply IH]. cbn [run]. destruct (conv st s) as [st1 e]. rewrite IH. reflexivity.
  Qed.

  (* a logging wrapper: the log of calls is exactly the emitting symbols, in order, once each; outputs and final state are the converter's *)
  Definition logged : list symbol * St -> symbol -> (list symbol * St) * string :=
    fun ls s => let '(st', e) := conv (snd ls) s in ((fst ls ++ [s])%list, st', e).

  Theorem call_log log st syms :
    expressions (list symbol * St) logged (log, st) syms =
    ((log ++ filter emits syms)%list, fst (expressions St conv st syms), snd (expressions St conv st syms)).
  Proof.
    revert log st. induction syms as [|s r IH]; intros log st; cbn [expressions filter].
    - rewrite app_nil_r. reflexivity.
    - destruct (emits s); [|apply IH]. unfold logged at 1. cbn [fst snd]. destruct (conv st s) as [st1 e].
      rewrite IH. destruct (expressions St conv st1 r) as [st2 es]. cbn [fst snd]. rewrite <- app_assoc. reflexivity.
  Qed.

  (* symbols without an equation (or of another type) contribute no code and no converter call *)
  Theorem no_equation_no_code st syms : expressions St conv st (filter emits syms) = expressions St conv st syms.
  Proof.
    rewrite !expressions_run. f_equal. induction syms as [|s r IH]; cbn [filter]; [reflexivity|].
    destruct (emits s) eqn:E; cbn [filter]; [rewrite E, IH; reflexivity|exact IH].
  Qed.
  Theorem nothing_emits st syms : forallb (fun s => negb (emits s)) syms = true -> expressions St conv st syms = (st, []).
  Proof.
    revert st. induction syms as [|s r IH]; intros st H; cbn [expressions]; [reflexivity|].
    cbn [forallb] in H. apply andb_true_iff in H as [H1 H2]. apply negb_true_iff in H1. rewrite H1. apply IH, H2.
  Qed.

  (* ---------- build_model_definition ---------- *)
  Theorem build_def_spec st syms o h :
    build_def St conv st syms o h =
    match class_of syms o with
    | Raise e => (st, PErr e)                       (* lags / leads fail before any converter call *)
    | Ret c => let '(st', exprs) := run st (filter emits syms) in (st', POk (fill h c (equations_block exprs)))
    end.
  Proof.
    unfold build_def. destruct (class_of syms o) as [c|e]; [|reflexivity].
    rewrite expressions_run. destruct (run st (filter emits syms)) as [st' exprs]. rewrite fill_spec. reflexivity.
  Qed.

  (* the two templates receive the same fields and leave the converter in the same state *)
  Theorem hints_only_change_template st syms o :
    fst (build_def St conv st syms o true) = fst (build_def St conv st syms o false) /\
    match snd (build_def St conv st syms o true), snd (build_def St conv st syms o false) with
    | POk t1, POk t2 => exists c eqs, class_of syms o = Ret c /\ t1 = fill true c eqs /\ t2 = fill false c eqs
    | PErr e1, PErr e2 => e1 = e2 /\ class_of syms o = Raise e1
    | _, _ => False
    end.
  Proof.
    rewrite !build_def_spec. destruct (class_of syms o) as [c|e]; cbn [fst snd]; [|auto].
    destruct (run st (filter emits syms)) as [st' exprs]. cbn [fst snd]. split; [reflexivity|]. exists c, (equations_block exprs). auto.
  Qed.
End Conv.

(* the variable lists and lengths written into the text do not depend on the converter *)
Theorem fields_independent_of_converter St1 St2 (conv1 : St1 -> symbol -> St1 * string) (conv2 : St2 -> symbol -> St2 * string)
        st1 st2 syms o h1 h2 t1 t2 :
  snd (build_def St1 conv1 st1 syms o h1) = POk t1 -> snd (build_def St2 conv2 st2 syms o h2) = POk t2 ->
  exists c e1 e2, class_of syms o = Ret c /\ t1 = fill h1 c e1 /\ t2 = fill h2 c e2.
Proof.
  rewrite !build_def_spec. destruct (class_of syms o) as [c|e]; [|discriminate].
  destruct (run St1 conv1 st1 (filter emits syms)) as [s1 x1]. destruct (run St2 conv2 st2 (filter emits syms)) as [s2 x2].
  cbn [snd]. intros H1 H2. inversion H1; inversion H2. exists c, (equations_block x1), (equations_block x2). auto.
Qed.

(* a stateless converter: the block is the join of the indented outputs over the emitting symbols, in order *)
Theorem stateless_block (f : symbol -> string) syms :
  expressions unit (stateless f) tt syms = (tt, map f (filter emits syms)).
Proof.
  rewrite expressions_run. induction (filter emits syms) as [|s r IH]; cbn [run map]; [reflexivity|].
  unfold stateless at 1. rewrite IH. reflexivity.
Qed.

(* the empty symbol list: every list empty, LAGS = LEADS = 0, the body is `pass`; no converter call *)
Theorem empty_symbols St (conv : St -> symbol -> St * string) st h :
  build_def St conv st [] default_opts h =
  (st, POk (seg h 0 ++ "[]" ++ seg h 1 ++ "[]" ++ seg h 2 ++ "[]" ++ seg h 3 ++ "[]" ++ seg h 4 ++ "0" ++ seg h 5 ++ "0" ++
            seg h 6 ++ "        pass" ++ seg h 7)).
Proof. rewrite build_def_spec. reflexivity. Qed.

(* no emitting symbol: the body is `pass`, the converter is never called *)
Theorem no_equations_pass St (conv : St -> symbol -> St * string) st syms o h c :
  forallb (fun s => negb (emits s)) syms = true -> class_of syms o = Ret c ->
  build_def St conv st syms o h = (st, POk (fill h c "        pass")).
Proof.
  intros H C. unfold build_def. rewrite C, (nothing_emits St conv st syms H), fill_spec. reflexivity.
Qed.

(* ---------- textwrap.indent ---------- *)
Lemma rev_str_cons c cur : rev_str (String c cur) "" = rev_str cur "" ++ String c "".
Proof. cbn [rev_str]. apply rev_str_app. Qed.
Lemma sconcat_cons a l : String.concat "" (a :: l) = a ++ String.concat "" l.
Proof. destruct l; cbn; [rewrite sapp_nil_r|]; reflexivity. Qed.

Lemma concat_lines_keepends_n n : forall s cur, String.length s <= n ->
  String.concat "" (lines_keepends cur s) = rev_str cur "" ++ s.
Proof.
  induction n as [|n IH]; intros s cur L.
  - destruct s; [|cbn in L; lia]. cbn [lines_keepends]. destruct cur; [reflexivity|]. cbn [String.concat]. rewrite sapp_nil_r. reflexivity.
  - destruct s as [|c r].
    + cbn [lines_keepends]. destruct cur; [reflexivity|]. cbn [String.concat]. rewrite sapp_nil_r. reflexivity.
    + cbn [String.length] in L. cbn [lines_keepends]. destruct (is_linesep c).
      * destruct (Ascii.eqb c cr).
        -- destruct r as [|c2 r2].
           ++ rewrite sconcat_cons. cbn [lines_keepends String.concat]. rewrite sapp_nil_r, rev_str_cons. reflexivity.
           ++ cbn [String.length] in L. destruct (Ascii.eqb c2 nl).
              ** rewrite sconcat_cons, (IH r2 "") by lia. rewrite !rev_str_cons, !sapp_assoc. reflexivity.
              ** rewrite sconcat_cons, (IH (String c2 r2) "") by (cbn [String.length]; lia). rewrite rev_str_cons, !sapp_assoc. reflexivity.
        -- rewrite sconcat_cons, (IH r "") by lia. rewrite rev_str_cons, !sapp_assoc. reflexivity.
      * rewrite (IH r (String c cur)) by lia. rewrite rev_str_cons, sapp_assoc. reflexivity.
Qed.
Lemma concat_lines_keepends s cur : String.concat "" (lines_keepends cur s) = rev_str cur "" ++ s.
Proof. apply (concat_lines_keepends_n (String.length s)). lia. Qed.
(* splitting loses nothing: with an empty prefix the text is inserted unchanged *)
Theorem indent_empty_prefix text : indent "" text = text.
Proof.
  unfold indent. replace (map (indent_line "") (lines_keepends "" text)) with (lines_keepends "" text).
  - apply (concat_lines_keepends text "").
  - symmetry. erewrite map_ext; [apply map_id|]. intros l. unfold indent_line. destruct (is_blank l); reflexivity.
Qed.

(* ---------- build_model: exec of the text, CODE, BuildError (fix 56579cc) ---------- *)
Section Exec.
  Variable St Cls : Type.
  Variable conv : St -> symbol -> St * string.
  Variable exec : string -> exec_res Cls.

  (* when the text executes, build_model returns exactly exec(text) and CODE = the text of build_model_definition *)
  Theorem build_model_is_exec_of_text st syms o h st' text c :
    build_def St conv st syms o h = (st', POk text) -> exec text = ExecOk c ->
    build_model_M St Cls conv exec st syms o h = (st', Built c text).
  Proof. intros B E. unfold build_model_M. rewrite B, E. reflexivity. Qed.

  (* build_model returns a class iff the generated text executes; the class is exec(text), CODE is the text *)
  Theorem build_model_returns_iff_text_executes st syms o h st' c code :
    build_model_M St Cls conv exec st syms o h = (st', Built c code) <->
    (build_def St conv st syms o h = (st', POk code) /\ exec code = ExecOk c).
  Proof.
    split.
    - unfold build_model_M. destruct (build_def St conv st syms o h) as [s1 [text|e|]]; try (intros H; discriminate).
      destruct (exec text) as [c0| |e] eqn:E; [intros H; inversion H; subst; auto| |intros H; discriminate].
      destruct (retry_each Cls exec syms false); intros H; discriminate.
    - intros [B E]. apply build_model_is_exec_of_text; assumption.
  Qed.

  (* a text that does not compile never yields a class: BuildError chained from the SyntaxError — whether or not some
     single symbol reproduces the error — unless the retry loop itself lets another exception through *)
  Theorem build_model_syntax_error st syms o h st' text :
    build_def St conv st syms o h = (st', POk text) -> exec text = ExecSyntaxError ->
    match retry_each Cls exec syms false with
    | inl listed => build_model_M St Cls conv exec st syms o h = (st', BuildError listed)
    | inr e => build_model_M St Cls conv exec st syms o h = (st', BuildRaise e)
    end.
  Proof. intros B E. unfold build_model_M. rewrite B, E. destruct (retry_each Cls exec syms false); reflexivity. Qed.

  (* the retry loop reports `listed` exactly when some symbol with an equation, alone and with the default converter and
     template, fails to compile (given that nothing else is raised) *)
  Lemma retry_each_listed syms : forall failed b, retry_each Cls exec syms failed = inl b ->
    b = failed || existsb (fun s => match sequation s with
                                    | None => false
                                    | Some _ => match snd (build_def unit conv_default tt [s] default_opts true) with
                                                | POk text => match exec text with ExecSyntaxError => true | _ => false end
                                                | _ => false
                                                end
                                    end) syms.
  Proof.
    induction syms as [|s r IH]; intros failed b H; cbn [retry_each existsb] in *.
    - inversion H. rewrite orb_false_r. reflexivity.
    - destruct (sequation s); [|rewrite (IH _ _ H); reflexivity].
      destruct (snd (build_def unit conv_default tt [s] default_opts true)) as [text|e|]; try discriminate.
      destruct (exec text); try discriminate; rewrite (IH _ _ H); cbn; [reflexivity|].
      rewrite orb_true_r. destruct failed; reflexivity.
  Qed.

  (* every outcome of build_model, by what exec says about the text *)
  Theorem build_model_outcomes st syms o h :
    match build_def St conv st syms o h with
    | (st', POk text) =>
      match exec text with
      | ExecOk c => build_model_M St Cls conv exec st syms o h = (st', Built c text)
      | ExecOther e => build_model_M St Cls conv exec st syms o h = (st', BuildRaise e)
      | ExecSyntaxError => (exists listed, build_model_M St Cls conv exec st syms o h = (st', BuildError listed)) \/
                           (exists e, build_model_M St Cls conv exec st syms o h = (st', BuildRaise e))
      end
    | (st', PErr e) => build_model_M St Cls conv exec st syms o h = (st', BuildRaise e)
    | (st', PUnmodelled) => build_model_M St Cls conv exec st syms o h = (st', BuildUnmodelled)
    end.
  Proof.
    unfold build_model_M. destruct (build_def St conv st syms o h) as [s1 [text|e|]]; try reflexivity.
    destruct (exec text); try reflexivity. destruct (retry_each Cls exec syms false); [left|right]; eauto.
  Qed.

  (* a returned class carries the text of build_model_definition (same arguments) as CODE *)
  Theorem code_is_text st syms o h st' c code :
    build_model_M St Cls conv exec st syms o h = (st', Built c code) -> snd (build_def St conv st syms o h) = POk code.
  Proof. intros H. apply build_model_returns_iff_text_executes in H as [B _]. rewrite B. reflexivity. Qed.
End Exec.
