(* BuildRepr.v — reading back what the generator writes (property C15): a reader for the str literals and the
   list-of-names literals that `repr` produces (the fragment of Python's literal syntax they use: quotes ' or ",
   escapes \\ \' \" \t \n \r \xNN).  Definitions only.  BuildReprFacts proves that reading a written list gives the
   list back, so the ENDOGENOUS / EXOGENOUS / PARAMETERS / ERRORS literals in the class text denote exactly the name
   lists of Classify.class_of. *)
From Coq Require Import String Ascii List Bool Arith.
Import ListNotations.
Require Import PyStr BuildDef.
Open Scope string_scope.
Open Scope nat_scope.

Definition unhex_digit (c : ascii) : option nat :=
  let n := nat_of_ascii c in
  if (48 <=? n) && (n <=? 57) then Some (n - 48)
  else if (97 <=? n) && (n <=? 102) then Some (n - 87)
  else None.

Definition ocons (c : ascii) (r : option (string * string)) : option (string * string) :=
  match r with Some (s, rest) => Some (String c s, rest) | None => None end.

(* the body of a literal quoted by q, up to and including the closing quote: (value, rest of the input) *)
Fixpoint read_body (q : ascii) (s : string) : option (string * string) :=
  match s with
  | "" => None
  | String c r =>
    if Ascii.eqb c q then Some ("", r)
    else if Ascii.eqb c bs then
      match r with
      | String d r2 =>
        if Ascii.eqb d bs || Ascii.eqb d sq || Ascii.eqb d dq then ocons d (read_body q r2)
        else if Ascii.eqb d "t" then ocons tab (read_body q r2)
        else if Ascii.eqb d "n" then ocons nl (read_body q r2)
        else if Ascii.eqb d "r" then ocons cr (read_body q r2)
        else if Ascii.eqb d "x" then
          match r2 with
          | String h1 (String h2 r3) =>
            match unhex_digit h1, unhex_digit h2 with
            | Some a, Some b => ocons (ascii_of_nat (16 * a + b)) (read_body q r3)
            | _, _ => None
            end
          | _ => None
          end
        else None
      | "" => None
      end
    else ocons c (read_body q r)
  end.
Definition read_str (s : string) : option (string * string) :=
  match s with
  | String q r => if Ascii.eqb q sq || Ascii.eqb q dq then read_body q r else None
  | "" => None
  end.

(* one element of a list of names: None or a str literal *)
Definition read_item (s : string) : option (option string * string) :=
  match prefix_rest "None" s with
  | Some r => Some (None, r)
  | None => match read_str s with Some (x, r) => Some (Some x, r) | None => None end
  end.

(* the elements after the opening bracket, up to and including the closing one *)
Fixpoint read_items (fuel : nat) (s : string) : option (list (option string) * string) :=
  match fuel with
  | O => None
  | S f =>
    match s with
    | String c r =>
      if Ascii.eqb c "]" then Some ([], r)
      else match read_item s with
           | Some (x, r1) =>
             match prefix_rest ", " r1 with
             | Some r2 => match read_items f r2 with Some (l, rest) => Some (x :: l, rest) | None => None end
             | None => match r1 with
                       | String c2 r3 => if Ascii.eqb c2 "]" then Some ([x], r3) else None
                       | "" => None
                       end
             end
           | None => None
           end
    | "" => None
    end
  end.
Definition read_names (s : string) : option (list (option string) * string) :=
  match s with
  | String c r => if Ascii.eqb c "[" then read_items (String.length s) r else None
  | "" => None
  end.
