(* ClassifyProgram.v — the symbol table of a whole program summarises the mentions of the script (property C03).
   From ClassifyFacts (combine maps summaries to summaries) to:
     stmt_spec     the per-equation loop of parse_equation (every non-verbatim term, FUNCTION terms included, is combined)
     program_spec  program_symbols p = Ret syms  ->  syms = values of a table d ++ verbatim blocks, d summarises the
                   mentions of p name by name, keys in order of first appearance; failures come with witnesses. *)
From Coq Require Import String Ascii List Bool ZArith Lia.
Import ListNotations.
Require Import PyBase Generated Symbols SymbolsFacts Merge MergeFacts ParseEq Classify ClassifyFacts.
Open Scope string_scope.

(* ---------- annotated mentions ---------- *)
Definition annotate (e c : string) (ts : list term) : list aterm := map (fun t => mkA t e c) (filter symbol_term ts).
Definition stmt_all_terms (st : stmt) : list term :=
  match st with
  | SEq l r _ _ => (map (replace_type TEndogenous) l ++ map (replace_type TExogenous) r)%list
  | SVerb _ _ => []
  end.
Definition stmt_amentions (st : stmt) : list aterm :=
  match st with
  | SEq l r e c => annotate e c (stmt_all_terms st)
  | SVerb _ _ => []
  end.
Definition amentions (p : list stmt) : list aterm := concat (map stmt_amentions p).
Definition Gof (l : list aterm) : string -> aterm -> Prop := fun k a => In a l /\ aname a = k.

Lemma annotate_terms e c ts : map a_term (annotate e c ts) = filter symbol_term ts.
Proof. unfold annotate. rewrite map_map. cbn. apply map_id. Qed.
Lemma annotate_app e c l1 l2 : annotate e c (l1 ++ l2) = (annotate e c l1 ++ annotate e c l2)%list.
Proof. unfold annotate. rewrite filter_app, map_app. reflexivity. Qed.
Lemma stmt_amentions_terms st : map a_term (stmt_amentions st) = stmt_mentions st.
Proof. destruct st as [l r e c|e c]; cbn; [apply annotate_terms|reflexivity]. Qed.
Lemma amentions_terms p : map a_term (amentions p) = mentions p.
Proof.
  unfold amentions, mentions. induction p as [|st p IH]; cbn; [reflexivity|].
  rewrite map_app, IH, stmt_amentions_terms. reflexivity.
Qed.

Lemma wf_term_b_eq t : wf_term_b t = wf_term t.
Proof. unfold wf_term_b, wf_term. destruct (ttype t), (tindex t); reflexivity. Qed.

(* ---------- one term as a summary of itself ---------- *)
Definition sym_of_term (e c : string) (t : term) : symbol :=
  mkSymbol (Some (tname t)) (ttype t) (tindex t) (tindex t)
           (match ttype t with TEndogenous => Some e | _ => None end)
           (match ttype t with TEndogenous => Some c | _ => None end).

Lemma sym_of_term_wf e c t : wf_term t = true -> ttype t <> TVerbatim -> wf_symbol (sym_of_term e c t) = true.
Proof. intros. unfold sym_of_term. apply term_symbol_wf; assumption. Qed.

Lemma sym_of_term_pre e c t : wf_term t = true -> ttype t <> TVerbatim ->
  Pre (sym_of_term e c t) (fun a => a = mkA t e c).
Proof.
  intros W NV. unfold Pre. split; [apply sym_of_term_wf; assumption|]. split; [|split; [|split; [|split]]].
  - intros a ->. apply tcompat_refl.
  - exists (mkA t e c). split; reflexivity.
  - cbn [sym_of_term stype slags sleads]. intros U.
    unfold wf_term in W. destruct (tindex t) as [i|] eqn:Ei.
    + exists i, i. split; [reflexivity|]. split; [reflexivity|]. split.
      * destruct i as [z|s]; cbn [lag_pre].
        -- split.
           ++ intros a ->. unfold aoff, term_offset. cbn [a_term]. rewrite Ei. lia.
           ++ destruct (Z.le_gt_cases z 0) as [L|L].
              ** right. exists (mkA t e c). split; [reflexivity|]. unfold aoff, term_offset. cbn [a_term]. rewrite Ei. lia.
              ** left. lia.
        -- intros a ->. unfold aoff, term_offset. cbn [a_term]. rewrite Ei. reflexivity.
      * destruct i as [z|s]; cbn [lead_pre].
        -- split.
           ++ intros a ->. unfold aoff, term_offset. cbn [a_term]. rewrite Ei. lia.
           ++ destruct (Z.le_gt_cases 0 z) as [L|L].
              ** right. exists (mkA t e c). split; [reflexivity|]. unfold aoff, term_offset. cbn [a_term]. rewrite Ei. lia.
              ** left. lia.
        -- intros a ->. unfold aoff, term_offset. cbn [a_term]. rewrite Ei. reflexivity.
    + exfalso. destruct (ttype t); cbn in W, U; congruence.
  - intros a -> T. unfold atype in T. cbn [a_term] in T. cbn [sym_of_term sequation scode a_eq a_code]. rewrite T. split; reflexivity.
  - cbn [sym_of_term sequation scode]. destruct (ttype t) eqn:Ety; try (left; split; reflexivity).
    right. exists (mkA t e c). split; [reflexivity|]. split; [exact Ety|]. split; reflexivity.
Qed.

(* every non-verbatim term of the loop is one dict_combine (b45daa1: FUNCTION terms included) *)
Lemma eqgo_other e c t rest d fs : ttype t <> TVerbatim ->
  equation_symbols_go e c (t :: rest) d fs =
  match dict_combine (tname t) (sym_of_term e c t) d with
  | Ret d' => equation_symbols_go e c rest d' fs
  | Raise x => Raise x
  end.
Proof.
  intros NV. cbn [equation_symbols_go]. unfold sym_of_term. destruct (ttype t); try congruence; reflexivity.
Qed.

Lemma eqgo_verbatim e c t rest d fs : ttype t = TVerbatim ->
  equation_symbols_go e c (t :: rest) d fs = equation_symbols_go e c rest d fs.
Proof. intros E. cbn [equation_symbols_go]. rewrite E. reflexivity. Qed.

Lemma Gof_app l1 l2 k a : Gof (l1 ++ l2) k a <-> Gof l1 k a \/ Gof l2 k a.
Proof. unfold Gof. rewrite in_app_iff. tauto. Qed.
Lemma Gof_single b k a : Gof [b] k a <-> (k = aname b /\ a = b).
Proof. unfold Gof. cbn. split; [intros [[->|[]] <-]; auto|intros [-> ->]; auto]. Qed.

(* ---------- the per-equation loop ---------- *)
Definition in_conflict (L : list aterm) (x : exn) : Prop :=
  (x = SymbolError /\ exists a b, In a L /\ In b L /\ aname a = aname b /\ clash (atype a) (atype b)) \/
  (x = ParserError /\ exists a b, In a L /\ In b L /\ aname a = aname b /\ two_texts a b).

Lemma in_conflict_mono L L' x : (forall a, In a L -> In a L') -> in_conflict L x -> in_conflict L' x.
Proof.
  intros H [(-> & a & b & Ia & Ib & R)|(-> & a & b & Ia & Ib & R)]; [left|right]; (split; [reflexivity|]); exists a, b; auto.
Qed.

Lemma eqgo_spec e c ts : forall (pre : list aterm) d fs,
  DInv d (Gof pre) ->
  forallb wf_term ts = true ->
  match equation_symbols_go e c ts d fs with
  | Ret d' => DInv d' (Gof (pre ++ annotate e c ts)) /\
              dict_keys d' = fold_left add_new (map aname (annotate e c ts)) (dict_keys d)
  | Raise x => in_conflict (pre ++ annotate e c ts) x
  end.
Proof.
  induction ts as [|t rest IH]; intros pre d fs HD W.
  - cbn. rewrite app_nil_r. split; [exact HD|reflexivity].
  - cbn [forallb] in W. apply andb_true_iff in W as [Wt Wr].
    destruct (type_eqb (ttype t) TVerbatim) eqn:Ev.
    + (* verbatim term: skipped *)
      apply type_eqb_eq in Ev. rewrite (eqgo_verbatim e c t rest d fs Ev).
      assert (A : annotate e c (t :: rest) = annotate e c rest).
      { assert (ST : symbol_term t = false) by (unfold symbol_term; rewrite Ev; reflexivity).
        unfold annotate. cbn [filter]. rewrite ST. reflexivity. }
      rewrite A. apply IH; assumption.
    + assert (NV : ttype t <> TVerbatim).
      { intros E. apply type_eqb_eq in E. congruence. }
      assert (ST : symbol_term t = true) by (unfold symbol_term; rewrite Ev; reflexivity).
      assert (A : annotate e c (t :: rest) = mkA t e c :: annotate e c rest).
      { unfold annotate. cbn [filter]. rewrite ST. reflexivity. }
      rewrite A, (eqgo_other e c t rest d fs NV).
      pose proof (dict_combine_step (tname t) (sym_of_term e c t) (fun a => a = mkA t e c) d (Gof pre) HD eq_refl
                    (sym_of_term_pre e c t Wt NV)) as St.
      destruct (dict_combine (tname t) (sym_of_term e c t) d) as [d1|x].
      * destruct St as [HD1 K1].
        assert (HD1' : DInv d1 (Gof (pre ++ [mkA t e c]))).
        { eapply DInv_ext; [|exact HD1]. intros k a. rewrite Gof_app, Gof_single. cbn. tauto. }
        specialize (IH (pre ++ [mkA t e c])%list d1 fs HD1' Wr).
        rewrite <- app_assoc in IH. cbn [app] in IH.
        destruct (equation_symbols_go e c rest d1 fs) as [d'|x].
        -- destruct IH as [R1 R2]. split; [exact R1|]. cbn [map fold_left]. rewrite R2, K1. reflexivity.
        -- exact IH.
      * (* the combine failed *)
        destruct St as [(-> & a & b & Ga & -> & Cl)|(-> & a & b & Ga & -> & Tt)]; [left|right]; (split; [reflexivity|]);
          exists a, (mkA t e c); destruct Ga as [Ia Na].
        -- split; [apply in_or_app; left; exact Ia|]. split; [apply in_or_app; right; left; reflexivity|]. split; [exact Na|exact Cl].
        -- split; [apply in_or_app; left; exact Ia|]. split; [apply in_or_app; right; left; reflexivity|]. split; [exact Na|exact Tt].
Qed.

(* ---------- one statement ---------- *)
Definition stmt_verbatim (st : stmt) : list symbol :=
  match st with SVerb e c => [verbatim_symbol e c] | SEq _ _ _ _ => [] end.
Definition stmt_rejected (st : stmt) : bool :=
  match st with
  | SEq l r _ _ => match stmt_terms l r with Raise _ => true | Ret _ => false end
  | SVerb _ _ => false
  end.

Lemma verbatim_blocks_concat p : verbatim_blocks p = concat (map stmt_verbatim p).
Proof. induction p as [|[l r e c|e c] p IH]; cbn; [reflexivity|exact IH|rewrite IH; reflexivity]. Qed.

Lemma replace_type_wf ty t : unindexed_type ty = false -> ty <> TVerbatim -> wf_term t = true -> wf_term (replace_type ty t) = true.
Proof.
  intros U NV W. unfold replace_type. destruct (ttype t) eqn:E; try exact W.
  unfold wf_term in *. cbn [ttype tindex]. rewrite E in W. cbn in W.
  destruct ty; try congruence; cbn in U |- *; try discriminate; exact W.
Qed.
Lemma forallb_map_replace ty l : unindexed_type ty = false -> ty <> TVerbatim ->
  forallb wf_term_b l = true -> forallb wf_term (map (replace_type ty) l) = true.
Proof.
  intros U NV. induction l as [|t l IH]; cbn; [reflexivity|]. intros H. apply andb_true_iff in H as [H1 H2].
  rewrite wf_term_b_eq in H1. rewrite (replace_type_wf ty t U NV H1), (IH H2). reflexivity.
Qed.

Lemma stmt_terms_ret l r ts : stmt_terms l r = Ret ts ->
  ts = (map (replace_type TEndogenous) l ++ map (replace_type TExogenous) r)%list.
Proof.
  unfold stmt_terms. destruct (has_type TKeyword _ || has_type TInvalid _); [discriminate|].
  destruct (negb _); [discriminate|]. intros H; inversion H; reflexivity.
Qed.
Lemma stmt_terms_raise l r x : stmt_terms l r = Raise x -> x = ParserError.
Proof.
  unfold stmt_terms. destruct (has_type TKeyword _ || has_type TInvalid _); [intros H; inversion H; reflexivity|].
  destruct (negb _); [intros H; inversion H; reflexivity|discriminate].
Qed.

Lemma DInv_Gof_nil : DInv [] (Gof []).
Proof. eapply DInv_ext; [|exact DInv_nil]. intros k a. unfold Gof. cbn. tauto. Qed.

Lemma stmt_spec st : wf_stmt st = true ->
  match stmt_symbols st with
  | Ret l => exists d, l = (dict_values d ++ stmt_verbatim st)%list /\ DInv d (Gof (stmt_amentions st)) /\
                       dict_keys d = dedup (map aname (stmt_amentions st))
  | Raise x => (x = ParserError /\ stmt_rejected st = true) \/ in_conflict (stmt_amentions st) x
  end.
Proof.
  destruct st as [l r e c|e c]; intros W.
  - cbn [stmt_symbols stmt_rejected]. destruct (stmt_terms l r) as [ts|x] eqn:Et.
    + apply stmt_terms_ret in Et. subst ts.
      cbn [wf_stmt] in W. apply andb_true_iff in W as [Wl Wr].
      assert (Wt : forallb wf_term (map (replace_type TEndogenous) l ++ map (replace_type TExogenous) r) = true).
      { rewrite forallb_app. rewrite (forallb_map_replace TEndogenous l), (forallb_map_replace TExogenous r); auto; discriminate. }
      pose proof (eqgo_spec e c (map (replace_type TEndogenous) l ++ map (replace_type TExogenous) r) [] [] []
                            DInv_Gof_nil Wt) as S. cbn [map app] in S.
      unfold equation_symbols. cbn [stmt_amentions stmt_all_terms].
      destruct (equation_symbols_go e c _ [] []) as [d|x].
      * destruct S as [S1 S2]. exists d. cbn [stmt_verbatim]. rewrite app_nil_r. split; [reflexivity|]. split; [exact S1|exact S2].
      * right. exact S.
    + left. split; [eapply stmt_terms_raise; eauto|reflexivity].
  - cbn. exists []. split; [reflexivity|]. split; [exact DInv_Gof_nil|reflexivity].
Qed.

(* ---------- the cross-equation merge as a feed ---------- *)
Definition named_items (syms : list symbol) : list (string * symbol) :=
  flat_map (fun s => match sname s with Some n => [(n, s)] | None => [] end) syms.
Definition unnamed (s : symbol) : bool := is_none (sname s).

Lemma merge_go_feed syms : forall d vb,
  merge_go syms d vb = match feed (named_items syms) d with
                       | Ret d' => Ret (dict_values d' ++ rev vb ++ filter unnamed syms)%list
                       | Raise x => Raise x
                       end.
Proof.
  induction syms as [|s syms IH]; intros d vb; cbn [merge_go named_items flat_map feed filter].
  - rewrite app_nil_r. reflexivity.
  - unfold unnamed at 1. destruct (sname s) as [n|] eqn:En; cbn [is_none app feed].
    + destruct (dict_combine n s d) as [d1|x]; [|reflexivity]. apply IH.
    + rewrite IH. fold (named_items syms). destruct (feed (named_items syms) d); [|reflexivity].
      cbn [rev]. rewrite <- !app_assoc. reflexivity.
Qed.

Lemma named_items_app l1 l2 : named_items (l1 ++ l2) = (named_items l1 ++ named_items l2)%list.
Proof. unfold named_items. apply flat_map_app. Qed.
Lemma named_items_dict (d : list (string * symbol)) :
  (forall k v, In (k, v) d -> sname v = Some k) -> named_items (dict_values d) = d.
Proof.
  induction d as [|[k v] d IH]; intros H; cbn; [reflexivity|].
  rewrite (H k v (or_introl eq_refl)). cbn. f_equal. apply IH. intros k' v' I. apply H. right; exact I.
Qed.
Lemma filter_unnamed_dict (d : list (string * symbol)) :
  (forall k v, In (k, v) d -> sname v = Some k) -> filter unnamed (dict_values d) = [].
Proof.
  induction d as [|[k v] d IH]; intros H; cbn; [reflexivity|].
  unfold unnamed at 1. rewrite (H k v (or_introl eq_refl)). cbn. apply IH. intros k' v' I. apply H. right; exact I.
Qed.

(* the entries of a table as ghost items *)
Definition gitems_of (d : list (string * symbol)) (G : string -> aterm -> Prop) : list (string * symbol * (aterm -> Prop)) :=
  map (fun kv => (fst kv, snd kv, G (fst kv))) d.
Lemma gitems_of_fst d G : map fst (gitems_of d G) = d.
Proof. unfold gitems_of. rewrite map_map. cbn. induction d as [|[k v] d IH]; cbn; congruence. Qed.
Lemma gitems_of_keys d G : map (fun i : string * symbol * (aterm -> Prop) => fst (fst i)) (gitems_of d G) = dict_keys d.
Proof. unfold gitems_of, dict_keys. rewrite map_map. reflexivity. Qed.
Lemma DInv_entries d G k v : DInv d G -> In (k, v) d -> sname v = Some k /\ Pre v (G k).
Proof.
  intros (N & K & V) I. destruct (V k v (in_dict_get k v d N I)) as (A & B & _). auto.
Qed.
Lemma gitems_of_ok d G : DInv d G -> Forall gitem_ok (gitems_of d G).
Proof.
  intros HD. unfold gitems_of. apply Forall_forall. intros i Hi. apply in_map_iff in Hi as ([k v] & <- & I).
  unfold gitem_ok. cbn. eapply DInv_entries; eauto.
Qed.
Lemma gitems_of_ghost d G k a : DInv d G -> (ghost_of (gitems_of d G) k a <-> G k a).
Proof.
  intros HD. unfold ghost_of, gitems_of. split.
  - intros (s & P & I & Pa). apply in_map_iff in I as ([k' v] & E & _). cbn in E. inversion E; subst. exact Pa.
  - intros Ga. pose proof HD as (N & K & V). pose proof (K k a Ga) as Ik.
    unfold dict_keys in Ik. apply in_map_iff in Ik as ([k' v] & E & I). cbn in E. subst k'.
    exists v, (G k). split; [|exact Ga]. apply in_map_iff. exists (k, v). split; [reflexivity|exact I].
Qed.

(* ---------- keys: order of first appearance ---------- *)
Lemma filter_all_true {A} (f : A -> bool) l : (forall x, In x l -> f x = true) -> filter f l = l.
Proof.
  induction l as [|a l IH]; intros H; cbn; [reflexivity|]. rewrite (H a (or_introl eq_refl)). f_equal. apply IH.
  intros x I. apply H. right; exact I.
Qed.
Lemma first_occurrences_nodup l : NoDup l -> first_occurrences l = l.
Proof.
  induction l as [|x l IH]; intros N; cbn; [reflexivity|]. inversion N; subst. rewrite (IH H2). f_equal.
  apply filter_all_true. intros y I. destruct (String.eqb x y) eqn:E; [|reflexivity].
  apply String.eqb_eq in E. subst. contradiction.
Qed.
Lemma fold_add_new_dedup l acc : fold_left add_new (dedup l) acc = fold_left add_new l acc.
Proof.
  rewrite !fold_add_new_app. rewrite (first_occurrences_nodup (dedup l) (dedup_nodup l)), dedup_first_occurrences. reflexivity.
Qed.

(* ---------- the whole program ---------- *)
Lemma amentions_cons st p : amentions (st :: p) = (stmt_amentions st ++ amentions p)%list.
Proof. reflexivity. Qed.

Lemma program_items p : wf_program p = true ->
  match program_by_equation p with
  | Ret ls => exists gi : list (string * symbol * (aterm -> Prop)),
      Forall gitem_ok gi /\ map fst gi = named_items (concat ls) /\
      (forall k a, ghost_of gi k a <-> Gof (amentions p) k a) /\
      (forall acc, fold_left add_new (map (fun i : string * symbol * (aterm -> Prop) => fst (fst i)) gi) acc =
                   fold_left add_new (map aname (amentions p)) acc) /\
      filter unnamed (concat ls) = verbatim_blocks p
  | Raise x => (x = ParserError /\ existsb stmt_rejected p = true) \/ in_conflict (amentions p) x
  end.
Proof.
  induction p as [|st p IH]; intros W.
  - cbn. exists []. split; [constructor|]. split; [reflexivity|]. split; [|split; reflexivity].
    intros k a. unfold ghost_of, Gof. cbn. split; [intros (s & P & [] & _)|intros [[] _]].
  - cbn [wf_program forallb] in W. apply andb_true_iff in W as [Wst Wp].
    cbn [program_by_equation]. pose proof (stmt_spec st Wst) as S.
    destruct (stmt_symbols st) as [l|x].
    + destruct S as (d & -> & HD & Kd). specialize (IH Wp).
      destruct (program_by_equation p) as [ls|x].
      * destruct IH as (gi & Ok & Fst & Gh & Keys & Vb).
        assert (Names : forall k v, In (k, v) d -> sname v = Some k).
        { intros k v I. eapply DInv_entries; eauto. }
        exists (gitems_of d (Gof (stmt_amentions st)) ++ gi)%list. split; [|split; [|split; [|split]]].
        -- apply Forall_app. split; [apply gitems_of_ok; exact HD|exact Ok].
        -- cbn [concat]. rewrite map_app, gitems_of_fst, Fst, !named_items_app, (named_items_dict d Names).
           assert (E : named_items (stmt_verbatim st) = []) by (destruct st; reflexivity).
           rewrite E, app_nil_r. reflexivity.
        -- intros k a. rewrite amentions_cons, Gof_app, <- Gh, <- (gitems_of_ghost d _ k a HD).
           unfold ghost_of. split.
           ++ intros (s & P & I & Pa). apply in_app_or in I as [I|I]; [left|right]; eauto.
           ++ intros [(s & P & I & Pa)|(s & P & I & Pa)]; exists s, P; (split; [apply in_or_app|exact Pa]); auto.
        -- intros acc. rewrite amentions_cons, !map_app, !fold_left_app, gitems_of_keys, Kd, fold_add_new_dedup. apply Keys.
        -- cbn [concat]. rewrite !filter_app, (filter_unnamed_dict d Names), Vb. cbn [verbatim_blocks].
           destruct st as [l r e c|e c]; reflexivity.
      * destruct IH as [(-> & R)|C]; [left; split; [reflexivity|cbn [existsb]; rewrite R; apply orb_true_r]|right].
        eapply in_conflict_mono; [|exact C]. intros a I. rewrite amentions_cons. apply in_or_app. right; exact I.
    + destruct S as [(-> & R)|C]; [left; split; [reflexivity|cbn [existsb]; rewrite R; reflexivity]|right].
      eapply in_conflict_mono; [|exact C]. intros a I. rewrite amentions_cons. apply in_or_app. left; exact I.
Qed.

Theorem program_spec p : wf_program p = true ->
  match program_symbols p with
  | Ret syms => exists d, syms = (dict_values d ++ verbatim_blocks p)%list /\ DInv d (Gof (amentions p)) /\
                          dict_keys d = dedup (map aname (amentions p))
  | Raise x => (x = ParserError /\ existsb stmt_rejected p = true) \/ in_conflict (amentions p) x
  end.
Proof.
  intros W. unfold program_symbols. pose proof (program_items p W) as S.
  destruct (program_by_equation p) as [ls|x]; [|exact S].
  destruct S as (gi & Ok & Fst & Gh & Keys & Vb).
  unfold merge_symbols. rewrite merge_go_feed, <- Fst.
  pose proof (feed_spec gi [] (fun _ _ => False) DInv_nil Ok) as F.
  destruct (feed (map fst gi) []) as [d|x].
  - destruct F as [HD K]. exists d. cbn [rev app]. rewrite Vb. split; [reflexivity|]. split.
    + eapply DInv_ext; [|exact HD]. intros k a. rewrite <- Gh. tauto.
    + rewrite K. cbn [dict_keys map]. rewrite Keys. reflexivity.
  - right. destruct F as [(-> & k & a & b & Ha & Hb & C)|(-> & k & a & b & Ha & Hb & C)]; [left|right]; (split; [reflexivity|]);
      exists a, b; (destruct Ha as [[]|Ha]); apply Gh in Ha; apply Gh in Hb; destruct Ha as [Ia Na]; destruct Hb as [Ib Nb];
      (split; [exact Ia|]); (split; [exact Ib|]); (split; [congruence|exact C]).
Qed.
