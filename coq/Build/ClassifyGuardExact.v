(* ClassifyGuardExact.v — the guard of finding #19 is exact (property C03).
   fn_guard is a decidable predicate on programs (hence, through ClassifyScript.script_program, on scripts).  It is
   sufficient for the C03 statements (ClassifyMain).  Here: it is necessary — when it fails on an accepted program, some
   name x that the script mentions as a variable / parameter / error ends up as a FUNCTION symbol and is in none of the
   four lists.  (Once a name is a FUNCTION symbol it stays one: combining it with anything else raises SymbolError.) *)
From Coq Require Import String Ascii List Bool ZArith Lia.
Import ListNotations.
Require Import PyBase Generated Symbols SymbolsFacts Merge MergeFacts ParseEq Classify ClassifyFacts ClassifyProgram ClassifyMain.
Open Scope string_scope.

Notation dict := (list (string * symbol)).
Definition dict_fn (d : dict) (x : string) : Prop := exists v, dict_get x d = Some v /\ stype v = TFunction.

Lemma combine_fn_l a b c : stype a = TFunction -> combine a b = Ret c -> stype b = TFunction /\ stype c = TFunction /\ sname c = sname a.
Proof.
  intros Ha H. destruct (combine_inv a b c H) as (ty & lg & ld & eq & cd & Hty & _ & _ & _ & _ & ->). cbn.
  destruct Hty as [(E & ->)|(_ & Va & _)]; [split; [congruence|split; [exact Ha|reflexivity]]|].
  rewrite Ha in Va. discriminate.
Qed.
Lemma combine_fn_r a b c : stype b = TFunction -> combine a b = Ret c -> stype c = TFunction /\ sname c = sname a.
Proof.
  intros Hb H. destruct (combine_inv a b c H) as (ty & lg & ld & eq & cd & Hty & _ & _ & _ & _ & ->). cbn.
  destruct Hty as [(E & ->)|(_ & _ & Vb & _)]; [split; [congruence|reflexivity]|].
  rewrite Hb in Vb. discriminate.
Qed.
Lemma combine_sname a b c : combine a b = Ret c -> sname c = sname a.
Proof. intros H. destruct (combine_inv a b c H) as (ty & lg & ld & eq & cd & _ & _ & _ & _ & _ & ->). reflexivity. Qed.

Lemma dict_combine_fn_keep x y s d d' : dict_fn d x -> dict_combine y s d = Ret d' -> dict_fn d' x.
Proof.
  intros (v & Eg & Tv). unfold dict_combine. destruct (string_dec y x) as [->|N].
  - rewrite Eg. destruct (combine v s) as [c|] eqn:Ec; [|discriminate]. intros H; inversion H; subst.
    exists c. rewrite dict_get_set_eq. split; [reflexivity|]. apply (combine_fn_l v s c Tv Ec).
  - destruct (combine _ s) as [c|]; [|discriminate]. intros H; inversion H; subst.
    exists v. rewrite dict_get_set_neq by exact N. auto.
Qed.
Lemma dict_combine_fn_new y s d d' : stype s = TFunction -> dict_combine y s d = Ret d' -> dict_fn d' y.
Proof.
  intros Ts. unfold dict_combine. destruct (combine _ s) as [c|] eqn:Ec; [|discriminate]. intros H; inversion H; subst.
  exists c. rewrite dict_get_set_eq. split; [reflexivity|]. apply (combine_fn_r _ s c Ts Ec).
Qed.
Lemma dict_set_fn_keep x y s d : dict_fn d x -> stype s = TFunction -> dict_fn (dict_set y s d) x.
Proof.
  intros (v & Eg & Tv) Ts. destruct (string_dec y x) as [->|N].
  - exists s. rewrite dict_get_set_eq. auto.
  - exists v. rewrite dict_get_set_neq by exact N. auto.
Qed.

(* ---------- the per-equation loop ---------- *)
Lemma eqgo_fn e c ts : forall d fs d',
  (forall x, mem_string x fs = true -> dict_fn d x) ->
  equation_symbols_go e c ts d fs = Ret d' ->
  (forall x, dict_fn d x -> dict_fn d' x) /\ (forall t, In t ts -> ttype t = TFunction -> dict_fn d' (tname t)).
Proof.
  induction ts as [|t rest IH]; intros d fs d' HF H.
  - cbn in H. inversion H; subst. split; [auto|intros t []].
  - destruct (type_eqb (ttype t) TVerbatim) eqn:Ev.
    + apply type_eqb_eq in Ev. rewrite (eqgo_verbatim e c t rest d fs Ev) in H.
      destruct (IH d fs d' HF H) as [K N]. split; [exact K|]. intros u [<-|I] Tu; [congruence|apply N; assumption].
    + assert (NV : ttype t <> TVerbatim) by (intros E; apply type_eqb_eq in E; congruence).
      destruct (type_eqb (ttype t) TFunction) eqn:Ef.
      * apply type_eqb_eq in Ef. cbn [equation_symbols_go] in H. rewrite Ef in H.
        destruct (mem_string (tname t) fs) eqn:M.
        -- destruct (IH d fs d' HF H) as [K N]. split; [exact K|].
           intros u [<-|I] Tu; [apply K, HF, M|apply N; assumption].
        -- set (sym := mkSymbol (Some (tname t)) TFunction (tindex t) (tindex t) None None) in H.
           assert (HF' : forall x, mem_string x (tname t :: fs) = true -> dict_fn (dict_set (tname t) sym d) x).
           { intros x Mx. unfold mem_string in Mx. cbn [existsb] in Mx. apply orb_true_iff in Mx as [Mx|Mx].
             - apply String.eqb_eq in Mx. subst x. exists sym. rewrite dict_get_set_eq. auto.
             - apply dict_set_fn_keep; [apply HF; exact Mx|reflexivity]. }
           destruct (IH _ _ d' HF' H) as [K N]. split.
           ++ intros x Dx. apply K. apply dict_set_fn_keep; [exact Dx|reflexivity].
           ++ intros u [<-|I] Tu; [|apply N; assumption]. apply K. exists sym. rewrite dict_get_set_eq. auto.
      * assert (NF : ttype t <> TFunction) by (intros E; apply type_eqb_eq in E; congruence).
        rewrite (eqgo_other e c t rest d fs NV NF) in H.
        destruct (dict_combine (tname t) (sym_of_term e c t) d) as [d1|] eqn:Ec; [|discriminate].
        assert (HF' : forall x, mem_string x fs = true -> dict_fn d1 x).
        { intros x Mx. eapply dict_combine_fn_keep; [apply HF, Mx|exact Ec]. }
        destruct (IH d1 fs d' HF' H) as [K N]. split.
        -- intros x Dx. apply K. eapply dict_combine_fn_keep; eauto.
        -- intros u [<-|I] Tu; [congruence|apply N; assumption].
Qed.

(* keys: every entry is filed under its own name, once *)
Definition KInv (d : dict) : Prop := NoDup (dict_keys d) /\ forall k v, In (k, v) d -> sname v = Some k.
Lemma in_dict_set {V} k (v : V) d k' v' : In (k', v') (dict_set k v d) -> (k' = k /\ v' = v) \/ In (k', v') d.
Proof.
  induction d as [|[k2 v2] d IH]; cbn.
  - intros [H|[]]. inversion H; auto.
  - destruct (String.eqb k k2) eqn:E; cbn.
    + apply String.eqb_eq in E. subst. intros [H|H]; [inversion H; auto|auto].
    + intros [H|H]; [auto|]. destruct (IH H); auto.
Qed.
Lemma KInv_nil : KInv [].
Proof. split; [constructor|intros k v []]. Qed.
Lemma KInv_set k v d : KInv d -> sname v = Some k -> KInv (dict_set k v d).
Proof.
  intros [N S] Hv. split; [rewrite dict_keys_set; apply add_new_nodup, N|].
  intros k' v' I. apply in_dict_set in I as [[-> ->]|I]; [exact Hv|apply S, I].
Qed.
Lemma KInv_combine n s d d' : KInv d -> sname s = Some n -> dict_combine n s d = Ret d' -> KInv d'.
Proof.
  intros K Hs. unfold dict_combine. destruct (dict_get n d) as [old|] eqn:Eg.
  - destruct (combine old s) as [c|] eqn:Ec; [|discriminate]. intros H; inversion H; subst.
    apply KInv_set; [exact K|]. rewrite (combine_sname _ _ _ Ec). apply K. apply dict_get_in_entries, Eg.
  - destruct (combine s s) as [c|] eqn:Ec; [|discriminate]. intros H; inversion H; subst.
    apply KInv_set; [exact K|]. rewrite (combine_sname _ _ _ Ec). exact Hs.
Qed.
Lemma eqgo_KInv e c ts : forall d fs d', KInv d -> equation_symbols_go e c ts d fs = Ret d' -> KInv d'.
Proof.
  induction ts as [|t rest IH]; intros d fs d' K H; [cbn in H; inversion H; subst; exact K|].
  destruct (type_eqb (ttype t) TVerbatim) eqn:Ev.
  - apply type_eqb_eq in Ev. rewrite (eqgo_verbatim e c t rest d fs Ev) in H. eapply IH; eauto.
  - assert (NV : ttype t <> TVerbatim) by (intros E; apply type_eqb_eq in E; congruence).
    destruct (type_eqb (ttype t) TFunction) eqn:Ef.
    + apply type_eqb_eq in Ef. cbn [equation_symbols_go] in H. rewrite Ef in H.
      destruct (mem_string (tname t) fs); [eapply IH; eauto|]. eapply IH; [|exact H]. apply KInv_set; [exact K|reflexivity].
    + assert (NF : ttype t <> TFunction) by (intros E; apply type_eqb_eq in E; congruence).
      rewrite (eqgo_other e c t rest d fs NV NF) in H.
      destruct (dict_combine (tname t) (sym_of_term e c t) d) as [d1|] eqn:Ec; [|discriminate].
      eapply IH; [|exact H]. eapply KInv_combine; [exact K| |exact Ec]. reflexivity.
Qed.

(* a symbol list in which every symbol named x is a FUNCTION symbol *)
Definition only_fn (l : list symbol) (x : string) : Prop := forall v, In v l -> sname v = Some x -> stype v = TFunction.
Definition has_fn (l : list symbol) (x : string) : Prop := exists v, In v l /\ sname v = Some x /\ stype v = TFunction.

Lemma KInv_values d x : KInv d -> dict_fn d x -> only_fn (dict_values d) x /\ has_fn (dict_values d) x.
Proof.
  intros [N S] (v & Eg & Tv). split.
  - intros w Iw Hw. unfold dict_values in Iw. apply in_map_iff in Iw as ([k w'] & <- & I). cbn in Hw.
    rewrite (S k w' I) in Hw. inversion Hw; subst k. rewrite (in_dict_get x w' d N I) in Eg. inversion Eg; subst. exact Tv.
  - exists v. split; [eapply dict_get_in; eauto|]. split; [apply S, dict_get_in_entries, Eg|exact Tv].
Qed.

(* one statement: a call x( in it makes x a FUNCTION symbol of its symbol list *)
Lemma stmt_has_fn st l t : stmt_symbols st = Ret l -> In t (stmt_all_terms st) -> ttype t = TFunction -> has_fn l (tname t).
Proof.
  destruct st as [lt rt e c|e c]; [|intros _ []]. cbn [stmt_symbols stmt_all_terms].
  destruct (stmt_terms lt rt) as [ts|] eqn:Et; [|discriminate]. apply stmt_terms_ret in Et. subst ts.
  unfold equation_symbols. destruct (equation_symbols_go e c _ [] []) as [d|] eqn:Eg; [|discriminate].
  intros H I Tt. inversion H; subst.
  destruct (eqgo_fn e c _ [] [] d ltac:(intros x Mx; discriminate Mx) Eg) as [_ Nf].
  apply (KInv_values d (tname t) (eqgo_KInv e c _ [] [] d KInv_nil Eg) (Nf t I Tt)).
Qed.

(* ---------- the merge ---------- *)
Lemma merge_go_fn syms : forall d vb out x, KInv d -> (forall v, In v vb -> sname v = None) ->
  merge_go syms d vb = Ret out ->
  (dict_fn d x \/ has_fn syms x) -> only_fn out x.
Proof.
  induction syms as [|s rest IH]; intros d vb out x K Vb H Hx.
  - cbn in H. inversion H; subst. destruct Hx as [Dx|(v & [] & _)].
    intros v Iv Hv. apply in_app_or in Iv as [Iv|Iv].
    + apply (proj1 (KInv_values d x K Dx) v Iv Hv).
    + apply in_rev in Iv. rewrite (Vb v Iv) in Hv. discriminate.
  - cbn [merge_go] in H. destruct (sname s) as [n|] eqn:En.
    + destruct (dict_combine n s d) as [d1|] eqn:Ec; [|discriminate].
      apply (IH d1 vb out x (KInv_combine n s d d1 K En Ec) Vb H).
      destruct Hx as [Dx|(v & [<-|Iv] & Hv & Tv)].
      * left. eapply dict_combine_fn_keep; eauto.
      * left. rewrite En in Hv. inversion Hv; subst n. eapply dict_combine_fn_new; eauto.
      * right. exists v. auto.
    + apply (IH d (s :: vb) out x K); [intros v [<-|Iv]; [exact En|apply Vb, Iv]|exact H|].
      destruct Hx as [Dx|(v & [<-|Iv] & Hv & Tv)]; [left; exact Dx|congruence|right; exists v; auto].
Qed.

Lemma program_by_equation_has_fn p : forall ls st t, program_by_equation p = Ret ls -> In st p ->
  In t (stmt_all_terms st) -> ttype t = TFunction -> has_fn (concat ls) (tname t).
Proof.
  induction p as [|st0 p IH]; intros ls st t H I It Tt; [destruct I|].
  cbn [program_by_equation] in H. destruct (stmt_symbols st0) as [l|] eqn:Es; [|discriminate].
  destruct (program_by_equation p) as [ls'|] eqn:Ep; [|discriminate]. inversion H; subst. cbn [concat].
  destruct I as [<-|I].
  - destruct (stmt_has_fn st0 l t Es It Tt) as (v & Iv & Hv). exists v. split; [apply in_or_app; left; exact Iv|exact Hv].
  - destruct (IH ls' st t eq_refl I It Tt) as (v & Iv & Hv). exists v. split; [apply in_or_app; right; exact Iv|exact Hv].
Qed.

(* ---------- where the guard fails ---------- *)
Lemma fn_ok_false ts : forall pre, fn_ok pre ts = false ->
  exists t, In t ts /\ ttype t = TFunction /\ existsb (nonfn_named (tname t)) (pre ++ ts) = true.
Proof.
  induction ts as [|t rest IH]; intros pre H; [discriminate|].
  cbn [fn_ok] in H. apply andb_false_iff in H as [H|H].
  - destruct (type_eqb (ttype t) TFunction) eqn:Ef; [|discriminate]. apply type_eqb_eq in Ef. apply negb_false_iff in H.
    exists t. split; [left; reflexivity|]. split; [exact Ef|]. rewrite existsb_app, H. reflexivity.
  - destruct (IH _ H) as (u & Iu & Tu & Eu). exists u. split; [right; exact Iu|]. split; [exact Tu|].
    rewrite <- app_assoc in Eu. exact Eu.
Qed.

(* necessity: on an accepted program where the guard fails, some name mentioned otherwise than as a function is a FUNCTION
   symbol in the result — every symbol of that name — and so is in none of ENDOGENOUS / EXOGENOUS / PARAMETERS / ERRORS *)
Theorem guard_necessary p syms : program_symbols p = Ret syms -> fn_guard p = false ->
  exists x, existsb (nonfn_named x) (mentions p) = true /\ only_fn syms x /\
            forall o c, class_of syms o = Ret c -> ~ In (Some x) (c_names c).
Proof.
  intros A G. unfold fn_guard in G.
  assert (X : exists st, In st p /\ stmt_fn_ok st = false).
  { clear A. induction p as [|st p IH]; [discriminate|]. cbn [forallb] in G. apply andb_false_iff in G as [G|G].
    - exists st. split; [left; reflexivity|exact G].
    - destruct (IH G) as (st' & I & F). exists st'. split; [right; exact I|exact F]. }
  destruct X as (st & Ist & F). destruct st as [lt rt e c|e c]; [|discriminate]. cbn [stmt_fn_ok] in F.
  destruct (fn_ok_false _ [] F) as (t & It & Tt & Et). cbn [app] in Et.
  exists (tname t).
  assert (M : existsb (nonfn_named (tname t)) (mentions p) = true).
  { apply existsb_exists in Et as (u & Iu & Hu). apply existsb_exists. exists u. split; [|exact Hu].
    unfold mentions. apply in_concat. exists (stmt_mentions (SEq lt rt e c)). split; [apply in_map; exact Ist|].
    cbn [stmt_mentions]. apply filter_In. split; [exact Iu|].
    unfold nonfn_named in Hu. apply andb_true_iff in Hu as [Hu _]. apply andb_true_iff in Hu as [_ Hu]. exact Hu. }
  assert (O : only_fn syms (tname t)).
  { unfold program_symbols in A. destruct (program_by_equation p) as [ls|] eqn:Ep; [|discriminate].
    unfold merge_symbols in A.
    apply (merge_go_fn (concat ls) [] [] syms (tname t) KInv_nil ltac:(intros v []) A). right.
    apply (program_by_equation_has_fn p ls (SEq lt rt e c) t Ep Ist It Tt). }
  split; [exact M|]. split; [exact O|].
  intros o cl C I. destruct (class_of_inv _ _ _ C) as (E1 & E2 & E3 & E4 & _).
  unfold c_names in I. rewrite E1, E2, E3, E4 in I.
  assert (N : forall ty, ty <> TFunction -> ~ In (Some (tname t)) (names_of ty syms)).
  { intros ty Nty J. unfold names_of in J. apply in_map_iff in J as (v & Hv & Iv). apply filter_In in Iv as [Iv Hty].
    unfold has_stype in Hty. apply type_eqb_eq in Hty. rewrite (O v Iv Hv) in Hty. congruence. }
  repeat (apply in_app_or in I as [I|I]); eapply N; try exact I; discriminate.
Qed.

(* the guard is decidable on scripts: it is a computable boolean of the script's statements *)
Example guard_examples :
  fn_guard [SEq [mkTerm "Y" TVariable (Some (IInt 0))] [mkTerm "exp" TVariable (Some (IInt 0)); mkTerm "exp" TFunction None] "e" "c"] = false /\
  fn_guard [SEq [mkTerm "Y" TVariable (Some (IInt 0))] [mkTerm "exp" TFunction None; mkTerm "X" TVariable (Some (IInt 0))] "e" "c"] = true.
Proof. split; reflexivity. Qed.

(* ---------- exactness, and the guard as a decidable predicate on script text ---------- *)
Require Import PyStr ParseModel ClassifyScript.

Definition classified (p : list stmt) (x : string) : bool :=
  is_endogenous p x || is_exogenous p x || is_parameter p x || is_error p x.

Theorem guard_exact p syms o c : wf_program p = true -> program_symbols p = Ret syms -> class_of syms o = Ret c ->
  (fn_guard p = true -> forall x, In x (script_names p) -> classified p x = true -> In (Some x) (c_names c)) /\
  (fn_guard p = false -> exists x, existsb (nonfn_named x) (mentions p) = true /\ ~ In (Some x) (c_names c)).
Proof.
  intros W A C. split.
  - intros G x Ix Cx. apply (names_partition p W G syms o c A C). split; assumption.
  - intros G. destruct (guard_necessary p syms A G) as (x & M & _ & N). exists x. split; [exact M|apply (N o c C)].
Qed.

(* Some true / Some false for every script whose statements lex; None when a statement is rejected before *)
Definition script_guard (model : string) : option bool :=
  match script_program model with POk p => Some (fn_guard p) | _ => None end.

Example script_guard_examples :
  script_guard "Y = exp + exp(X)" = Some false /\ script_guard "Y = exp(X) + Z" = Some true /\
  script_guard ("Y = a + a(1)" ++ nl_s ++ "Z = {a} + a(1)") = Some false /\ script_guard "Y = X +" = Some true /\
  script_guard "Y = {a}[x]" = None.
Proof. repeat split; vm_compute; reflexivity. Qed.

(* for every accepted script the guard is defined (its statements lexed) *)
Theorem script_guard_defined chk cs model syms : parse_model_M chk cs model = POk syms -> exists b, script_guard model = Some b.
Proof.
  intros H. destruct (accepted_script_program chk cs model syms H) as (p & V & _). unfold script_guard. rewrite V. eauto.
Qed.
