(* ClassifyEndToEnd.v — the C03 statements composed from the script text to the class attributes and the default range. *)
From Coq Require Import String Ascii List Bool ZArith Lia.
Import ListNotations.
Require Import PyBase Symbols Merge ParseEq ParseModel Classify ClassifyFacts ClassifyProgram ClassifyClass ClassifyMain ClassifyRange ClassifyScript.
Open Scope string_scope.

(* for every script text the parser model accepts (any syntax-check oracle), with p its statements after lexing: *)
Theorem script_end_to_end chk cs model syms : parse_model_M chk cs model = POk syms ->
  exists p, script_program model = POk p /\ wf_program p = true /\ program_symbols p = Ret syms /\
    (  (* no name of the script is used in two classes, no endogenous variable has two equation texts *)
       (forall a b, In a (amentions p) -> In b (amentions p) -> aname a = aname b -> ~ clash (atype a) (atype b) /\ ~ two_texts a b) /\
       forall o c, class_of syms o = Ret c ->
         c_endogenous c = map Some (filter (is_endogenous p) (script_names p)) /\
         c_exogenous c = map Some (filter (is_exogenous p) (script_names p)) /\
         c_parameters c = map Some (filter (is_parameter p) (script_names p)) /\
         c_errors c = map Some (filter (is_error p) (script_names p)) /\
         NoDup (c_names c) /\
         (forall z, o_lags o = Some z -> c_lags c = z) /\
         (o_lags o = None -> exists m, o_min_lags o = Some m /\ c_lags c = Z.max (script_lags p) m) /\
         (forall z, o_leads o = Some z -> c_leads c = z) /\
         (o_leads o = None -> exists m, o_min_leads o = Some m /\ c_leads c = Z.max (script_leads p) m)).
Proof.
  intros H. destruct (accepted_script_program chk cs model syms H) as (p & V & W & A).
  exists p. split; [exact V|]. split; [exact W|]. split; [exact A|]. split.
  - intros a b Ia Ib N. destruct (accepted_table p W syms A) as (d & _ & HD & _). split.
    + apply (accepted_no_clash p d HD a b Ia Ib N).
    + apply (accepted_one_text p d HD a b Ia Ib N).
  - intros o c C. destruct (name_lists p W syms o c A C) as (E1 & E2 & E3 & E4).
    destruct (names_partition p W syms o c A C) as [ND _].
    destruct (lags_leads p W syms o c A C) as (L1 & L2 & L3 & L4).
    repeat split; assumption.
Qed.
