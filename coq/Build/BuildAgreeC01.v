(* BuildAgreeC01.v — the block of equations of this model (BuildDef, any converter) with the default converter IS the
   block of C01's independently written model (CodeGen/CodeGenBlock.equations_block), for every symbol list.  So what
   C01 proves about the statements inside the block (and its pass semantics) speaks about the very text that the four
   routes of C15 execute. *)
From Coq Require Import String Ascii List Bool Arith Lia.
Import ListNotations.
Require Import PyBase Generated PyStr Symbols ParseEq ParseModel Classify BuildDef BuildDefFacts.
Require Fsic.CodeGen.CodeGenBlock.
Module CB := Fsic.CodeGen.CodeGenBlock.
Open Scope string_scope.
Open Scope nat_scope.

Lemma lines_same_n n : forall s cur, String.length s <= n -> lines_keepends cur s = CB.splitlines_keep cur s.
Proof.
  induction n as [|n IH]; intros s cur L.
  - destruct s; [reflexivity|cbn in L; lia].
  - destruct s as [|c r]; [reflexivity|]. cbn [String.length] in L. cbn [lines_keepends CB.splitlines_keep].
    destruct (is_linesep c).
    + destruct (Ascii.eqb c cr).
      * destruct r as [|c2 r2]; [reflexivity|]. cbn [String.length] in L. destruct (Ascii.eqb c2 nl).
        -- rewrite (IH r2 "") by lia. reflexivity.
        -- rewrite (IH (String c2 r2) "") by (cbn [String.length]; lia). reflexivity.
      * rewrite (IH r "") by lia. reflexivity.
    + apply IH. lia.
Qed.
Lemma lines_same s cur : lines_keepends cur s = CB.splitlines_keep cur s.
Proof. apply (lines_same_n (String.length s)). lia. Qed.

Lemma concat_same l : String.concat "" l = CB.concat_s l.
Proof. induction l as [|a l IH]; [reflexivity|]. rewrite sconcat_cons, IH. reflexivity. Qed.
Lemma indent_same t : indent eq_prefix t = CB.indent8 t.
Proof. unfold indent, CB.indent8. rewrite concat_same, lines_same. reflexivity. Qed.
Lemma join_same sep l : join_sep sep l = CB.join_s sep l.
Proof. induction l as [|a l IH]; [reflexivity|]. destruct l; [reflexivity|]. cbn [join_sep CB.join_s] in *. rewrite IH. reflexivity. Qed.

Lemma converted_emits s : emits s = true -> CB.converted s = Some (default_converter s).
Proof.
  unfold emits, CB.converted, default_converter, CB.default_converter.
  destruct (stype s); try discriminate; destruct (sequation s), (scode s); try discriminate; reflexivity.
Qed.
Lemma somes_converted l : forallb emits l = true -> CB.somes_of (map CB.converted l) = map default_converter l.
Proof.
  induction l as [|s l IH]; intros H; [reflexivity|]. cbn [forallb] in H. apply andb_true_iff in H as [H1 H2].
  cbn [map CB.somes_of]. rewrite (converted_emits s H1), (IH H2). reflexivity.
Qed.
Lemma filter_forallb {A} (f : A -> bool) l : forallb f (filter f l) = true.
Proof. induction l as [|a l IH]; [reflexivity|]. cbn. destruct (f a) eqn:E; [cbn; rewrite E; exact IH|exact IH]. Qed.

(* indenting never shortens, and the default converter's output is never empty: the `pass` fallback of the two models agrees *)
Lemma slen_app a b : String.length (a ++ b) = String.length a + String.length b.
Proof. induction a as [|c a IH]; cbn; [reflexivity|rewrite IH; reflexivity]. Qed.
Lemma slen_concat_indent p ls : String.length (String.concat "" ls) <= String.length (String.concat "" (map (indent_line p) ls)).
Proof.
  induction ls as [|l ls IH]; [cbn; lia|]. cbn [map]. rewrite !sconcat_cons, !slen_app.
  assert (String.length l <= String.length (indent_line p l)).
  { unfold indent_line. destruct (is_blank l); [lia|rewrite slen_app; lia]. }
  lia.
Qed.
Lemma slen_indent p t : String.length t <= String.length (indent p t).
Proof.
  unfold indent. pose proof (slen_concat_indent p (lines_keepends "" t)) as H.
  rewrite (concat_lines_keepends t "") in H. exact H.
Qed.
Lemma default_converter_nonempty s : 1 <= String.length (default_converter s).
Proof. unfold default_converter. rewrite !slen_app. cbn. lia. Qed.

Theorem default_block_is_C01_block syms :
  equations_block (snd (expressions unit conv_default tt syms)) = CB.equations_block syms.
Proof.
  change conv_default with (stateless default_converter). rewrite (stateless_block default_converter syms). cbn [snd]. unfold CB.equations_block.
  rewrite (somes_converted _ (filter_forallb emits syms)).
  unfold equations_block. destruct (filter emits syms) as [|s l]; [reflexivity|].
  cbn [map]. cbv beta iota.
  assert (R : CB.join_s (nl_s ++ nl_s) (CB.indent8 (default_converter s) :: map CB.indent8 (map default_converter l)) =
              join_sep (nl_s ++ nl_s) (indent eq_prefix (default_converter s) :: map (indent eq_prefix) (map default_converter l))).
  { change CB.join_s with join_sep. f_equal. f_equal; [symmetry; apply indent_same|]. apply map_ext. intros t. symmetry. apply indent_same. }
  rewrite R.
  set (j := join_sep (nl_s ++ nl_s) (indent eq_prefix (default_converter s) :: map (indent eq_prefix) (map default_converter l))).
  assert (L : 1 <= String.length j).
  { unfold j. pose proof (slen_indent eq_prefix (default_converter s)). pose proof (default_converter_nonempty s).
    destruct (map (indent eq_prefix) (map default_converter l)); cbn [join_sep]; [lia|rewrite slen_app; lia]. }
  destruct j; [cbn in L; lia|reflexivity].
Qed.
