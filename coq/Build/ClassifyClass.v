(* ClassifyClass.v — from the program-level invariant (ClassifyProgram.program_spec) to the statements of C03:
   types of the merged symbols, the four name lists of build_model_definition as filters of the names of the
   script in order of first appearance, LAGS / LEADS as the extreme offsets, the option lattice, rejections. *)
From Coq Require Import String Ascii List Bool ZArith Lia.
Import ListNotations.
Require Import PyBase Generated Symbols SymbolsFacts Merge MergeFacts ParseEq Classify ClassifyFacts ClassifyProgram.
Open Scope string_scope.

(* ---------- mentions as booleans ---------- *)
Lemma map_aname_tname l : map aname l = map tname (map a_term l).
Proof. rewrite map_map. reflexivity. Qed.

Lemma mentioned_as_iff ty x (AM : list aterm) :
  mentioned_as ty x (map a_term AM) = true <-> exists a, In a AM /\ aname a = x /\ atype a = ty.
Proof.
  unfold mentioned_as. rewrite existsb_exists. split.
  - intros (t & I & H). apply in_map_iff in I as (a & <- & Ia). apply andb_true_iff in H as [H1 H2].
    unfold named in H1. apply String.eqb_eq in H1. apply type_eqb_eq in H2. exists a. unfold aname, atype. auto.
  - intros (a & Ia & Na & Ta). exists (a_term a). split; [apply in_map; exact Ia|].
    unfold named. unfold aname in Na. unfold atype in Ta. rewrite Na, Ta, String.eqb_refl, type_eqb_refl. reflexivity.
Qed.

Section Accepted.
  Variable p : list stmt.
  Variable d : list (string * symbol).
  Hypothesis HD : DInv d (Gof (amentions p)).

  Let AM := amentions p.

  Lemma sym_types x v : dict_get x d = Some v ->
    (stype v = TEndogenous <-> is_endogenous p x = true) /\
    (stype v = TParameter <-> is_parameter p x = true) /\
    (stype v = TError <-> is_error p x = true) /\
    (stype v = TExogenous <-> is_exogenous p x = true).
  Proof.
    intros Eg. destruct HD as (N & K & V). destruct (V x v Eg) as (_ & Pv & _).
    destruct Pv as (_ & Tv & (a0 & [I0 N0] & T0) & _).
    unfold is_endogenous, is_parameter, is_error, is_exogenous. rewrite <- !amentions_terms.
    split; [|split; [|split]].
    - rewrite mentioned_as_iff. split.
      + intros E. exists a0. split; [exact I0|]. split; [exact N0|congruence].
      + intros (a & Ia & Na & Ta). assert (C := Tv a (conj Ia Na)). rewrite Ta in C. apply tcompat_endogenous, C.
    - rewrite mentioned_as_iff. split.
      + intros E. exists a0. split; [exact I0|]. split; [exact N0|congruence].
      + intros (a & Ia & Na & Ta). assert (C := Tv a (conj Ia Na)). rewrite Ta in C.
        symmetry. apply (tcompat_from_nonvariable TParameter); [reflexivity|exact C].
    - rewrite mentioned_as_iff. split.
      + intros E. exists a0. split; [exact I0|]. split; [exact N0|congruence].
      + intros (a & Ia & Na & Ta). assert (C := Tv a (conj Ia Na)). rewrite Ta in C.
        symmetry. apply (tcompat_from_nonvariable TError); [reflexivity|exact C].
    - rewrite andb_true_iff, negb_true_iff, mentioned_as_iff. split.
      + intros E. split; [exists a0; split; [exact I0|]; split; [exact N0|congruence]|].
        destruct (mentioned_as TEndogenous x (map a_term (amentions p))) eqn:M; [|reflexivity]. exfalso.
        apply mentioned_as_iff in M as (a & Ia & Na & Ta). assert (C := Tv a (conj Ia Na)). rewrite Ta, E in C.
        apply (tcompat_into_exogenous TEndogenous C). reflexivity.
      + intros [(a & Ia & Na & Ta) NE]. assert (C := Tv a (conj Ia Na)). rewrite Ta in C.
        destruct (tcompat_exogenous_cases _ C) as [E|E]; [exact E|]. exfalso.
        assert (M : mentioned_as TEndogenous x (map a_term (amentions p)) = true).
        { apply mentioned_as_iff. exists a0. split; [exact I0|]. split; [exact N0|congruence]. }
        congruence.
  Qed.

  (* an accepted script has no name in two classes and no endogenous variable with two texts *)
  Lemma accepted_no_clash a b : In a AM -> In b AM -> aname a = aname b -> ~ clash (atype a) (atype b).
  Proof.
    intros Ia Ib Nab C. destruct HD as (N & K & V).
    pose proof (K (aname a) a (conj Ia eq_refl)) as Ik.
    destruct (dict_get (aname a) d) as [v|] eqn:Eg; [|apply dict_get_none_keys in Eg; contradiction].
    destruct (V _ _ Eg) as (_ & Pv & _). destruct Pv as (_ & Tv & _).
    apply (clash_not_tcompat _ _ (stype v) C); apply Tv; split; auto.
  Qed.
  Lemma accepted_one_text a b : In a AM -> In b AM -> aname a = aname b -> ~ two_texts a b.
  Proof.
    intros Ia Ib Nab (Ta & Tb & Diff). destruct HD as (N & K & V).
    pose proof (K (aname a) a (conj Ia eq_refl)) as Ik.
    destruct (dict_get (aname a) d) as [v|] eqn:Eg; [|apply dict_get_none_keys in Eg; contradiction].
    destruct (V _ _ Eg) as (_ & Pv & _). destruct Pv as (_ & _ & _ & _ & Ev & _).
    destruct (Ev a (conj Ia eq_refl) Ta) as [Q1 Q2]. destruct (Ev b (conj Ib (eq_sym Nab)) Tb) as [R1 R2].
    destruct Diff as [Df|Df]; apply Df; congruence.
  Qed.

  (* ---------- the name lists ---------- *)
  Lemma names_of_dict ty (pred : string -> bool) (d0 : list (string * symbol)) :
    (forall k v, In (k, v) d0 -> sname v = Some k /\ has_stype ty v = pred k) ->
    names_of ty (dict_values d0) = map Some (filter pred (dict_keys d0)).
  Proof.
    unfold names_of, dict_values, dict_keys. induction d0 as [|[k v] d0 IH]; intros H; cbn; [reflexivity|].
    destruct (H k v (or_introl eq_refl)) as [Hn Hp]. rewrite Hp.
    assert (R : map sname (filter (has_stype ty) (map snd d0)) = map Some (filter pred (map fst d0))).
    { apply IH. intros k' v' I. apply H. right; exact I. }
    destruct (pred k); cbn; [rewrite Hn, R; reflexivity|exact R].
  Qed.
  Lemma names_of_verbatim ty q : ty <> TVerbatim -> names_of ty (verbatim_blocks q) = [].
  Proof.
    intros NV. unfold names_of. induction q as [|st q IH]; [reflexivity|].
    destruct st as [l r e c|e c]; cbn [verbatim_blocks]; [exact IH|]. cbn [filter].
    assert (F : has_stype ty (verbatim_symbol e c) = false).
    { unfold has_stype. cbn. destruct ty; try reflexivity; congruence. }
    rewrite F. exact IH.
  Qed.
  Lemma names_of_app ty l1 l2 : names_of ty (l1 ++ l2) = (names_of ty l1 ++ names_of ty l2)%list.
  Proof. unfold names_of. rewrite filter_app, map_app. reflexivity. Qed.

  Lemma bool_eq_iff (a b : bool) : (a = true <-> b = true) -> a = b.
  Proof.
    destruct a, b; intros [H1 H2]; try reflexivity.
    - symmetry. apply H1. reflexivity.
    - apply H2. reflexivity.
  Qed.

  Lemma entry_type ty (pred : string -> bool) :
    (forall x v, dict_get x d = Some v -> (stype v = ty <-> pred x = true)) ->
    forall k v, In (k, v) d -> sname v = Some k /\ has_stype ty v = pred k.
  Proof.
    intros H k v I. destruct (DInv_entries d _ k v HD I) as [Hn _]. split; [exact Hn|].
    destruct HD as (N & _ & _). pose proof (in_dict_get k v d N I) as Eg.
    apply bool_eq_iff. unfold has_stype. rewrite type_eqb_eq. apply H, Eg.
  Qed.

  Lemma keys_are_script_names : dict_keys d = dedup (map aname (amentions p)) -> dict_keys d = script_names p.
  Proof.
    intros ->. unfold script_names. rewrite dedup_first_occurrences, map_aname_tname, amentions_terms. reflexivity.
  Qed.

  (* ---------- lags and leads of the symbols ---------- *)
  Lemma indexed_term_unindexed t : indexed_term t = negb (unindexed_type (ttype t)).
  Proof. unfold indexed_term. destruct (ttype t); reflexivity. Qed.
  Lemma indexed_symbol_unindexed s : indexed_symbol s = negb (unindexed_type (stype s)).
  Proof. unfold indexed_symbol. destruct (stype s); reflexivity. Qed.

  Lemma in_offsets_iff o : In o (offsets (mentions p)) <-> exists a, In a AM /\ unindexed_type (atype a) = false /\ aoff a = o.
  Proof.
    unfold offsets. rewrite <- amentions_terms, in_map_iff. split.
    - intros (t & <- & I). apply filter_In in I as [I It]. apply in_map_iff in I as (a & <- & Ia).
      exists a. split; [exact Ia|]. split; [|reflexivity]. rewrite indexed_term_unindexed in It. apply negb_true_iff in It. exact It.
    - intros (a & Ia & U & <-). exists (a_term a). split; [reflexivity|]. apply filter_In. split; [apply in_map; exact Ia|].
      rewrite indexed_term_unindexed. unfold atype in U. rewrite U. reflexivity.
  Qed.

  (* every indexed symbol of the table carries int lags <= 0 / leads >= 0 that bound, and are 0 or attained by, the
     offsets written next to its name *)
  Lemma sym_lags x v : dict_get x d = Some v -> unindexed_type (stype v) = false ->
    exists z z', slags v = Some (IInt z) /\ sleads v = Some (IInt z') /\ (z <= 0)%Z /\ (0 <= z')%Z /\
      (forall a, In a AM -> aname a = x -> (z <= aoff a <= z')%Z) /\
      (z = 0%Z \/ exists a, In a AM /\ aname a = x /\ aoff a = z) /\
      (z' = 0%Z \/ exists a, In a AM /\ aname a = x /\ aoff a = z').
  Proof.
    intros Eg U. destruct HD as (N & K & V). destruct (V x v Eg) as (_ & Pv & Nv).
    destruct (Nv U) as (z & z' & Hz & Hz' & Lz & Lz'). exists z, z'. split; [exact Hz|]. split; [exact Hz'|]. split; [exact Lz|]. split; [exact Lz'|].
    destruct Pv as (_ & _ & _ & L & _). destruct (L U) as (li & ld & Hli & Hld & Pli & Pld).
    rewrite Hz in Hli. rewrite Hz' in Hld. inversion Hli; inversion Hld; subst li ld. cbn [lag_pre lead_pre] in Pli, Pld.
    destruct Pli as [B1 A1]. destruct Pld as [B2 A2].
    assert (Ez : Z.min z 0 = z) by (clear - Lz; lia). assert (Ez' : Z.max z' 0 = z') by (clear - Lz'; lia).
    rewrite Ez in B1, A1. rewrite Ez' in B2, A2.
    split; [|split].
    - intros a Ia Na. split; [apply B1|apply B2]; split; auto.
    - destruct A1 as [A1|(a & [Ia Na] & A1)]; [left; exact A1|right; exists a; auto].
    - destruct A2 as [A2|(a & [Ia Na] & A2)]; [left; exact A2|right; exists a; auto].
  Qed.
End Accepted.

(* ---------- extremes ---------- *)
Lemma min0_cons x l : min0 (x :: l) = Z.min x (min0 l).
Proof. reflexivity. Qed.
Lemma max0_cons x l : max0 (x :: l) = Z.max x (max0 l).
Proof. reflexivity. Qed.
Lemma min0_le_0 l : (min0 l <= 0)%Z.
Proof. induction l as [|x l IH]; [cbn; lia|rewrite min0_cons; lia]. Qed.
Lemma min0_le_in l x : In x l -> (min0 l <= x)%Z.
Proof. induction l as [|y l IH]; [intros []|]. rewrite min0_cons. intros [->|I]; [lia|]. specialize (IH I). lia. Qed.
Lemma min0_ge l m : (m <= 0)%Z -> (forall x, In x l -> (m <= x)%Z) -> (m <= min0 l)%Z.
Proof.
  intros M. induction l as [|y l IH]; intros H; [exact M|]. rewrite min0_cons.
  assert (m <= y)%Z by (apply H; left; reflexivity). assert (m <= min0 l)%Z by (apply IH; intros x I; apply H; right; exact I). lia.
Qed.
Lemma max0_ge_0 l : (0 <= max0 l)%Z.
Proof. induction l as [|x l IH]; [cbn; lia|rewrite max0_cons; lia]. Qed.
Lemma max0_ge_in l x : In x l -> (x <= max0 l)%Z.
Proof. induction l as [|y l IH]; [intros []|]. rewrite max0_cons. intros [->|I]; [lia|]. specialize (IH I). lia. Qed.
Lemma max0_le l m : (0 <= m)%Z -> (forall x, In x l -> (x <= m)%Z) -> (max0 l <= m)%Z.
Proof.
  intros M. induction l as [|y l IH]; intros H; [exact M|]. rewrite max0_cons.
  assert (y <= m)%Z by (apply H; left; reflexivity). assert (max0 l <= m)%Z by (apply IH; intros x I; apply H; right; exact I). lia.
Qed.

Lemma fold_left_min_le zs : forall z, (fold_left Z.min zs z <= z)%Z /\ (forall y, In y zs -> (fold_left Z.min zs z <= y)%Z) /\
                                      (fold_left Z.min zs z = z \/ In (fold_left Z.min zs z) zs).
Proof.
  induction zs as [|y zs IH]; intros z; cbn [fold_left].
  - split; [lia|]. split; [intros y []|left; reflexivity].
  - destruct (IH (Z.min z y)) as (A & B & C). split; [lia|]. split.
    + intros w [<-|I]; [lia|apply B, I].
    + destruct C as [C|C]; [|right; right; exact C]. destruct (Z.le_gt_cases z y); [left|right; left]; lia.
Qed.
Lemma fold_left_max_ge zs : forall z, (z <= fold_left Z.max zs z)%Z /\ (forall y, In y zs -> (y <= fold_left Z.max zs z)%Z) /\
                                      (fold_left Z.max zs z = z \/ In (fold_left Z.max zs z) zs).
Proof.
  induction zs as [|y zs IH]; intros z; cbn [fold_left].
  - split; [lia|]. split; [intros y []|left; reflexivity].
  - destruct (IH (Z.max z y)) as (A & B & C). split; [lia|]. split.
    + intros w [<-|I]; [lia|apply B, I].
    + destruct C as [C|C]; [|right; right; exact C]. destruct (Z.le_gt_cases y z); [left|right; left]; lia.
Qed.

(* the computed length when every entry is an int of the right sign *)
Lemma computed_min vals zs : ints_of vals = Some zs -> (forall z, In z zs -> (z <= 0)%Z) ->
  (match vals with [] => Ret 0%Z | _ => extreme Z.min vals end) = Ret (- min0 zs)%Z.
Proof.
  intros E S. destruct vals as [|v vals]; [cbn in E; inversion E; reflexivity|].
  unfold extreme. rewrite E. destruct zs as [|z zs]; [destruct v as [[?|?]|]; cbn in E; try discriminate; destruct (ints_of vals); discriminate|].
  f_equal. destruct (fold_left_min_le zs z) as (A & B & C). set (m := fold_left Z.min zs z) in *.
  assert (M0 : (m <= 0)%Z) by (assert (z <= 0)%Z by (apply S; left; reflexivity); lia).
  assert (E1 : (m <= min0 (z :: zs))%Z).
  { apply min0_ge; [exact M0|]. intros x [<-|I]; [exact A|apply B, I]. }
  assert (E2 : (min0 (z :: zs) <= m)%Z).
  { destruct C as [C|C]; [rewrite C; apply min0_le_in; left; reflexivity|apply min0_le_in; right; exact C]. }
  lia.
Qed.
Lemma computed_max vals zs : ints_of vals = Some zs -> (forall z, In z zs -> (0 <= z)%Z) ->
  (match vals with [] => Ret 0%Z | _ => extreme Z.max vals end) = Ret (max0 zs).
Proof.
  intros E S. destruct vals as [|v vals]; [cbn in E; inversion E; reflexivity|].
  unfold extreme. rewrite E. destruct zs as [|z zs]; [destruct v as [[?|?]|]; cbn in E; try discriminate; destruct (ints_of vals); discriminate|].
  f_equal. destruct (fold_left_max_ge zs z) as (A & B & C). set (m := fold_left Z.max zs z) in *.
  assert (M0 : (0 <= m)%Z) by (assert (0 <= z)%Z by (apply S; left; reflexivity); lia).
  assert (E1 : (max0 (z :: zs) <= m)%Z).
  { apply max0_le; [exact M0|]. intros x [<-|I]; [exact A|apply B, I]. }
  assert (E2 : (m <= max0 (z :: zs))%Z).
  { destruct C as [C|C]; [rewrite C; apply max0_ge_in; left; reflexivity|apply max0_ge_in; right; exact C]. }
  lia.
Qed.

Lemma ints_of_all (l : list symbol) (f : symbol -> option pidx) :
  (forall s, In s l -> exists z, f s = Some (IInt z)) ->
  exists zs, ints_of (map f l) = Some zs /\ (forall z, In z zs <-> exists s, In s l /\ f s = Some (IInt z)).
Proof.
  induction l as [|s l IH]; intros H.
  - exists []. split; [reflexivity|]. intros z. split; [intros []|intros (s & [] & _)].
  - destruct (H s (or_introl eq_refl)) as [z Hz]. destruct IH as (zs & E & Z). { intros s' I. apply H. right; exact I. }
    exists (z :: zs). cbn. rewrite Hz, E. split; [reflexivity|]. intros w. split.
    + intros [<-|I]; [exists s; auto|]. apply Z in I as (s' & I' & F). exists s'. auto.
    + intros (s' & [<-|I'] & F); [left; congruence|right; apply Z; eauto].
Qed.
