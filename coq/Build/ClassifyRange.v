(* ClassifyRange.v — the statement of C03's last sentence end to end: for an accepted program built with the default
   options, the default solution range of the built class is exactly the set of periods at which every equation reads
   and writes inside the span. *)
From Coq Require Import String Ascii List Bool ZArith Lia.
Import ListNotations.
Require Import PyBase Symbols Merge ParseEq Classify ClassifyFacts ClassifyProgram ClassifyClass ClassifyMain.
Open Scope string_scope.

Lemma script_lags_nonneg p : (0 <= script_lags p)%Z.
Proof. unfold script_lags. pose proof (min0_le_0 (offsets (mentions p))). lia. Qed.
Lemma script_leads_nonneg p : (0 <= script_leads p)%Z.
Proof. apply max0_ge_0. Qed.

Theorem default_lengths p syms c : wf_program p = true -> fn_guard p = true ->
  program_symbols p = Ret syms -> class_of syms default_opts = Ret c ->
  c_lags c = script_lags p /\ c_leads c = script_leads p.
Proof.
  intros W G A C. destruct (lags_leads p W G syms default_opts c A C) as (_ & L1 & _ & L2).
  destruct (L1 eq_refl) as (m1 & E1 & ->). destruct (L2 eq_refl) as (m2 & E2 & ->).
  cbn in E1, E2. inversion E1; inversion E2; subst.
  pose proof (script_lags_nonneg p). pose proof (script_leads_nonneg p). split; lia.
Qed.

Theorem default_range_of_program p syms c n l : wf_program p = true -> fn_guard p = true ->
  program_symbols p = Ret syms -> class_of syms default_opts = Ret c ->
  (script_lags p + script_leads p + 1 <= Z.of_nat n)%Z ->
  default_range n (c_lags c) (c_leads c) = Ret l ->
  NoDup l /\
  forall t, In t l <-> (0 <= t < Z.of_nat n /\ forall k, In k (offsets (mentions p)) -> 0 <= t + k < Z.of_nat n)%Z.
Proof.
  intros W G A C H E. destruct (default_lengths p syms c W G A C) as [E1 E2]. rewrite E1, E2 in E. split.
  - apply (default_range_periods n _ _ l (script_lags_nonneg p) (script_leads_nonneg p) H E).
  - apply (default_range_feasible p n l H E).
Qed.

(* raising a minimum or imposing longer lengths only shrinks the range; the periods kept are still feasible *)
Theorem longer_lengths_stay_feasible p n lags leads l : (script_lags p <= lags)%Z -> (script_leads p <= leads)%Z ->
  (lags + leads + 1 <= Z.of_nat n)%Z -> default_range n lags leads = Ret l ->
  forall t, In t l -> (0 <= t < Z.of_nat n /\ forall k, In k (offsets (mentions p)) -> 0 <= t + k < Z.of_nat n)%Z.
Proof.
  intros H1 H2 H3 E t I. pose proof (script_lags_nonneg p). pose proof (script_leads_nonneg p).
  destruct (default_range_periods n lags leads l ltac:(lia) ltac:(lia) H3 E) as [_ P]. apply P in I.
  unfold script_lags, script_leads in *. split; [lia|]. intros k Ik.
  pose proof (min0_le_in _ _ Ik). pose proof (max0_ge_in _ _ Ik). lia.
Qed.
