(* ClassifyRange.v — the statement of C03's last sentence end to end: for an accepted program built with the default
   options, the default solution range of the built class is exactly the set of periods at which every equation reads
   and writes inside the span. *)
From Coq Require Import String Ascii List Bool ZArith Lia.
Import ListNotations.
Require Import PyBase Symbols Merge ParseEq Classify ClassifyFacts ClassifyProgram ClassifyClass ClassifyMain.
Open Scope string_scope.

Lemma script_lags_nonneg p : (0 <= script_lags p)%Z.
Proof. unfold script_lags. pose proof (min0_le_0 (offsets (mentions p))). lia. Qed.
Lemma script_leads_nonneg p : (0 <= script_leads p)%Z.
Proof. apply max0_ge_0. Qed.

Theorem default_lengths p syms c : wf_program p = true ->
  program_symbols p = Ret syms -> class_of syms default_opts = Ret c ->
  c_lags c = script_lags p /\ c_leads c = script_leads p.
Proof.
  intros W A C. destruct (lags_leads p W syms default_opts c A C) as (_ & L1 & _ & L2).
  destruct (L1 eq_refl) as (m1 & E1 & ->). destruct (L2 eq_refl) as (m2 & E2 & ->).
  cbn in E1, E2. inversion E1; inversion E2; subst.
  pose proof (script_lags_nonneg p). pose proof (script_leads_nonneg p). split; lia.
Qed.

Theorem default_range_of_program p syms c n l : wf_program p = true ->
  program_symbols p = Ret syms -> class_of syms default_opts = Ret c ->
  (script_lags p + script_leads p + 1 <= Z.of_nat n)%Z ->
  default_range n (c_lags c) (c_leads c) = Ret l ->
  NoDup l /\
  forall t, In t l <-> (0 <= t < Z.of_nat n /\ forall k, In k (offsets (mentions p)) -> 0 <= t + k < Z.of_nat n)%Z.
Proof.
  intros W A C H E. destruct (default_lengths p syms c W A C) as [E1 E2]. rewrite E1, E2 in E. split.
  - apply (default_range_periods n _ _ l (script_lags_nonneg p) (script_leads_nonneg p) H E).
  - apply (default_range_feasible p n l H E).
Qed.

(* raising a minimum or imposing longer lengths only shrinks the range; the periods kept are still feasible *)
Theorem longer_lengths_stay_feasible p n lags leads l : (script_lags p <= lags)%Z -> (script_leads p <= leads)%Z ->
  (lags + leads + 1 <= Z.of_nat n)%Z -> default_range n lags leads = Ret l ->
  forall t, In t l -> (0 <= t < Z.of_nat n /\ forall k, In k (offsets (mentions p)) -> 0 <= t + k < Z.of_nat n)%Z.
Proof.
  intros H1 H2 H3 E t I. pose proof (script_lags_nonneg p). pose proof (script_leads_nonneg p).
  destruct (default_range_periods n lags leads l ltac:(lia) ltac:(lia) H3 E) as [_ P]. apply P in I.
  unfold script_lags, script_leads in *. split; [lia|]. intros k Ik.
  pose proof (min0_le_in _ _ Ik). pose proof (max0_ge_in _ _ Ik). lia.
Qed.

(* what the options must NOT change: the four name lists (and NAMES) are the same whatever lags / leads / minima are given *)
Theorem lists_independent_of_options p syms o1 o2 c1 c2 : wf_program p = true ->
  program_symbols p = Ret syms -> class_of syms o1 = Ret c1 -> class_of syms o2 = Ret c2 ->
  c_endogenous c1 = c_endogenous c2 /\ c_exogenous c1 = c_exogenous c2 /\ c_parameters c1 = c_parameters c2 /\
  c_errors c1 = c_errors c2 /\ c_names c1 = c_names c2.
Proof.
  intros W A C1 C2. destruct (name_lists p W syms o1 c1 A C1) as (E1 & E2 & E3 & E4).
  destruct (name_lists p W syms o2 c2 A C2) as (F1 & F2 & F3 & F4).
  unfold c_names. rewrite E1, E2, E3, E4, F1, F2, F3, F4. repeat split; reflexivity.
Qed.
(* … and lags options do not touch LEADS, leads options do not touch LAGS *)
Theorem lags_options_do_not_touch_leads p syms o c lg mlg : wf_program p = true ->
  program_symbols p = Ret syms -> class_of syms o = Ret c ->
  forall c', class_of syms (mkOpts lg (o_leads o) mlg (o_min_leads o)) = Ret c' -> c_leads c' = c_leads c.
Proof.
  intros W A C c' C'. destruct (lags_leads p W syms o c A C) as (_ & _ & L3 & L4).
  destruct (lags_leads p W syms _ c' A C') as (_ & _ & M3 & M4). cbn [o_leads o_min_leads] in M3, M4.
  destruct (o_leads o) as [z|] eqn:E.
  - rewrite (L3 z eq_refl), (M3 z eq_refl). reflexivity.
  - destruct (L4 eq_refl) as (m & Em & ->). destruct (M4 eq_refl) as (m' & Em' & ->). congruence.
Qed.

(* which exception: a name in two classes, with every statement well formed and no double definition -> SymbolError;
   a double definition with no name in two classes -> ParserError *)
Theorem conflict_gives_SymbolError p a b : wf_program p = true ->
  existsb stmt_rejected p = false ->
  (forall a' b', In a' (amentions p) -> In b' (amentions p) -> aname a' = aname b' -> ~ two_texts a' b') ->
  In a (amentions p) -> In b (amentions p) -> aname a = aname b -> clash (atype a) (atype b) ->
  program_symbols p = Raise SymbolError.
Proof.
  intros W NR NT Ia Ib N C. destruct (conflict_rejected p W a b Ia Ib N C) as (x & A & _). rewrite A. f_equal.
  destruct (rejection_classes p W x A) as [(_ & R)|[(E & _)|(_ & a' & b' & Ia' & Ib' & N' & T)]]; [congruence|exact E|].
  exfalso. apply (NT a' b' Ia' Ib' N' T).
Qed.
Theorem double_definition_gives_ParserError p a b : wf_program p = true ->
  (forall a' b', In a' (amentions p) -> In b' (amentions p) -> aname a' = aname b' -> ~ clash (atype a') (atype b')) ->
  In a (amentions p) -> In b (amentions p) -> aname a = aname b -> two_texts a b ->
  program_symbols p = Raise ParserError.
Proof.
  intros W NC Ia Ib N T. destruct (double_definition_rejected p W a b Ia Ib N T) as (x & A & _). rewrite A. f_equal.
  destruct (rejection_classes p W x A) as [(E & _)|[(_ & a' & b' & Ia' & Ib' & N' & C)|(E & _)]]; [exact E| |exact E].
  exfalso. apply (NC a' b' Ia' Ib' N' C).
Qed.

(* in an accepted program a name that is called as a function is used as nothing else (b45daa1): it is in none of the classes,
   and every classified name is never called *)
Theorem function_names_are_not_variables p syms x : wf_program p = true -> program_symbols p = Ret syms ->
  mentioned_as TFunction x (mentions p) = true ->
  is_endogenous p x = false /\ is_exogenous p x = false /\ is_parameter p x = false /\ is_error p x = false.
Proof.
  intros W A F. destruct (accepted_table p W syms A) as (d & _ & HD & _).
  rewrite <- amentions_terms in F. apply mentioned_as_iff in F as (a & Ia & Na & Ta).
  assert (X : forall ty, ty <> TFunction -> mentioned_as ty x (mentions p) = false).
  { intros ty Nty. destruct (mentioned_as ty x (mentions p)) eqn:M; [|reflexivity]. exfalso.
    rewrite <- amentions_terms in M. apply mentioned_as_iff in M as (b & Ib & Nb & Tb).
    apply (accepted_no_clash p d HD a b Ia Ib); [congruence|]. unfold clash. rewrite Ta, Tb. split; [congruence|reflexivity]. }
  unfold is_endogenous, is_exogenous, is_parameter, is_error.
  rewrite (X TEndogenous), (X TExogenous), (X TParameter), (X TError) by discriminate. repeat split; reflexivity.
Qed.
