(* BuildDefExamples.v — instances for the C15 theorems, including both sub-cases of build_model's BuildError
   (fix 56579cc: a text that does not compile never yields a class). *)
From Coq Require Import String Ascii List Bool Arith ZArith Lia.
Import ListNotations.
Require Import PyBase Generated PyStr Symbols ParseEq ParseModel Classify BuildDef BuildDefFacts.
Open Scope string_scope.

Definition sY : symbol := mkSymbol (Some "Y") TEndogenous (Some (IInt 0)) (Some (IInt 0)) (Some "Y[t] = X[t-1]") (Some "self._Y[t] = self._X[t-1]").
Definition sX : symbol := mkSymbol (Some "X") TExogenous (Some (IInt (-1))) (Some (IInt 0)) None None.
Definition sZ : symbol := mkSymbol (Some "Z") TEndogenous (Some (IInt 0)) (Some (IInt 0)) (Some "Z[t] = Y[t]") (Some "self._Z[t] = self._Y[t]").
Definition sV : symbol := mkSymbol None TVerbatim None None (Some ("```" ++ nl_s ++ "foo = 1" ++ nl_s ++ "```")) (Some "foo = 1").
(* an endogenous symbol without code: contributes its name, no code *)
Definition sW : symbol := mkSymbol (Some "W") TEndogenous (Some (IInt 0)) (Some (IInt 0)) None None.

Example emits_examples : map emits [sY; sX; sZ; sV; sW] = [true; false; true; true; false].
Proof. reflexivity. Qed.

Example default_converter_example :
  default_converter sY = "# Y[t] = X[t-1]" ++ nl_s ++ "self._Y[t] = self._X[t-1]" /\
  default_converter sV = "# ```" ++ nl_s ++ "# foo = 1" ++ nl_s ++ "# ```" ++ nl_s ++ "foo = 1".
Proof. split; vm_compute; reflexivity. Qed.

Example indent_example :
  indent "    " ("a" ++ nl_s ++ nl_s ++ "  " ++ nl_s ++ " b") = "    a" ++ nl_s ++ nl_s ++ "  " ++ nl_s ++ "     b".
Proof. vm_compute. reflexivity. Qed.

Example repr_examples :
  py_repr_names [Some "Y"; Some "a'b"; None; Some ("q" ++ nl_s)] = "['Y', " ++ String dq ("a'b" ++ String dq (", None, 'q\n']")).
Proof. vm_compute. reflexivity. Qed.

Example block_example :
  equations_block (snd (expressions unit conv_code tt [sY; sX; sZ; sW])) =
  "        self._Y[t] = self._X[t-1]" ++ nl_s ++ nl_s ++ "        self._Z[t] = self._Y[t]" /\
  equations_block (snd (expressions unit conv_code tt [sX; sW])) = "        pass" /\
  equations_block (snd (expressions unit conv_empty tt [sY; sZ])) = nl_s ++ nl_s.
Proof. repeat split; vm_compute; reflexivity. Qed.

(* the counting converter sees the emitting symbols once each, in order *)
Example counting_example :
  expressions nat conv_count 0 [sY; sX; sV; sW; sZ] =
  (3, ["# call 0" ++ nl_s ++ "self._Y[t] = self._X[t-1]"; "# call 1" ++ nl_s ++ "foo = 1"; "# call 2" ++ nl_s ++ "self._Z[t] = self._Y[t]"]).
Proof. vm_compute. reflexivity. Qed.

Example class_example : class_of [sY; sX; sZ; sV; sW] default_opts = Ret (mkClass [Some "Y"; Some "Z"; Some "W"] [Some "X"] [] [] 1 0).
Proof. vm_compute. reflexivity. Qed.

(* the generated text of both variants exists for these symbols *)
Example build_def_example :
  exists t1 t2, build_def unit conv_default tt [sY; sX; sZ; sV; sW] default_opts true = (tt, POk t1) /\
                build_def unit conv_default tt [sY; sX; sZ; sV; sW] default_opts false = (tt, POk t2) /\ t1 <> t2.
Proof.
  eexists. eexists. split; [vm_compute; reflexivity|]. split; [vm_compute; reflexivity|].
  intros H. apply (f_equal String.length) in H. vm_compute in H. discriminate.
Qed.

(* ---------- the SyntaxError fallback ---------- *)
Fixpoint contains (sub s : string) : bool :=
  match s with
  | "" => match sub with "" => true | _ => false end
  | String _ r => startswith sub s || contains sub r
  end.
(* a toy exec: the "class" is the text itself; a text containing `x = (` does not compile *)
Definition toy_exec (text : string) : exec_res string := if contains "x = (" text then ExecSyntaxError else ExecOk text.

(* fix 56579cc: a converter whose output does not compile -> BuildError although every single symbol, alone and with the
   default converter, compiles (listed = false); with a symbol whose own code does not compile, listed = true *)
Example build_model_broken_converter :
  build_model_M unit string conv_broken toy_exec tt [sY; sX; sZ] default_opts true = (tt, BuildError false) /\
  (exists text, snd (build_def unit conv_broken tt [sY; sX; sZ] default_opts true) = POk text /\ toy_exec text = ExecSyntaxError).
Proof. split; [vm_compute; reflexivity|eexists; split; vm_compute; reflexivity]. Qed.
Definition sB : symbol := mkSymbol (Some "B") TEndogenous (Some (IInt 0)) (Some (IInt 0)) (Some "B[t] = (") (Some "x = (").
Example build_model_broken_symbol :
  build_model_M unit string conv_default toy_exec tt [sY; sB] default_opts true = (tt, BuildError true).
Proof. vm_compute. reflexivity. Qed.

(* with a converter whose output compiles, the same symbols give exec(text) *)
Example build_model_ok :
  exists text, build_model_M unit string conv_default toy_exec tt [sY; sX; sZ] default_opts true = (tt, Built text text).
Proof. eexists. vm_compute. reflexivity. Qed.
