(* BuildNamespace.v — what the generated class text needs from the namespace it is executed in (property C15), and the
   NAMES / CHECK lines of the regenerated templates.
   KNOWN FINDING (reviewer-E): the property says "in a namespace that provides BaseModel".  The typed text (the default,
   with_type_hints=True) evaluates the annotations `List[str]`, `Optional[int]`, `Any` when the class body and the `def`s
   are executed, so a namespace with BaseModel alone raises NameError; the untyped text names nothing but BaseModel at
   class-creation time.  (np is needed only when _evaluate runs code that uses exp / log.) *)
From Coq Require Import String Ascii List Bool Arith.
Import ListNotations.
Require Import PyBase Generated PyStr Symbols ParseEq ParseModel Classify BuildDef BuildDefFacts BuildDefExamples.
Open Scope string_scope.

Lemma startswith_app sub a b : startswith sub a = true -> startswith sub (a ++ b) = true.
Proof.
  unfold startswith. revert a. induction sub as [|c sub IH]; intros a H; [destruct (a ++ b); reflexivity|].
  destruct a as [|x a]; [discriminate|]. cbn [append prefix_rest] in *. destruct (Ascii.eqb c x); [apply IH; exact H|discriminate].
Qed.
Lemma contains_app_l sub a b : contains sub a = true -> contains sub (a ++ b) = true.
Proof.
  induction a as [|c a IH]; intros H.
  - cbn in H. destruct sub; [|discriminate]. destruct b; reflexivity.
  - cbn [append contains] in *. apply orb_true_iff in H as [H|H]; apply orb_true_iff; [left|right; apply IH, H].
    apply (startswith_app sub (String c a) b H).
Qed.

(* every typed class text — whatever the symbols, options and converter — contains an annotation `List[str]` in its very first
   segment (the line `ENDOGENOUS: List[str] = …`, executed when the class body runs): a name other than BaseModel *)
Theorem exec_namespace_refuted : forall c eqs,
  contains "ENDOGENOUS: List[str] = " (fill true c eqs) = true /\
  contains "Optional[int]" model_template_typed = true /\ contains ": Any" model_template_typed = true.
Proof.
  intros c eqs. split; [|split; vm_compute; reflexivity].
  unfold fill. apply contains_app_l. vm_compute. reflexivity.
Qed.
(* the untyped template mentions none of them *)
Theorem untyped_names_nothing_else :
  contains "List" model_template_untyped = false /\ contains "Optional" model_template_untyped = false /\
  contains "Any" model_template_untyped = false /\ contains "np." model_template_untyped = false.
Proof. repeat split; vm_compute; reflexivity. Qed.

(* the NAMES and CHECK lines of the regenerated templates (segment 4, between the ERRORS literal and the LAGS literal) *)
Theorem names_and_check_lines :
  seg false 4 = nl_s ++ nl_s ++ "    NAMES = ENDOGENOUS + EXOGENOUS + PARAMETERS + ERRORS" ++ nl_s ++ "    CHECK = ENDOGENOUS" ++ nl_s ++ nl_s ++ "    LAGS = " /\
  seg true 4 = nl_s ++ nl_s ++ "    NAMES: List[str] = ENDOGENOUS + EXOGENOUS + PARAMETERS + ERRORS" ++ nl_s ++ "    CHECK: List[str] = ENDOGENOUS" ++ nl_s ++ nl_s ++ "    LAGS: int = " /\
  erase_hints (seg true 4) = seg false 4.
Proof. repeat split; vm_compute; reflexivity. Qed.

(* the block sits inside _evaluate: segment 6 contains the header of `def _evaluate(` and ENDS with the closing quotes of its
   docstring and a newline; nothing follows the block (segment 7 is empty) *)
Definition ends_with (sub s : string) : bool := startswith (rev_str sub "") (rev_str s "").
Theorem block_follows_evaluate_docstring h :
  contains "    def _evaluate(self, t" (seg h 6) = true /\
  ends_with ("        """""""  ++ nl_s) (seg h 6) = true /\ seg h 7 = "".
Proof. destruct h; repeat split; vm_compute; reflexivity. Qed.

(* KEPT FINDING (reviewer2-E): "inserted verbatim" — textwrap.indent prefixes every non-blank line, also a continuation line
   INSIDE a multi-line string literal of verbatim code, whose value therefore changes:  self.s = """a\n\nb"""  becomes a literal
   whose last line is `        b` *)
Definition tq : string := String dq (String dq (String dq "")).
Theorem indent_inside_string_literal_refuted :
  indent eq_prefix ("self.s = " ++ tq ++ "a" ++ nl_s ++ nl_s ++ "b" ++ tq) =
  "        self.s = " ++ tq ++ "a" ++ nl_s ++ nl_s ++ "        b" ++ tq.
Proof. vm_compute. reflexivity. Qed.
