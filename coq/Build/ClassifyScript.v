(* ClassifyScript.v — from script text to programs (property C03): every script the parser model accepts is a
   program in the sense of Classify.v (its statements after lexing), the accepted symbol list is that program's
   symbol list, and the program's terms are well formed.  So the theorems of ClassifyMain hold for every script. *)
From Coq Require Import String Ascii List Bool Arith ZArith Lia.
Import ListNotations.
Require Import Generated PyBase PyStr Lex Format Symbols SymbolsFacts Split Merge MergeFacts ParseEq ParseModel Classify ClassifyProgram.
Open Scope string_scope.

(* one statement of the script after lexing: None for a blank statement *)
Definition stmt_view (equation : string) : pres (option stmt) :=
  if is_blank equation then POk None
  else
    match split_M equation with
    | (_, Some e) => PErr e
    | (stmts, None) =>
      if negb (length stmts =? 1)%nat then PErr ParserError
      else if head_is "`" equation && last_is "`" equation then
        POk (Some (SVerb equation (strip_chars ["`"; cr; nl]%char equation)))
      else if negb (count_char "{" equation =? count_char "}" equation)%nat then PErr ParserError
      else
        match find_any "=" equation with
        | None => PErr ParserError                  (* 1c7ed70: a statement without = is a ParserError *)
        | Some (lhs_text, rhs_text) =>
          match parse_terms lhs_text with
          | Raise e => PErr e
          | Ret l0 =>
            match parse_terms rhs_text with
            | Raise e => PErr e
            | Ret r0 =>
              match stmt_terms l0 r0 with
              | Raise e => PErr e
              | Ret terms =>
                let tpl := template equation in
                match all_some (map term_str terms), all_some (map term_code terms) with
                | Some strs, Some codes =>
                  match py_format tpl strs with
                  | FFail => PErr ParserError
                  | FUnmodelled => PUnmodelled
                  | FOk standardised =>
                    match py_format tpl codes with
                    | FFail => PErr ParserError
                    | FUnmodelled => PUnmodelled
                    | FOk code => POk (Some (SEq l0 r0 standardised code))
                    end
                  end
                | _, _ => PErr TypeError
                end
              end
            end
          end
        end
    end.

Definition view_symbols (v : pres (option stmt)) : pres (list symbol) :=
  match v with
  | POk None => POk []
  | POk (Some st) => of_outcome (stmt_symbols st)
  | PErr e => PErr e
  | PUnmodelled => PUnmodelled
  end.

Lemma parse_equation_view s : parse_equation_M s = view_symbols (stmt_view s).
Proof.
  unfold parse_equation_M, stmt_view, view_symbols.
  destruct (is_blank s); [reflexivity|].
  destruct (split_M s) as [stmts [e|]]; [reflexivity|].
  destruct (negb (length stmts =? 1)%nat); [reflexivity|].
  destruct (head_is "`" s && last_is "`" s); [reflexivity|].
  destruct (negb (count_char "{" s =? count_char "}" s)%nat); [reflexivity|].
  unfold parse_equation_terms. destruct (find_any "=" s) as [[lt rt]|]; [|reflexivity].
  destruct (parse_terms lt) as [l0|e]; [|reflexivity]. destruct (parse_terms rt) as [r0|e]; [|reflexivity].
  unfold stmt_symbols, stmt_terms.
  destruct (has_type TKeyword (map (replace_type TEndogenous) l0) || has_type TInvalid (map (replace_type TExogenous) r0)) eqn:C1; [reflexivity|].
  destruct (negb (has_type TEndogenous (map (replace_type TEndogenous) l0))) eqn:C2; [reflexivity|].
  destruct (all_some (map term_str _)) as [strs|]; [|reflexivity].
  destruct (all_some (map term_code _)) as [codes|]; [|reflexivity].
  destruct (py_format (template s) strs); try reflexivity.
  destruct (py_format (template s) codes); try reflexivity.
  rewrite ?C1, ?C2. reflexivity.
Qed.

(* the statements of a script that parse, in order (blank ones contribute nothing) *)
Fixpoint views (stmts : list string) : pres (list stmt) :=
  match stmts with
  | [] => POk []
  | s :: r =>
    match stmt_view s with
    | PErr e => PErr e
    | PUnmodelled => PUnmodelled
    | POk o => match views r with
               | POk p => POk (match o with Some st => st :: p | None => p end)
               | PErr e => PErr e
               | PUnmodelled => PUnmodelled
               end
    end
  end.
Definition script_program (model : string) : pres (list stmt) := views (fst (split_M model)).

Lemma parse_statements_views chk cs stmts : forall acc pb ls pb',
  parse_statements chk cs stmts acc pb = POk (ls, pb') ->
  exists p ls1 ls0, views stmts = POk p /\ program_by_equation p = Ret ls1 /\ ls = (rev acc ++ ls0)%list /\ concat ls0 = concat ls1.
Proof.
  induction stmts as [|s r IH]; intros acc pb ls pb' H; cbn [parse_statements views] in *.
  - inversion H; subst. exists [], [], []. rewrite app_nil_r. repeat split; reflexivity.
  - rewrite parse_equation_view in H. unfold view_symbols in H.
    destruct (stmt_view s) as [[st|]|e|]; try discriminate.
    + destruct (stmt_symbols st) as [syms|e] eqn:Es; cbn [of_outcome] in H; [|discriminate].
      assert (R : exists pb1, parse_statements chk cs r (syms :: acc) pb1 = POk (ls, pb')).
      { destruct cs; [|eauto]. destruct (check_codes chk (codes_of syms)); try discriminate; eauto. }
      destruct R as [pb1 R]. destruct (IH _ _ _ _ R) as (p & ls1 & ls0 & V & P & E & C).
      rewrite V. exists (st :: p), (syms :: ls1), (syms :: ls0). split; [reflexivity|]. split.
      * cbn [program_by_equation]. rewrite Es, P. reflexivity.
      * split; [rewrite E; cbn [rev]; rewrite <- app_assoc; reflexivity|cbn [concat]; rewrite C; reflexivity].
    + assert (R : exists pb1, parse_statements chk cs r ([] :: acc) pb1 = POk (ls, pb')).
      { destruct cs; [|eauto]. cbn in H. eauto. }
      destruct R as [pb1 R]. destruct (IH _ _ _ _ R) as (p & ls1 & ls0 & V & P & E & C).
      rewrite V. exists p, ls1, ([] :: ls0). split; [reflexivity|]. split; [exact P|].
      split; [rewrite E; cbn [rev]; rewrite <- app_assoc; reflexivity|exact C].
Qed.

(* every accepted script is a program, and its symbol list is the program's *)
Theorem parse_model_program chk cs model syms : parse_model_M chk cs model = POk syms ->
  exists p, script_program model = POk p /\ program_symbols p = Ret syms.
Proof.
  unfold parse_model_M, script_program. destruct (split_M model) as [stmts split_err]. cbn [fst].
  destruct (parse_statements chk cs stmts [] false) as [[ls pb]|e|] eqn:E; try discriminate.
  destruct split_err; [discriminate|]. destruct pb; [discriminate|]. intros H.
  destruct (parse_statements_views _ _ _ _ _ _ _ E) as (p & ls1 & ls0 & V & P & El & C). cbn in El. subst ls0.
  exists p. split; [exact V|]. unfold program_symbols. rewrite P.
  unfold merge_symbols in *. rewrite <- C. destruct (merge_go (concat ls) [] []); cbn in H; [inversion H; reflexivity|discriminate].
Qed.

(* the terms the lexer model produces are well formed *)
Lemma mk_term_wf m t : mk_term m = Ret t -> wf_term_b t = true.
Proof.
  unfold mk_term. destruct (mkind m); cbn; try (intros H; inversion H; reflexivity);
    destruct (mk_index (mindex m)); intros H; inversion H; reflexivity.
Qed.
Lemma map_o_forall {A B} (f : A -> outcome B) (P : B -> bool) l : (forall a b, f a = Ret b -> P b = true) ->
  forall bs, map_o f l = Ret bs -> forallb P bs = true.
Proof.
  intros H. induction l as [|a l IH]; cbn; intros bs E; [inversion E; reflexivity|].
  destruct (f a) as [b|] eqn:Ea; [|discriminate]. destruct (map_o f l) as [bs'|]; [|discriminate].
  inversion E; subst. cbn. rewrite (H a b Ea), (IH bs' eq_refl). reflexivity.
Qed.
Lemma parse_terms_wf s ts : parse_terms s = Ret ts -> forallb wf_term_b ts = true.
Proof. unfold parse_terms. apply map_o_forall. apply mk_term_wf. Qed.

Lemma stmt_view_wf s st : stmt_view s = POk (Some st) -> wf_stmt st = true.
Proof.
  unfold stmt_view. destruct (is_blank s); [discriminate|].
  destruct (split_M s) as [stmts [e|]]; [discriminate|].
  destruct (negb (length stmts =? 1)%nat); [discriminate|].
  destruct (head_is "`" s && last_is "`" s); [intros H; inversion H; reflexivity|].
  destruct (negb (count_char "{" s =? count_char "}" s)%nat); [discriminate|].
  destruct (find_any "=" s) as [[lt rt]|]; [|discriminate].
  destruct (parse_terms lt) as [l0|e] eqn:El; [|discriminate]. destruct (parse_terms rt) as [r0|e] eqn:Er; [|discriminate].
  destruct (stmt_terms l0 r0); [|discriminate].
  destruct (all_some (map term_str _)); [|discriminate]. destruct (all_some (map term_code _)); [|discriminate].
  destruct (py_format _ _); try discriminate. destruct (py_format _ _); try discriminate.
  intros H; inversion H; subst. cbn. rewrite (parse_terms_wf _ _ El), (parse_terms_wf _ _ Er). reflexivity.
Qed.
Lemma views_wf stmts : forall p, views stmts = POk p -> wf_program p = true.
Proof.
  induction stmts as [|s r IH]; cbn; intros p H; [inversion H; reflexivity|].
  destruct (stmt_view s) as [o|e|] eqn:Ev; try discriminate. destruct (views r) as [p'|e|]; try discriminate.
  inversion H; subst. destruct o as [st|]; [|apply IH; reflexivity].
  cbn [wf_program forallb]. rewrite (stmt_view_wf s st Ev). exact (IH p' eq_refl).
Qed.
Theorem script_program_wf model p : script_program model = POk p -> wf_program p = true.
Proof. apply views_wf. Qed.

Theorem accepted_script_program chk cs model syms : parse_model_M chk cs model = POk syms ->
  exists p, script_program model = POk p /\ wf_program p = true /\ program_symbols p = Ret syms.
Proof.
  intros H. destruct (parse_model_program chk cs model syms H) as (p & V & P). exists p. split; [exact V|]. split; [|exact P].
  eapply script_program_wf; eauto.
Qed.
