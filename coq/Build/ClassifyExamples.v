(* ClassifyExamples.v — instances showing that the hypotheses of the C03 theorems are satisfiable; the former witnesses
   of finding #19 (a FUNCTION symbol overwrote a variable) are now rejected with SymbolError (fix b45daa1). *)
From Coq Require Import String Ascii List Bool ZArith Lia.
Import ListNotations.
Require Import PyBase Generated PyStr Symbols SymbolsFacts Merge MergeFacts ParseEq ParseModel Classify ClassifyFacts ClassifyProgram ClassifyClass ClassifyMain ClassifyScript.
Open Scope string_scope.

Definition tv (x : string) (i : Z) : term := mkTerm x TVariable (Some (IInt i)).
Definition tp (x : string) (i : Z) : term := mkTerm x TParameter (Some (IInt i)).
Definition te (x : string) (i : Z) : term := mkTerm x TError (Some (IInt i)).
Definition tf (x : string) : term := mkTerm x TFunction None.
Definition ts (x : string) (s : string) : term := mkTerm x TVariable (Some (IStr s)).

(* Y = X[-1] + {a} * Z[2] + <e> ; Z = Y + exp(X['2000']) *)
Definition p1 : list stmt :=
  [SEq [tv "Y" 0] [tv "X" (-1); tp "a" 0; tv "Z" 2; te "e" 0] "Y[t] = X[t-1] + a[t] * Z[t+2] + e[t]" "c1";
   SEq [tv "Z" 0] [tv "Y" 0; tf "exp"; ts "X" "'2000'"] "Z[t] = Y[t] + exp(X['2000'])" "c2"].

Example p1_hypotheses : wf_program p1 = true.
Proof. vm_compute; reflexivity. Qed.
Example p1_class :
  match program_symbols p1 with
  | Ret syms => class_of syms default_opts =
                Ret (mkClass [Some "Y"; Some "Z"] [Some "X"] [Some "a"] [Some "e"] 1 2)
  | Raise _ => False
  end.
Proof. vm_compute. reflexivity. Qed.
Example p1_says : script_names p1 = ["Y"; "X"; "a"; "Z"; "e"; "exp"] /\ script_lags p1 = 1%Z /\ script_leads p1 = 2%Z /\
                  filter (is_endogenous p1) (script_names p1) = ["Y"; "Z"] /\ filter (is_exogenous p1) (script_names p1) = ["X"].
Proof. repeat split; vm_compute; reflexivity. Qed.
(* options: explicit values replace, minima only raise *)
Example p1_options :
  match program_symbols p1 with
  | Ret syms => class_of syms (mkOpts (Some 0%Z) None (Some 5%Z) (Some 1%Z)) =
                Ret (mkClass [Some "Y"; Some "Z"] [Some "X"] [Some "a"] [Some "e"] 0 2) /\
                class_of syms (mkOpts None None (Some 3%Z) (Some 0%Z)) =
                Ret (mkClass [Some "Y"; Some "Z"] [Some "X"] [Some "a"] [Some "e"] 3 2) /\
                class_of syms (mkOpts None None None (Some 0%Z)) = Raise TypeError
  | Raise _ => False
  end.
Proof. vm_compute. repeat split; reflexivity. Qed.

(* a name first on a right-hand side, assigned later: endogenous, at its first-appearance position *)
Definition p2 : list stmt := [SEq [tv "Y" 0] [tv "X" 0; tv "Z" 0] "e1" "c1"; SEq [tv "X" 0] [tv "W" 0] "e2" "c2"].
Example p2_class :
  match program_symbols p2 with
  | Ret syms => class_of syms default_opts = Ret (mkClass [Some "Y"; Some "X"] [Some "Z"; Some "W"] [] [] 0 0)
  | Raise _ => False
  end.
Proof. vm_compute. reflexivity. Qed.

(* rejections *)
Example var_and_param_rejected :
  program_symbols [SEq [tv "Y" 0] [tp "a" 0; tv "a" 0] "e" "c"] = Raise SymbolError /\
  program_symbols [SEq [tv "Y" 0] [tv "a" 0] "e1" "c1"; SEq [tv "Z" 0] [tp "a" 0] "e2" "c2"] = Raise SymbolError /\
  program_symbols [SEq [tv "Y" 0] [tp "a" 0] "e1" "c1"; SEq [tv "Z" 0] [tv "a" 0] "e2" "c2"] = Raise SymbolError /\
  program_symbols [SEq [tv "Y" 0] [te "a" 0] "e1" "c1"; SEq [tv "Z" 0] [tp "a" 0] "e2" "c2"] = Raise SymbolError.
Proof. repeat split; vm_compute; reflexivity. Qed.
Example double_definition :
  program_symbols [SEq [tv "Y" 0] [tv "X" 0] "Y[t] = X[t]" "c1"; SEq [tv "Y" 0] [tv "Z" 0] "Y[t] = Z[t]" "c2"] = Raise ParserError /\
  (exists syms, program_symbols [SEq [tv "Y" 0] [tv "X" 0] "Y[t] = X[t]" "c1"; SEq [tv "Y" 0] [tv "X" 0] "Y[t] = X[t]" "c1"] = Ret syms).
Proof. split; [vm_compute; reflexivity|eexists; vm_compute; reflexivity]. Qed.
Example statement_rejected :
  program_symbols [SEq [tp "p" 0] [tv "X" 0] "e" "c"] = Raise ParserError /\
  program_symbols [SEq [mkTerm "if" TKeyword None; tv "Y" 0] [tv "X" 0] "e" "c"] = Raise ParserError.
Proof. split; vm_compute; reflexivity. Qed.

(* ---------- finding #19, repaired (b45daa1) ---------- *)
(* Y = exp + exp(X)  and  Y = exp(X) + exp : a name used as a variable and called as a function in one equation is rejected
   in either order; so is  Y = {a} + a(X) *)
Definition p19 : list stmt := [SEq [tv "Y" 0] [tv "exp" 0; tf "exp"; tv "X" 0] "Y[t] = exp[t] + exp(X[t])" "c"].
Example function_and_variable_rejected :
  program_symbols p19 = Raise SymbolError /\
  program_symbols [SEq [tv "Y" 0] [tf "exp"; tv "X" 0; tv "exp" 0] "e" "c"] = Raise SymbolError /\
  program_symbols [SEq [tv "Y" 0] [tp "a" 0; tf "a"; tv "X" 0] "e" "c"] = Raise SymbolError /\
  program_symbols [SEq [tf "Y"; tv "Y" 0] [tv "X" 0] "e" "c"] = Raise SymbolError.
Proof. repeat split; vm_compute; reflexivity. Qed.
(* Y = a + a(1) ; Z = {a} + a(1) : formerly accepted (both statements yielded the FUNCTION symbol a) *)
Definition pC : list stmt :=
  [SEq [tv "Y" 0] [tv "a" 0; tf "a"] "e1" "c1"; SEq [tv "Z" 0] [tp "a" 0; tf "a"] "e2" "c2"].
Example masked_conflict_rejected : program_symbols pC = Raise SymbolError.
Proof. vm_compute. reflexivity. Qed.
(* repeated calls of one function collapse to one FUNCTION symbol, in no list *)
Example repeated_calls :
  match program_symbols [SEq [tv "Y" 0] [tf "exp"; tv "X" 0; tf "exp"; tv "Z" 0] "e" "c"; SEq [tv "W" 0] [tf "exp"; tv "Y" 0] "e2" "c2"] with
  | Ret syms => map sname syms = [Some "Y"; Some "exp"; Some "X"; Some "Z"; Some "W"] /\
                class_of syms default_opts = Ret (mkClass [Some "Y"; Some "W"] [Some "X"; Some "Z"] [] [] 0 0)
  | Raise _ => False
  end.
Proof. vm_compute. split; reflexivity. Qed.
(* the hypotheses of function_clash_rejected are satisfiable *)
Example function_clash_hypotheses :
  wf_program p19 = true /\
  exists a b, In a (amentions p19) /\ In b (amentions p19) /\ aname a = aname b /\ atype a = TFunction /\ atype b <> TFunction.
Proof.
  split; [reflexivity|]. exists (mkA (tf "exp") "Y[t] = exp[t] + exp(X[t])" "c"), (mkA (mkTerm "exp" TExogenous (Some (IInt 0))) "Y[t] = exp[t] + exp(X[t])" "c").
  split; [vm_compute; auto 10|]. split; [vm_compute; auto 10|]. split; [reflexivity|]. split; [reflexivity|discriminate].
Qed.

(* ---------- the default range ---------- *)
Example default_range_examples :
  default_range 5 1 2 = Ret [1; 2]%Z /\ default_range 4 1 2 = Ret [1]%Z /\ default_range 3 1 1 = Ret [1]%Z /\
  default_range 3 2 1 = Ret [] /\ default_range 2 2 1 = Raise IndexError /\ default_range 2 0 2 = Raise IndexError /\
  default_range 0 0 0 = Raise (SolutionError None) /\ default_range 3 0 0 = Ret [0; 1; 2]%Z /\
  default_range 3 (-1) 0 = Ret [-1]%Z /\ default_range 5 3 (-1) = Ret [3; 4]%Z /\ default_range 3 3 0 = Raise IndexError /\ default_range 3 0 3 = Raise IndexError.
Proof. repeat split; vm_compute; reflexivity. Qed.

(* ---------- from the text ---------- *)
Example script_program_example :
  script_program ("Y = X[-1] + {a}" ++ nl_s ++ "X = Y[1]") =
  POk [SEq [tv "Y" 0] [tv "X" (-1); tp "a" 0] "Y[t] = X[t-1] + a[t]" "self._Y[t] = self._X[t-1] + self._a[t]";
       SEq [tv "X" 0] [tv "Y" 1] "X[t] = Y[t+1]" "self._X[t] = self._Y[t+1]"] /\
  exists syms, parse_model_nocheck ("Y = X[-1] + {a}" ++ nl_s ++ "X = Y[1]") = POk syms.
Proof. split; [vm_compute; reflexivity|eexists; vm_compute; reflexivity]. Qed.

(* ---------- the hypotheses of the rejection theorems are satisfiable ---------- *)
Definition pR : list stmt := [SEq [tv "Y" 0] [tv "a" 0] "e1" "c1"; SEq [tv "Z" 0] [tp "a" 0] "e2" "c2"].
Example conflict_hypotheses :
  wf_program pR = true /\
  exists a b, In a (amentions pR) /\ In b (amentions pR) /\ aname a = aname b /\ clash (atype a) (atype b).
Proof.
  split; [reflexivity|].
  exists (mkA (mkTerm "a" TExogenous (Some (IInt 0))) "e1" "c1"), (mkA (tp "a" 0) "e2" "c2").
  split; [vm_compute; auto|]. split; [vm_compute; auto 10|]. split; [reflexivity|]. split; [discriminate|reflexivity].
Qed.
Definition pD : list stmt := [SEq [tv "Y" 0] [tv "X" 0] "Y[t] = X[t]" "c1"; SEq [tv "Y" 0] [tv "Z" 0] "Y[t] = Z[t]" "c2"].
Example double_definition_hypotheses :
  wf_program pD = true /\
  exists a b, In a (amentions pD) /\ In b (amentions pD) /\ aname a = aname b /\ two_texts a b.
Proof.
  split; [reflexivity|].
  exists (mkA (mkTerm "Y" TEndogenous (Some (IInt 0))) "Y[t] = X[t]" "c1"), (mkA (mkTerm "Y" TEndogenous (Some (IInt 0))) "Y[t] = Z[t]" "c2").
  split; [vm_compute; auto|]. split; [vm_compute; auto 10|]. split; [reflexivity|].
  split; [reflexivity|]. split; [reflexivity|]. left. discriminate.
Qed.
