(* BuildRoutesFacts.v — reading a generated class text gives back the fields it was generated from; hence the four
   routes to a class (build_model, exec of the typed / untyped definition text, exec of CODE) yield the same class
   tuple, and so the same value of every function of the class — its evaluation semantics included (property C15). *)
From Coq Require Import String Ascii List Bool Arith ZArith Lia DecimalString DecimalZ.
Import ListNotations.
Require Import PyBase Generated PyStr Symbols ParseEq ParseModel Classify BuildDef BuildRepr BuildReprFacts BuildDefFacts BuildRoutes.
Open Scope string_scope.

(* ---------- small string facts ---------- *)
Lemma prefix_rest_app k r : prefix_rest k (k ++ r) = Some r.
Proof. induction k as [|c k IH]; cbn; [destruct r; reflexivity|rewrite Ascii.eqb_refl; exact IH]. Qed.

Fixpoint all_chars (p : ascii -> bool) (s : string) : bool :=
  match s with "" => true | String c r => p c && all_chars p r end.
Definition head_fails (p : ascii -> bool) (s : string) : bool := match s with "" => true | String c _ => negb (p c) end.

Lemma span_while_app p a b : all_chars p a = true -> head_fails p b = true -> span_while p (a ++ b) = (a, b).
Proof.
  induction a as [|c a IH]; intros Ha Hb.
  - cbn [append]. destruct b as [|c b]; [reflexivity|]. cbn in Hb |- *. apply negb_true_iff in Hb. rewrite Hb. reflexivity.
  - cbn [all_chars] in Ha. apply andb_true_iff in Ha as [Hc Ha]. cbn [append span_while]. rewrite Hc, (IH Ha Hb). reflexivity.
Qed.

(* ---------- str(int) reads back ---------- *)
Lemma uint_chars d : all_chars is_intc (NilEmpty.string_of_uint d) = true.
Proof. induction d; cbn [NilEmpty.string_of_uint all_chars]; try reflexivity; rewrite IHd; reflexivity. Qed.
Lemma int_chars d : all_chars is_intc (NilZero.string_of_int d) = true.
Proof.
  destruct d as [u|u]; cbn [NilZero.string_of_int]; unfold NilZero.string_of_uint.
  - destruct u; try reflexivity; apply uint_chars.
  - cbn [all_chars]. destruct u; try reflexivity; apply (uint_chars).
Qed.
Lemma int_reads d : exists d', NilZero.int_of_string (NilZero.string_of_int d) = Some d' /\ Z.of_int d' = Z.of_int d.
Proof.
  destruct d as [u|u].
  - destruct u; try (eexists; split; [apply NilZero.isi; discriminate|reflexivity]).
    eexists. split; [apply NilZero.isi_posnil|reflexivity].
  - destruct u; try (eexists; split; [apply NilZero.isi; discriminate|reflexivity]).
    eexists. split; [apply NilZero.isi_negnil|reflexivity].
Qed.

Theorem read_int_roundtrip z rest : head_fails is_intc rest = true -> read_int (string_of_Z z ++ rest) = Some (z, rest).
Proof.
  intros H. unfold read_int, string_of_Z. rewrite (span_while_app _ _ _ (int_chars (Z.to_int z)) H).
  destruct (int_reads (Z.to_int z)) as (d' & E & Ez). rewrite E, Ez, DecimalZ.of_to. reflexivity.
Qed.

(* ---------- reading a generated text against its own template ---------- *)
Lemma seg_heads h : seg h 7 = "" /\ head_fails is_intc (seg h 5 ++ "0") = true /\ head_fails is_intc (seg h 6 ++ "0") = true.
Proof. destruct h; vm_compute; repeat split; reflexivity. Qed.
Lemma head_fails_app p a b : head_fails p (a ++ "0") = true -> p "0"%char = true -> head_fails p (a ++ b) = true.
Proof. destruct a; cbn; [intros H Hx; rewrite Hx in H; discriminate|auto]. Qed.

Theorem read_with_fill h c eqs : read_with (segments h) (fill h c eqs) = Some (tuple_of c eqs).
Proof.
  destruct (seg_heads h) as (S7 & H5 & H6).
  assert (N5 : forall b, head_fails is_intc (seg h 5 ++ b) = true) by (intros b; apply head_fails_app; [exact H5|reflexivity]).
  assert (N6 : forall b, head_fails is_intc (seg h 6 ++ b) = true) by (intros b; apply head_fails_app; [exact H6|reflexivity]).
  unfold read_with, fill. fold (seg h 7). rewrite S7. fold (seg h 0) (seg h 1) (seg h 2) (seg h 3) (seg h 4) (seg h 5) (seg h 6).
  rewrite prefix_rest_app, read_names_repr, prefix_rest_app, read_names_repr, prefix_rest_app, read_names_repr,
          prefix_rest_app, read_names_repr, prefix_rest_app.
  rewrite (read_int_roundtrip (c_lags c) _ (N5 _)), prefix_rest_app.
  rewrite (read_int_roundtrip (c_leads c) _ (N6 _)), prefix_rest_app.
  rewrite sapp_nil_r. reflexivity.
Qed.

(* an untyped text is not read by the typed template's segments (they part at `ENDOGENOUS:` / `ENDOGENOUS =`) *)
Lemma typed_segments_reject_untyped c eqs : read_with (segments true) (fill false c eqs) = None.
Proof.
  unfold read_with, fill. fold (seg true 7) (seg true 0).
  destruct typed_segment_heads as (T0 & _ & T7). destruct untyped_segment_heads as (U0 & _).
  rewrite T7, T0, U0. reflexivity.
Qed.

Theorem exec_fill h c eqs : exec_M (fill h c eqs) = Some (tuple_of c eqs).
Proof.
  unfold exec_M. destruct h.
  - rewrite read_with_fill. reflexivity.
  - rewrite typed_segments_reject_untyped, read_with_fill. reflexivity.
Qed.

(* ---------- the four routes ---------- *)
Section Routes.
  Variable St : Type.
  Variable conv : St -> symbol -> St * string.

  (* the class every route yields: the fields of class_of and the block of the converter run from state st *)
  Definition the_class (st : St) (syms : list symbol) (c : mclass) : ctuple :=
    tuple_of c (equations_block (snd (run St conv st (filter emits syms)))).

  Theorem four_routes st syms o c h : class_of syms o = Ret c ->
    let T := the_class st syms c in
    (* 1. build_model returns it, with CODE = the definition text *)
    (exists st' code, build_model_M St ctuple conv exec_oracle st syms o h = (st', Built T code) /\
                      snd (build_def St conv st syms o h) = POk code /\
                      (* 4. executing CODE again *)
                      exec_M code = Some T) /\
    (* 2., 3. executing the definition text, with and without type hints *)
    (exists t1, snd (build_def St conv st syms o true) = POk t1 /\ exec_M t1 = Some T) /\
    (exists t2, snd (build_def St conv st syms o false) = POk t2 /\ exec_M t2 = Some T).
  Proof.
    intros C T. unfold T, the_class.
    assert (B : forall h', build_def St conv st syms o h' =
                           (fst (run St conv st (filter emits syms)),
                            POk (fill h' c (equations_block (snd (run St conv st (filter emits syms))))))).
    { intros h'. rewrite build_def_spec, C. destruct (run St conv st (filter emits syms)); reflexivity. }
    split; [|split].
    - eexists. eexists. split; [|split].
      + apply build_model_is_exec_of_text; [apply B|]. unfold exec_oracle. rewrite exec_fill. reflexivity.
      + rewrite B. reflexivity.
      + apply exec_fill.
    - eexists. split; [rewrite B; reflexivity|apply exec_fill].
    - eexists. split; [rewrite B; reflexivity|apply exec_fill].
  Qed.

  (* hence whatever is computed from a class — its evaluation semantics `sem` on all data, solve(), … — is the same on
     every route *)
  Corollary routes_same_behaviour (B : Type) (sem : ctuple -> B) st syms o c t1 t2 T1 T2 :
    class_of syms o = Ret c ->
    snd (build_def St conv st syms o true) = POk t1 -> snd (build_def St conv st syms o false) = POk t2 ->
    exec_M t1 = Some T1 -> exec_M t2 = Some T2 -> sem T1 = sem T2.
  Proof.
    intros C B1 B2 E1 E2. destruct (four_routes st syms o c true C) as (_ & (u1 & U1 & X1) & (u2 & U2 & X2)).
    rewrite B1 in U1. rewrite B2 in U2. inversion U1; inversion U2; subst. rewrite E1 in X1. rewrite E2 in X2.
    inversion X1; inversion X2; subst. reflexivity.
  Qed.
End Routes.

(* the derived attributes *)
Theorem names_and_check c block :
  t_names (tuple_of c block) = c_names c /\ t_check (tuple_of c block) = c_endogenous c.
Proof. split; reflexivity. Qed.
