(* ClassifyFacts.v — the algebra of Symbol.combine and of the two symbol-table loops (property C03).

   A symbol in a table *summarises* a set S of annotated terms (the mentions of its name met so far):
     Pre v S   every mention's type is compatible with v's (equal, or both among VARIABLE / EXOGENOUS /
               ENDOGENOUS with v's at least as high in the regenerated enum) and v's type is the type of
               some mention; v's lag (lead) entry bounds every written offset and, unless it is 0, is one
               of them; v carries the equation/code of every assigning mention, and nothing else.
     Norm v    v's lag entry is an int <= 0, its lead entry an int >= 0 (true of everything that went
               through one `combine`).
   `combine` maps summaries of S1, S2 to a summary of their union; the loops are folds of that step;
   insertion order is order of first appearance.  Failing steps yield witnesses: SymbolError -> two
   mentions with incompatible types, ParserError -> two assigning mentions with different texts. *)
From Coq Require Import String Ascii List Bool ZArith Lia.
Import ListNotations.
Require Import PyBase Generated Symbols SymbolsFacts Merge MergeFacts ParseEq Classify.
Open Scope string_scope.

(* ---------- annotated terms ---------- *)
Record aterm : Type := mkA { a_term : term; a_eq : string; a_code : string }.
Definition atype (a : aterm) : ptype := ttype (a_term a).
Definition aname (a : aterm) : string := tname (a_term a).
Definition aoff (a : aterm) : Z := term_offset (a_term a).

(* ---------- type compatibility ---------- *)
Definition tcompat (a b : ptype) : Prop :=
  a = b \/ (is_variable_type a = true /\ is_variable_type b = true /\ (type_value a <= type_value b)%Z).

Lemma tcompat_refl a : tcompat a a.
Proof. left; reflexivity. Qed.
Lemma tcompat_trans a b c : tcompat a b -> tcompat b c -> tcompat a c.
Proof.
  intros [->|(Va & Vb & L1)] [->|(Vb' & Vc & L2)].
  - left; reflexivity.
  - right; auto.
  - right; auto.
  - right; repeat split; auto; lia.
Qed.
Lemma type_max_ge a b :
  (type_value a <= type_value (type_max a b) /\ type_value b <= type_value (type_max a b))%Z.
Proof. unfold type_max. destruct (type_value a <? type_value b)%Z eqn:E; lia. Qed.
Lemma tcompat_max_l a b : is_variable_type a = true -> is_variable_type b = true -> tcompat a (type_max a b).
Proof.
  intros Va Vb. right. repeat split; auto. apply type_max_variable; auto. apply type_max_ge.
Qed.
Lemma tcompat_max_r a b : is_variable_type a = true -> is_variable_type b = true -> tcompat b (type_max a b).
Proof.
  intros Va Vb. right. repeat split; auto. apply type_max_variable; auto. apply type_max_ge.
Qed.
Lemma tcompat_variable a b : tcompat a b -> is_variable_type b = is_variable_type a.
Proof. intros [->|(Va & Vb & _)]; congruence. Qed.
Lemma tcompat_unindexed a b : tcompat a b -> unindexed_type a = unindexed_type b.
Proof.
  intros [->|(Va & Vb & _)]; [reflexivity|].
  rewrite (variable_not_unindexed _ Va), (variable_not_unindexed _ Vb). reflexivity.
Qed.

(* the facts about the regenerated enum order that classification rests on *)
Lemma tcompat_endogenous b : tcompat TEndogenous b -> b = TEndogenous.
Proof. intros [<-|(_ & Vb & L)]; [reflexivity|]. destruct b; try discriminate; vm_compute in L; try reflexivity; exfalso; apply L; reflexivity. Qed.
Lemma tcompat_to_nonvariable a b : is_variable_type b = false -> tcompat a b -> a = b.
Proof. intros Nb [->|(_ & Vb & _)]; [reflexivity|congruence]. Qed.
Lemma tcompat_from_nonvariable a b : is_variable_type a = false -> tcompat a b -> a = b.
Proof. intros Na [->|(Va & _ & _)]; [reflexivity|congruence]. Qed.
Lemma tcompat_exogenous_cases b : tcompat TExogenous b -> b = TExogenous \/ b = TEndogenous.
Proof.
  intros [<-|(_ & Vb & L)]; [left; reflexivity|].
  destruct b; try discriminate; vm_compute in L; auto. exfalso; apply L; reflexivity.
Qed.
Lemma tcompat_into_exogenous a : tcompat a TExogenous -> a <> TEndogenous.
Proof.
  intros [->|(Va & _ & L)]; [discriminate|]. intros ->. vm_compute in L. apply L; reflexivity.
Qed.

(* ---------- inversion of combine ---------- *)
Lemma combine_inv a b c : combine a b = Ret c ->
  exists ty lg ld eq cd,
    ((stype a = stype b /\ ty = stype a) \/
     (stype a <> stype b /\ is_variable_type (stype a) = true /\ is_variable_type (stype b) = true /\
      ty = type_max (stype a) (stype b))) /\
    resolve_by_type_pair Z.min (slags a) (slags b) = Ret lg /\
    resolve_by_type_pair Z.max (sleads a) (sleads b) = Ret ld /\
    resolve_strings (sequation a) (sequation b) = Ret eq /\
    resolve_strings (scode a) (scode b) = Ret cd /\
    c = mkSymbol (sname a) ty lg ld eq cd.
Proof.
  unfold combine. intros H.
  assert (T : exists ty, (if type_eqb (stype a) (stype b) then Ret (stype a)
                          else if is_variable_type (stype a) && is_variable_type (stype b)
                               then Ret (type_max (stype a) (stype b)) else Raise SymbolError) = Ret ty /\
                         ((stype a = stype b /\ ty = stype a) \/
                          (stype a <> stype b /\ is_variable_type (stype a) = true /\ is_variable_type (stype b) = true /\
                           ty = type_max (stype a) (stype b)))).
  { destruct (type_eqb (stype a) (stype b)) eqn:Et.
    - apply type_eqb_eq in Et. eexists; split; [reflexivity|]. left; auto.
    - destruct (is_variable_type (stype a) && is_variable_type (stype b)) eqn:Ev.
      + apply andb_true_iff in Ev as [Va Vb]. eexists; split; [reflexivity|]. right. repeat split; auto.
        intros E. apply type_eqb_eq in E. congruence.
      + cbn [obind] in H. discriminate. }
  destruct T as (ty & Ety & Hty). rewrite Ety in H. cbn [obind] in H.
  destruct (resolve_by_type_pair Z.min (slags a) (slags b)) as [lg|] eqn:E1; cbn [obind] in H; [|discriminate].
  destruct (resolve_by_type_pair Z.max (sleads a) (sleads b)) as [ld|] eqn:E2; cbn [obind] in H; [|discriminate].
  destruct (resolve_strings (sequation a) (sequation b)) as [eq|] eqn:E3; cbn [obind] in H; [|discriminate].
  destruct (resolve_strings (scode a) (scode b)) as [cd|] eqn:E4; cbn [obind] in H; [|discriminate].
  inversion H; subst. exists ty, lg, ld, eq, cd. repeat split; auto.
Qed.

(* which exception a failing combine of well-formed symbols raises, and why *)
Lemma combine_raise_cases a b e : wf_symbol a = true -> wf_symbol b = true -> combine a b = Raise e ->
  (e = SymbolError /\ stype a <> stype b /\ (is_variable_type (stype a) && is_variable_type (stype b) = false)) \/
  (e = ParserError /\
   ((exists x y, sequation a = Some x /\ sequation b = Some y /\ x <> y) \/
    (exists x y, scode a = Some x /\ scode b = Some y /\ x <> y))).
Proof.
  intros Wa Wb. destruct (wf_symbol_inv a Wa) as [Ha1 Ha2]. destruct (wf_symbol_inv b Wb) as [Hb1 Hb2].
  unfold combine. intros H.
  assert (RS : forall x y e', resolve_strings x y = Raise e' ->
               e' = ParserError /\ exists u v, x = Some u /\ y = Some v /\ u <> v).
  { intros [u|] [v|] e'; cbn; try discriminate. destruct (String.eqb u v) eqn:Euv; [discriminate|].
    intros E; inversion E; subst. split; [reflexivity|]. exists u, v. repeat split; auto.
    intros ->. rewrite String.eqb_refl in Euv. discriminate. }
  destruct (type_eqb (stype a) (stype b)) eqn:Et.
  - cbn [obind] in H. apply type_eqb_eq in Et.
    assert (L : exists lg ld, resolve_by_type_pair Z.min (slags a) (slags b) = Ret lg /\
                              resolve_by_type_pair Z.max (sleads a) (sleads b) = Ret ld).
    { rewrite <- Et in Hb1, Hb2. destruct (unindexed_type (stype a)).
      - rewrite (resolve_pair_none _ _ _ Ha1 Hb1), (resolve_pair_none _ _ _ Ha2 Hb2). eauto.
      - destruct (resolve_pair_some Z.min _ _ Ha1 Hb1) as [z1 ->]. destruct (resolve_pair_some Z.max _ _ Ha2 Hb2) as [z2 ->]. eauto. }
    destruct L as (lg & ld & L1 & L2). rewrite L1, L2 in H. cbn [obind] in H.
    destruct (resolve_strings (sequation a) (sequation b)) eqn:E3; cbn [obind] in H.
    + destruct (resolve_strings (scode a) (scode b)) eqn:E4; cbn [obind] in H; [discriminate|].
      inversion H; subst. destruct (RS _ _ _ E4) as (-> & u & v & Hu & Hv & Huv). right. split; [reflexivity|]. right. eauto.
    + inversion H; subst. destruct (RS _ _ _ E3) as (-> & u & v & Hu & Hv & Huv). right. split; [reflexivity|]. left. eauto.
  - destruct (is_variable_type (stype a) && is_variable_type (stype b)) eqn:Ev; cbn [obind] in H.
    + apply andb_true_iff in Ev as [Va Vb].
      rewrite (variable_not_unindexed _ Va) in Ha1, Ha2. rewrite (variable_not_unindexed _ Vb) in Hb1, Hb2.
      destruct (resolve_pair_some Z.min _ _ Ha1 Hb1) as [z1 E1]. destruct (resolve_pair_some Z.max _ _ Ha2 Hb2) as [z2 E2].
      rewrite E1, E2 in H. cbn [obind] in H.
      destruct (resolve_strings (sequation a) (sequation b)) eqn:E3; cbn [obind] in H.
      * destruct (resolve_strings (scode a) (scode b)) eqn:E4; cbn [obind] in H; [discriminate|].
        inversion H; subst. destruct (RS _ _ _ E4) as (-> & u & v & Hu & Hv & Huv). right. split; [reflexivity|]. right. eauto.
      * inversion H; subst. destruct (RS _ _ _ E3) as (-> & u & v & Hu & Hv & Huv). right. split; [reflexivity|]. left. eauto.
    + inversion H; subst. left. repeat split; auto. intros E. apply type_eqb_eq in E. congruence.
Qed.

(* ---------- lag / lead summaries ---------- *)
Definition lag_pre (li : pidx) (S : aterm -> Prop) : Prop :=
  match li with
  | IInt z => (forall a, S a -> (Z.min z 0 <= aoff a)%Z) /\
              (Z.min z 0 = 0%Z \/ exists a, S a /\ aoff a = Z.min z 0)
  | IStr _ => forall a, S a -> aoff a = 0%Z
  end.
Definition lead_pre (ld : pidx) (S : aterm -> Prop) : Prop :=
  match ld with
  | IInt z => (forall a, S a -> (aoff a <= Z.max z 0)%Z) /\
              (Z.max z 0 = 0%Z \/ exists a, S a /\ aoff a = Z.max z 0)
  | IStr _ => forall a, S a -> aoff a = 0%Z
  end.

Lemma lag_pre_ext li (S S' : aterm -> Prop) : (forall a, S a <-> S' a) -> lag_pre li S -> lag_pre li S'.
Proof.
  intros E. destruct li as [z|s]; cbn.
  - intros [H1 H2]. split.
    + intros a Ha. apply H1, E, Ha.
    + destruct H2 as [H2|(a & Ha & H2)]; [left; exact H2|right; exists a; split; [apply E, Ha|exact H2]].
  - intros H a Ha. apply H, E, Ha.
Qed.
Lemma lead_pre_ext ld (S S' : aterm -> Prop) : (forall a, S a <-> S' a) -> lead_pre ld S -> lead_pre ld S'.
Proof.
  intros E. destruct ld as [z|s]; cbn.
  - intros [H1 H2]. split.
    + intros a Ha. apply H1, E, Ha.
    + destruct H2 as [H2|(a & Ha & H2)]; [left; exact H2|right; exists a; split; [apply E, Ha|exact H2]].
  - intros H a Ha. apply H, E, Ha.
Qed.

Lemma lag_pre_combine la lb lc (S1 S2 : aterm -> Prop) :
  resolve_by_type_pair Z.min (Some la) (Some lb) = Ret (Some lc) ->
  lag_pre la S1 -> lag_pre lb S2 -> lag_pre lc (fun a => S1 a \/ S2 a).
Proof.
  destruct la as [x|sx], lb as [y|sy]; cbn [resolve_by_type_pair]; intros E; inversion E; subst; clear E; cbn [lag_pre].
  - intros [B1 A1] [B2 A2]. split.
    + intros a [Ha|Ha]; [specialize (B1 a Ha)|specialize (B2 a Ha)]; lia.
    + destruct (Z.le_gt_cases (Z.min x 0) (Z.min y 0)) as [L|L].
      * replace (Z.min (Z.min (Z.min x y) 0) 0) with (Z.min x 0) by lia.
        destruct A1 as [A1|(a & Ha & A1)]; [left; exact A1|right; exists a; split; [left; exact Ha|exact A1]].
      * replace (Z.min (Z.min (Z.min x y) 0) 0) with (Z.min y 0) by lia.
        destruct A2 as [A2|(a & Ha & A2)]; [left; exact A2|right; exists a; split; [right; exact Ha|exact A2]].
  - intros [B1 A1] H2. split.
    + intros a [Ha|Ha]; [apply B1, Ha|rewrite (H2 a Ha); lia].
    + destruct A1 as [A1|(a & Ha & A1)]; [left; exact A1|right; exists a; split; [left; exact Ha|exact A1]].
  - intros H1 [B2 A2]. split.
    + intros a [Ha|Ha]; [rewrite (H1 a Ha); lia|apply B2, Ha].
    + destruct A2 as [A2|(a & Ha & A2)]; [left; exact A2|right; exists a; split; [right; exact Ha|exact A2]].
  - intros H1 H2. split.
    + intros a [Ha|Ha]; [rewrite (H1 a Ha)|rewrite (H2 a Ha)]; lia.
    + left; reflexivity.
Qed.
Lemma lead_pre_combine la lb lc (S1 S2 : aterm -> Prop) :
  resolve_by_type_pair Z.max (Some la) (Some lb) = Ret (Some lc) ->
  lead_pre la S1 -> lead_pre lb S2 -> lead_pre lc (fun a => S1 a \/ S2 a).
Proof.
  destruct la as [x|sx], lb as [y|sy]; cbn [resolve_by_type_pair]; intros E; inversion E; subst; clear E; cbn [lead_pre].
  - intros [B1 A1] [B2 A2]. split.
    + intros a [Ha|Ha]; [specialize (B1 a Ha)|specialize (B2 a Ha)]; lia.
    + destruct (Z.le_gt_cases (Z.max y 0) (Z.max x 0)) as [L|L].
      * replace (Z.max (Z.max (Z.max x y) 0) 0) with (Z.max x 0) by lia.
        destruct A1 as [A1|(a & Ha & A1)]; [left; exact A1|right; exists a; split; [left; exact Ha|exact A1]].
      * replace (Z.max (Z.max (Z.max x y) 0) 0) with (Z.max y 0) by lia.
        destruct A2 as [A2|(a & Ha & A2)]; [left; exact A2|right; exists a; split; [right; exact Ha|exact A2]].
  - intros [B1 A1] H2. split.
    + intros a [Ha|Ha]; [apply B1, Ha|rewrite (H2 a Ha); lia].
    + destruct A1 as [A1|(a & Ha & A1)]; [left; exact A1|right; exists a; split; [left; exact Ha|exact A1]].
  - intros H1 [B2 A2]. split.
    + intros a [Ha|Ha]; [rewrite (H1 a Ha); lia|apply B2, Ha].
    + destruct A2 as [A2|(a & Ha & A2)]; [left; exact A2|right; exists a; split; [right; exact Ha|exact A2]].
  - intros H1 H2. split.
    + intros a [Ha|Ha]; [rewrite (H1 a Ha)|rewrite (H2 a Ha)]; lia.
    + left; reflexivity.
Qed.

(* ---------- summaries ---------- *)
Definition Pre (v : symbol) (S : aterm -> Prop) : Prop :=
  wf_symbol v = true /\
  (forall a, S a -> tcompat (atype a) (stype v)) /\
  (exists a, S a /\ atype a = stype v) /\
  (unindexed_type (stype v) = false ->
     exists li ld, slags v = Some li /\ sleads v = Some ld /\ lag_pre li S /\ lead_pre ld S) /\
  (forall a, S a -> atype a = TEndogenous -> sequation v = Some (a_eq a) /\ scode v = Some (a_code a)) /\
  ((sequation v = None /\ scode v = None) \/
   exists a, S a /\ atype a = TEndogenous /\ sequation v = Some (a_eq a) /\ scode v = Some (a_code a)).

Definition Norm (v : symbol) : Prop :=
  unindexed_type (stype v) = false ->
  exists z z', slags v = Some (IInt z) /\ sleads v = Some (IInt z') /\ (z <= 0)%Z /\ (0 <= z')%Z.

Lemma Pre_ext v (S S' : aterm -> Prop) : (forall a, S a <-> S' a) -> Pre v S -> Pre v S'.
Proof.
  intros E (W & T2 & (a0 & Ha0 & T3) & L & E2 & E3). repeat split.
  - exact W.
  - intros a Ha. apply T2, E, Ha.
  - exists a0; split; [apply E, Ha0|exact T3].
  - intros U. destruct (L U) as (li & ld & H1 & H2 & H3 & H4). exists li, ld. repeat split; auto.
    + eapply lag_pre_ext; eauto.
    + eapply lead_pre_ext; eauto.
  - apply E2; [apply E, H|exact H0].
  - apply E2; [apply E, H|exact H0].
  - destruct E3 as [E3|(a & Ha & E3)]; [left; exact E3|right; exists a; split; [apply E, Ha|exact E3]].
Qed.

Lemma resolve_strings_ret x y r : resolve_strings x y = Ret r ->
  (x = None /\ r = y) \/ (y = None /\ r = x) \/ (exists u, x = Some u /\ y = Some u /\ r = Some u).
Proof.
  destruct x as [u|], y as [w|]; cbn.
  - destruct (String.eqb u w) eqn:E; [|discriminate]. apply String.eqb_eq in E. subst.
    intros H; inversion H. right; right; eauto.
  - intros H; inversion H; auto.
  - intros H; inversion H; auto.
  - intros H; inversion H; auto.
Qed.

(* the central step: combine maps summaries of S1 and S2 to a summary of their union *)
Lemma combine_pre a b c (S1 S2 : aterm -> Prop) :
  Pre a S1 -> Pre b S2 -> combine a b = Ret c -> Pre c (fun x => S1 x \/ S2 x) /\ sname c = sname a.
Proof.
  intros (Wa & Ta2 & (a1 & Sa1 & Ta3) & La & Ea2 & Ea3) (Wb & Tb2 & (b1 & Sb1 & Tb3) & Lb & Eb2 & Eb3) Hc.
  pose proof (combine_wf a b c Wa Wb Hc) as (Wc & Nc & _).
  destruct (combine_inv a b c Hc) as (ty & lg & ld & eq & cd & Hty & Hlg & Hld & Heq & Hcd & ->).
  cbn [sname]. split; [|reflexivity].
  assert (Ca : tcompat (stype a) ty /\ tcompat (stype b) ty /\ (ty = stype a \/ ty = stype b)).
  { destruct Hty as [(E & ->)|(_ & Va & Vb & ->)].
    - rewrite <- E. repeat split; try apply tcompat_refl. left; reflexivity.
    - repeat split; [apply tcompat_max_l|apply tcompat_max_r|apply type_max_cases]; auto. }
  destruct Ca as (Cta & Ctb & Cty).
  unfold Pre. cbn [stype slags sleads sequation scode]. repeat split.
  - exact Wc.
  - intros x [Hx|Hx]; [eapply tcompat_trans; [apply Ta2, Hx|exact Cta]|eapply tcompat_trans; [apply Tb2, Hx|exact Ctb]].
  - destruct Cty as [->| ->]; [exists a1; split; [left; exact Sa1|exact Ta3]|exists b1; split; [right; exact Sb1|exact Tb3]].
  - intros U.
    assert (Ua : unindexed_type (stype a) = false) by (rewrite (tcompat_unindexed _ _ Cta); exact U).
    assert (Ub : unindexed_type (stype b) = false) by (rewrite (tcompat_unindexed _ _ Ctb); exact U).
    destruct (La Ua) as (la & lda & Hla & Hlda & Pla & Plda).
    destruct (Lb Ub) as (lb & ldb & Hlb & Hldb & Plb & Pldb).
    rewrite Hla, Hlb in Hlg. rewrite Hlda, Hldb in Hld.
    assert (exists l, lg = Some l) as [l ->].
    { destruct la, lb; cbn in Hlg; inversion Hlg; eauto. }
    assert (exists l', ld = Some l') as [l' ->].
    { destruct lda, ldb; cbn in Hld; inversion Hld; eauto. }
    exists l, l'. repeat split; auto.
    + eapply lag_pre_combine; eauto.
    + eapply lead_pre_combine; eauto.
  - destruct H as [Hx|Hx].
    + destruct (Ea2 a0 Hx H0) as [Q1 Q2]. rewrite Q1 in Heq.
      destruct (resolve_strings_ret _ _ _ Heq) as [(F & _)|[(_ & ->)|(u & F & _ & ->)]]; [discriminate|reflexivity|congruence].
    + destruct (Eb2 a0 Hx H0) as [Q1 Q2]. rewrite Q1 in Heq.
      destruct (resolve_strings_ret _ _ _ Heq) as [(_ & ->)|[(F & _)|(u & _ & F & ->)]]; [reflexivity|discriminate|congruence].
  - destruct H as [Hx|Hx].
    + destruct (Ea2 a0 Hx H0) as [Q1 Q2]. rewrite Q2 in Hcd.
      destruct (resolve_strings_ret _ _ _ Hcd) as [(F & _)|[(_ & ->)|(u & F & _ & ->)]]; [discriminate|reflexivity|congruence].
    + destruct (Eb2 a0 Hx H0) as [Q1 Q2]. rewrite Q2 in Hcd.
      destruct (resolve_strings_ret _ _ _ Hcd) as [(_ & ->)|[(F & _)|(u & _ & F & ->)]]; [reflexivity|discriminate|congruence].
  - destruct Ea3 as [(Qa1 & Qa2)|(x & Sx & Tx & Qa1 & Qa2)].
    + rewrite Qa1 in Heq. rewrite Qa2 in Hcd. cbn in Heq, Hcd.
      assert (eq = sequation b) by (destruct (sequation b); inversion Heq; reflexivity).
      assert (cd = scode b) by (destruct (scode b); inversion Hcd; reflexivity).
      subst. destruct Eb3 as [Eb3|(y & Sy & Ty & Qb)]; [left; exact Eb3|right; exists y; split; [right; exact Sy|split; [exact Ty|exact Qb]]].
    + right. exists x. split; [left; exact Sx|]. split; [exact Tx|].
      rewrite Qa1 in Heq. rewrite Qa2 in Hcd. split.
      * destruct (resolve_strings_ret _ _ _ Heq) as [(F & _)|[(_ & ->)|(u & F & _ & ->)]]; [discriminate|reflexivity|congruence].
      * destruct (resolve_strings_ret _ _ _ Hcd) as [(F & _)|[(_ & ->)|(u & F & _ & ->)]]; [discriminate|reflexivity|congruence].
Qed.

Lemma combine_norm_l a b c : wf_symbol a = true -> wf_symbol b = true -> Norm a -> combine a b = Ret c -> Norm c.
Proof.
  intros Wa Wb Na Hc U.
  destruct (combine_inv a b c Hc) as (ty & lg & ld & eq & cd & Hty & Hlg & Hld & _ & _ & ->).
  cbn [stype slags sleads] in *.
  assert (Ua : unindexed_type (stype a) = false /\ unindexed_type (stype b) = false).
  { destruct Hty as [(E & ->)|(_ & Va & Vb & ->)].
    - rewrite <- E. auto.
    - split; apply variable_not_unindexed; auto. }
  destruct Ua as [Ua Ub]. destruct (Na Ua) as (z & z' & Hz & Hz' & L & L').
  destruct (wf_symbol_inv b Wb) as [Hb1 Hb2]. rewrite Ub in Hb1, Hb2.
  rewrite Hz in Hlg. rewrite Hz' in Hld.
  destruct (slags b) as [[y|sy]|]; cbn in Hb1; try discriminate;
  destruct (sleads b) as [[y'|sy']|]; cbn in Hb2; try discriminate;
  cbn in Hlg, Hld; inversion Hlg; inversion Hld; subst;
  eexists; eexists; (split; [reflexivity|]); (split; [reflexivity|]); lia.
Qed.
Lemma combine_norm_self a c : wf_symbol a = true -> combine a a = Ret c -> Norm c.
Proof.
  intros Wa Hc U.
  destruct (combine_inv a a c Hc) as (ty & lg & ld & eq & cd & Hty & Hlg & Hld & _ & _ & ->).
  cbn [stype slags sleads] in *.
  assert (ty = stype a) as -> by (destruct Hty as [(_ & ->)|(F & _)]; [reflexivity|congruence]).
  destruct (wf_symbol_inv a Wa) as [Ha1 Ha2]. rewrite U in Ha1, Ha2.
  destruct (slags a) as [[y|sy]|]; cbn in Ha1; try discriminate;
  destruct (sleads a) as [[y'|sy']|]; cbn in Ha2; try discriminate;
  cbn in Hlg, Hld; inversion Hlg; inversion Hld; subst;
  eexists; eexists; (split; [reflexivity|]); (split; [reflexivity|]); lia.
Qed.

(* ---------- dictionaries ---------- *)
Notation dict := (list (string * symbol)).

Lemma dict_get_set_eq {V} k (v : V) d : dict_get k (dict_set k v d) = Some v.
Proof.
  induction d as [|[k' v'] d IH]; cbn.
  - rewrite String.eqb_refl. reflexivity.
  - destruct (String.eqb k k') eqn:E; cbn; rewrite E; auto.
Qed.
Lemma dict_get_set_neq {V} k k' (v : V) d : k <> k' -> dict_get k' (dict_set k v d) = dict_get k' d.
Proof.
  intros N. induction d as [|[k2 v2] d IH]; cbn.
  - destruct (String.eqb k' k) eqn:E; [apply String.eqb_eq in E; congruence|reflexivity].
  - destruct (String.eqb k k2) eqn:E; cbn.
    + apply String.eqb_eq in E. subst k2.
      destruct (String.eqb k' k) eqn:E2; [apply String.eqb_eq in E2; congruence|reflexivity].
    + destruct (String.eqb k' k2); auto.
Qed.
Lemma dict_get_none_keys {V} k (d : list (string * V)) : dict_get k d = None <-> ~ In k (dict_keys d).
Proof.
  unfold dict_keys. induction d as [|[k' v'] d IH]; cbn.
  - split; auto.
  - destruct (String.eqb k k') eqn:E.
    + apply String.eqb_eq in E. subst. split; [discriminate|intros H; exfalso; apply H; left; reflexivity].
    + rewrite IH. split.
      * intros H [F|F]; [subst; rewrite String.eqb_refl in E; discriminate|auto].
      * intros H F. apply H. right; exact F.
Qed.
Lemma dict_set_same {V} k (v : V) d : dict_get k d = Some v -> dict_set k v d = d.
Proof.
  induction d as [|[k' v'] d IH]; cbn; [discriminate|].
  destruct (String.eqb k k') eqn:E.
  - intros H; inversion H; reflexivity.
  - intros H. rewrite (IH H). reflexivity.
Qed.

(* insertion order: a new key goes to the end, an existing key keeps its place *)
Definition add_new (acc : list string) (x : string) : list string := if mem_string x acc then acc else (acc ++ [x])%list.
Lemma mem_string_in x l : mem_string x l = true <-> In x l.
Proof.
  unfold mem_string. rewrite existsb_exists. split.
  - intros (y & Hy & E). apply String.eqb_eq in E. subst; exact Hy.
  - intros H. exists x. split; [exact H|apply String.eqb_refl].
Qed.
Lemma dict_keys_set {V} k (v : V) d : dict_keys (dict_set k v d) = add_new (dict_keys d) k.
Proof.
  unfold dict_keys, add_new, mem_string. induction d as [|[k' v'] d IH]; cbn.
  - reflexivity.
  - destruct (String.eqb k k') eqn:E; cbn.
    + reflexivity.
    + rewrite IH. destruct (existsb (String.eqb k) (map fst d)); reflexivity.
Qed.

Lemma nodup_snoc {A} (l : list A) x : NoDup l -> ~ In x l -> NoDup (l ++ [x]).
Proof.
  induction l as [|a l IH]; cbn; intros N H.
  - constructor; [intros []|constructor].
  - inversion N; subst. constructor.
    + intros F. apply in_app_or in F as [F|[F|[]]]; [auto|subst; apply H; left; reflexivity].
    + apply IH; auto.
Qed.
Lemma add_new_nodup acc x : NoDup acc -> NoDup (add_new acc x).
Proof.
  unfold add_new. destruct (mem_string x acc) eqn:E; auto. intros N. apply nodup_snoc; auto.
  intros F. apply mem_string_in in F. congruence.
Qed.
Lemma add_new_in acc x y : In y (add_new acc x) <-> In y acc \/ y = x.
Proof.
  unfold add_new. destruct (mem_string x acc) eqn:E.
  - apply mem_string_in in E. split; [auto|intros [H| ->]; auto].
  - rewrite in_app_iff. cbn. split; intros [H|H]; auto. destruct H as [->|[]]; auto.
Qed.
Lemma in_dict_get {V} k (v : V) d : NoDup (dict_keys d) -> In (k, v) d -> dict_get k d = Some v.
Proof.
  unfold dict_keys. induction d as [|[k' v'] d IH]; cbn; [intros _ []|]. intros N [H|H].
  - inversion H; subst. rewrite String.eqb_refl. reflexivity.
  - inversion N; subst. destruct (String.eqb k k') eqn:E.
    + apply String.eqb_eq in E; subst. exfalso. apply H2. apply in_map_iff. exists (k', v). auto.
    + apply IH; auto.
Qed.
Lemma dict_get_in_entries {V} k (v : V) d : dict_get k d = Some v -> In (k, v) d.
Proof.
  induction d as [|[k' v'] d IH]; cbn; [discriminate|].
  destruct (String.eqb k k') eqn:E.
  - apply String.eqb_eq in E; subst. intros H; inversion H; auto.
  - auto.
Qed.

(* ---------- the loop `symbols[name] = symbols.get(name, symbol).combine(symbol)` ---------- *)
Fixpoint feed (items : list (string * symbol)) (d : dict) : outcome dict :=
  match items with
  | [] => Ret d
  | (x, s) :: r => match dict_combine x s d with Ret d' => feed r d' | Raise e => Raise e end
  end.

Definition DInv (d : dict) (G : string -> aterm -> Prop) : Prop :=
  NoDup (dict_keys d) /\
  (forall k a, G k a -> In k (dict_keys d)) /\
  (forall k v, dict_get k d = Some v -> sname v = Some k /\ Pre v (G k) /\ Norm v).

Lemma DInv_ext d (G G' : string -> aterm -> Prop) : (forall k a, G k a <-> G' k a) -> DInv d G -> DInv d G'.
Proof.
  intros E (N & K & V). split; [exact N|]. split.
  - intros k a H. eapply K, E, H.
  - intros k v H. destruct (V k v H) as (A & B & C). split; [exact A|]. split; [|exact C].
    eapply Pre_ext; [|exact B]. intros a. apply E.
Qed.
Lemma DInv_nil : DInv [] (fun _ _ => False).
Proof.
  split; [constructor|]. split; [intros k a []|]. intros k v H. discriminate H.
Qed.

Definition clash (a b : ptype) : Prop := a <> b /\ (is_variable_type a && is_variable_type b = false).
Definition two_texts (a b : aterm) : Prop :=
  atype a = TEndogenous /\ atype b = TEndogenous /\ (a_eq a <> a_eq b \/ a_code a <> a_code b).

Lemma clash_not_tcompat a b c : clash a b -> tcompat a c -> tcompat b c -> False.
Proof.
  intros [N V] [->|(Va & Vc & _)] [->|(Vb & Vc' & _)].
  - congruence.
  - rewrite Vb, Vc' in V. discriminate.
  - rewrite Va, Vc in V. discriminate.
  - rewrite Va, Vb in V. discriminate.
Qed.

(* storing a summary of (G x ∪ P) under x *)
Lemma DInv_set d G x c (P : aterm -> Prop) :
  DInv d G -> sname c = Some x -> Pre c (fun a => G x a \/ P a) -> Norm c ->
  DInv (dict_set x c d) (fun k a => G k a \/ (k = x /\ P a)).
Proof.
  intros (N & K & V) Hn HP HN. split; [|split].
  - rewrite dict_keys_set. apply add_new_nodup, N.
  - intros k a [H|[-> H]]; rewrite dict_keys_set; apply add_new_in; [left; eapply K; eauto|right; reflexivity].
  - intros k v H. destruct (string_dec k x) as [->|Nk].
    + rewrite dict_get_set_eq in H. inversion H; subst v. split; [exact Hn|]. split; [|exact HN].
      eapply Pre_ext; [|exact HP]. intros a. cbn. split; [intros [Q|Q]; auto|intros [Q|[_ Q]]; auto].
    + rewrite dict_get_set_neq in H by congruence. destruct (V k v H) as (A & B & C).
      split; [exact A|]. split; [|exact C].
      eapply Pre_ext; [|exact B]. intros a. split; [auto|intros [Q|[Q _]]; [exact Q|congruence]].
Qed.

Lemma dict_combine_step x s (P : aterm -> Prop) d G :
  DInv d G -> sname s = Some x -> Pre s P ->
  match dict_combine x s d with
  | Ret d' => DInv d' (fun k a => G k a \/ (k = x /\ P a)) /\ dict_keys d' = add_new (dict_keys d) x
  | Raise e =>
    (e = SymbolError /\ exists a b, G x a /\ P b /\ clash (atype a) (atype b)) \/
    (e = ParserError /\ exists a b, G x a /\ P b /\ two_texts a b)
  end.
Proof.
  intros HD Hn HP. pose proof HD as (N & K & V). unfold dict_combine.
  destruct (dict_get x d) as [old|] eqn:Eg.
  - destruct (V x old Eg) as (No & Po & Nmo).
    destruct (combine old s) as [c|e] eqn:Ec.
    + destruct (combine_pre old s c _ _ Po HP Ec) as [Pc Nc]. split; [|apply dict_keys_set].
      apply DInv_set; [exact HD|congruence|exact Pc|].
      eapply combine_norm_l; [apply Po|apply HP|exact Nmo|exact Ec].
    + destruct Po as (Wo & To2 & (a1 & Sa1 & To3) & Lo & Eo2 & Eo3).
      destruct HP as (Ws & Ts2 & (b1 & Sb1 & Ts3) & Ls & Es2 & Es3).
      destruct (combine_raise_cases old s e Wo Ws Ec) as [(-> & Nt & Vt)|(-> & [(u & w & Hu & Hw & Nuw)|(u & w & Hu & Hw & Nuw)])].
      * left. split; [reflexivity|]. exists a1, b1. split; [exact Sa1|]. split; [exact Sb1|].
        unfold clash. rewrite To3, Ts3. split; assumption.
      * right. split; [reflexivity|].
        destruct Eo3 as [(F & _)|(a & Sa & Ta & Qa1 & Qa2)]; [congruence|].
        destruct Es3 as [(F & _)|(b & Sb & Tb & Qb1 & Qb2)]; [congruence|].
        exists a, b. split; [exact Sa|]. split; [exact Sb|]. split; [exact Ta|]. split; [exact Tb|]. left. congruence.
      * right. split; [reflexivity|].
        destruct Eo3 as [(_ & F)|(a & Sa & Ta & Qa1 & Qa2)]; [congruence|].
        destruct Es3 as [(_ & F)|(b & Sb & Tb & Qb1 & Qb2)]; [congruence|].
        exists a, b. split; [exact Sa|]. split; [exact Sb|]. split; [exact Ta|]. split; [exact Tb|]. right. congruence.
  - assert (Gx : forall a, ~ G x a).
    { intros a F. apply K in F. apply dict_get_none_keys in Eg. auto. }
    destruct (combine s s) as [c|e] eqn:Ec.
    + destruct (combine_pre s s c _ _ HP HP Ec) as [Pc Nc]. split; [|apply dict_keys_set].
      apply DInv_set; [exact HD|congruence| |].
      * eapply Pre_ext; [|exact Pc]. intros a. cbn. split; [intros [Q|Q]; auto|intros [Q|Q]; [exfalso; eapply Gx; eauto|auto]].
      * eapply combine_norm_self; [apply HP|exact Ec].
    + exfalso. destruct HP as (Ws & _).
      destruct (combine_raise_cases s s e Ws Ws Ec) as [(_ & Nt & _)|(_ & [(u & w & Hu & Hw & Nuw)|(u & w & Hu & Hw & Nuw)])]; congruence.
Qed.

(* items carry (as a ghost) the set of mentions they summarise *)
Notation gitem := (string * symbol * (aterm -> Prop))%type.
Definition ghost_of (gi : list gitem) : string -> aterm -> Prop :=
  fun k a => exists s P, In (k, s, P) gi /\ P a.
Definition gitem_ok (i : gitem) : Prop := sname (snd (fst i)) = Some (fst (fst i)) /\ Pre (snd (fst i)) (snd i).

Lemma ghost_of_cons x s P gi k a : ghost_of ((x, s, P) :: gi) k a <-> (k = x /\ P a) \/ ghost_of gi k a.
Proof.
  unfold ghost_of. cbn. split.
  - intros (s' & P' & [H|H] & Ha).
    + inversion H; subst. left; auto.
    + right; eauto.
  - intros [[-> Ha]|(s' & P' & H & Ha)].
    + exists s, P. auto.
    + exists s', P'. auto.
Qed.

Lemma feed_spec gi : forall d G,
  DInv d G -> Forall gitem_ok gi ->
  match feed (map fst gi) d with
  | Ret d' => DInv d' (fun k a => G k a \/ ghost_of gi k a) /\
              dict_keys d' = fold_left add_new (map (fun i : gitem => fst (fst i)) gi) (dict_keys d)
  | Raise e =>
    (e = SymbolError /\ exists k a b, (G k a \/ ghost_of gi k a) /\ ghost_of gi k b /\ clash (atype a) (atype b)) \/
    (e = ParserError /\ exists k a b, (G k a \/ ghost_of gi k a) /\ ghost_of gi k b /\ two_texts a b)
  end.
Proof.
  induction gi as [|[[x s] P] gi IH]; intros d G HD HF; cbn [map feed fst].
  - split; [|reflexivity]. eapply DInv_ext; [|exact HD]. intros k a. split; [auto|intros [H|(s & P & [] & _)]; exact H].
  - inversion HF as [|? ? [Hn HP] HF']; subst. cbn [fst snd] in Hn, HP.
    pose proof (dict_combine_step x s P d G HD Hn HP) as St.
    destruct (dict_combine x s d) as [d1|e].
    + destruct St as [HD1 K1].
      specialize (IH d1 _ HD1 HF').
      destruct (feed (map fst gi) d1) as [d'|e].
      * destruct IH as [HD' K']. split.
        -- eapply DInv_ext; [|exact HD']. intros k a. rewrite ghost_of_cons. tauto.
        -- cbn [map fold_left fst]. rewrite K', K1. reflexivity.
      * destruct IH as [(-> & k & a & b & Ha & Hb & Hc)|(-> & k & a & b & Ha & Hb & Hc)]; [left|right];
          (split; [reflexivity|]); exists k, a, b; rewrite !ghost_of_cons; tauto.
    + destruct St as [(-> & a & b & Ha & Hb & Hc)|(-> & a & b & Ha & Hb & Hc)]; [left|right];
        (split; [reflexivity|]); exists x, a, b; rewrite !ghost_of_cons; tauto.
Qed.

(* ---------- insertion order = order of first appearance ---------- *)
Definition dedup (l : list string) : list string := fold_left add_new l [].

Lemma fold_add_new_in l : forall acc y, In y (fold_left add_new l acc) <-> In y acc \/ In y l.
Proof.
  induction l as [|x l IH]; intros acc y; cbn.
  - tauto.
  - rewrite IH, add_new_in. intuition.
Qed.
Lemma fold_add_new_nodup l : forall acc, NoDup acc -> NoDup (fold_left add_new l acc).
Proof. induction l as [|x l IH]; intros acc N; cbn; auto. apply IH, add_new_nodup, N. Qed.
Lemma dedup_in l y : In y (dedup l) <-> In y l.
Proof. unfold dedup. rewrite fold_add_new_in. cbn. tauto. Qed.
Lemma dedup_nodup l : NoDup (dedup l).
Proof. apply fold_add_new_nodup. constructor. Qed.

Lemma filter_filter {A} (f g : A -> bool) l : filter f (filter g l) = filter (fun x => g x && f x) l.
Proof.
  induction l as [|a l IH]; cbn; auto.
  destruct (g a); cbn; [destruct (f a); cbn; rewrite IH; auto|auto].
Qed.
Lemma filter_true {A} (l : list A) : filter (fun _ => true) l = l.
Proof. induction l as [|a l IH]; cbn; congruence. Qed.

(* fold_left add_new from an accumulator = accumulator ++ the new names in order of first appearance *)
Lemma fold_add_new_app l : forall acc,
  fold_left add_new l acc = (acc ++ filter (fun y => negb (mem_string y acc)) (first_occurrences l))%list.
Proof.
  induction l as [|x l IH]; intros acc; cbn [fold_left first_occurrences].
  - cbn. rewrite app_nil_r. reflexivity.
  - rewrite IH. unfold add_new. cbn [filter]. destruct (mem_string x acc) eqn:E; cbn [negb].
    + f_equal. rewrite filter_filter. apply filter_ext. intros y.
      destruct (String.eqb x y) eqn:Exy; cbn; [|reflexivity].
      apply String.eqb_eq in Exy. subst. rewrite E. reflexivity.
    + rewrite <- app_assoc. cbn [app]. f_equal. f_equal. rewrite filter_filter. apply filter_ext. intros y.
      unfold mem_string. rewrite existsb_app. cbn. rewrite orb_false_r, negb_orb, andb_comm, (String.eqb_sym y x). reflexivity.
Qed.
Lemma dedup_first_occurrences l : dedup l = first_occurrences l.
Proof.
  unfold dedup. rewrite fold_add_new_app. cbn [app]. rewrite <- (filter_true (first_occurrences l)) at 2.
  apply filter_ext. intros y. reflexivity.
Qed.
