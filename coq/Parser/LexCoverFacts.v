(* LexCoverFacts.v — the term lexer loses no character and never runs past the end of its input.
   For every string s: every match of scan_items s has length >= 1 and ends inside s, and the characters
   outside the matches together with the match lengths add up to |s| (scan_items_cover).  So each character
   of a statement is either copied to the template or lies inside exactly one term match. *)
From Coq Require Import String Ascii List Bool Arith Lia.
Import ListNotations.
Require Import Generated PyStr Lex LexFacts.
Open Scope string_scope.
Open Scope nat_scope.

Fixpoint items_len (l : list item) : nat :=
  match l with
  | [] => 0
  | Chr _ :: r => 1 + items_len r
  | Tok _ m :: r => mlen m + items_len r
  end.

Lemma span_while_eq p s : forall a b, span_while p s = (a, b) -> s = a ++ b.
Proof.
  induction s as [|c s IH]; cbn [span_while]; intros a b.
  - intros H; inversion H; reflexivity.
  - destruct (p c).
    + destruct (span_while p s) as [a' b']. intros H; inversion H; subst. cbn. f_equal. apply IH. reflexivity.
    + intros H; inversion H; subst. reflexivity.
Qed.
Lemma span_while_len p s a b : span_while p s = (a, b) -> String.length s = String.length a + String.length b.
Proof. intros H. rewrite (span_while_eq p s a b H) at 1. apply length_app_s. Qed.
Lemma find_on_line_len ch s a b : find_on_line ch s = Some (a, b) -> String.length s = String.length a + 1 + String.length b.
Proof.
  revert a b. induction s as [|c s IH]; cbn [find_on_line]; intros a b; [discriminate|].
  destruct (Ascii.eqb c ch); [intros H; inversion H; subst; cbn; lia|].
  destruct (Ascii.eqb c nl); [discriminate|].
  destruct (find_on_line ch s) as [[a' b']|]; [|discriminate]. intros H; inversion H; subst.
  cbn [String.length]. rewrite (IH a' b eq_refl). lia.
Qed.
Lemma find_any_len ch s a b : find_any ch s = Some (a, b) -> String.length s = String.length a + 1 + String.length b.
Proof.
  revert a b. induction s as [|c s IH]; cbn [find_any]; intros a b; [discriminate|].
  destruct (Ascii.eqb c ch); [intros H; inversion H; subst; cbn; lia|].
  destruct (find_any ch s) as [[a' b']|]; [|discriminate]. intros H; inversion H; subst.
  cbn [String.length]. rewrite (IH a' b eq_refl). lia.
Qed.
Lemma prefix_rest_len k s r : prefix_rest k s = Some r -> String.length s = String.length k + String.length r.
Proof. intros H. rewrite (prefix_rest_some k s r H). apply length_app_s. Qed.

Definition fits (s : string) (m : tmatch) : Prop := 1 <= mlen m /\ mlen m <= String.length s.

Lemma index_group_len s inner n : index_group s = Some (inner, n) -> n <= String.length s.
Proof.
  destruct s as [|c r]; cbn [index_group]; [discriminate|].
  destruct (Ascii.eqb c "["); [|discriminate].
  destruct (find_any "]" r) as [[body rest]|] eqn:E; [|discriminate].
  destruct (has_nl (re_strip body)); [discriminate|]. intros H; inversion H; subst.
  cbn [String.length]. rewrite (find_any_len _ _ _ _ E). lia.
Qed.
Lemma with_index_len k name base after :
  base <= mlen (with_index k name base after) /\ mlen (with_index k name base after) <= base + String.length after.
Proof.
  unfold with_index. destruct (index_group after) as [[inner n]|] eqn:E; cbn [mlen]; [|lia].
  pose proof (index_group_len _ _ _ E). lia.
Qed.

Lemma try_verbatim_fits s m : try_verbatim s = Some m -> fits s m.
Proof.
  unfold try_verbatim, fits. destruct s as [|c [|c1 r1]]; try discriminate.
  destruct (Ascii.eqb c "`"); [|discriminate]. destruct (Ascii.eqb c1 nl); [discriminate|].
  destruct (find_on_line "`" r1) as [[body rest]|] eqn:E; [|discriminate]. intros H; inversion H; subst. cbn [mlen String.length].
  rewrite (find_on_line_len _ _ _ _ E). lia.
Qed.

Lemma try_invalid_fits kws s m : try_invalid kws s = Some m -> fits s m.
Proof.
  induction kws as [|k kws IH]; cbn [try_invalid]; [discriminate|].
  destruct (prefix_rest k s) as [r|] eqn:Ep; [|exact IH].
  destruct (span_while is_space r) as [ws r2] eqn:Es.
  destruct r2 as [|c r3]; [exact IH|]. destruct (Ascii.eqb c "["); [|exact IH].
  destruct (find_on_line "]" r3) as [[body rest]|] eqn:Ef; [|exact IH].
  intros H; inversion H; subst. unfold fits. cbn [mlen].
  rewrite (prefix_rest_len _ _ _ Ep), (span_while_len _ _ _ _ Es). cbn [String.length]. rewrite (find_on_line_len _ _ _ _ Ef). lia.
Qed.

Lemma try_keyword_fits kws s m :
  forallb (fun k => match k with "" => false | String a _ => is_alpha_ a end) kws = true ->
  try_keyword kws s = Some m -> fits s m.
Proof.
  induction kws as [|k kws IH]; cbn [try_keyword forallb]; [discriminate|].
  intros Hk. apply andb_true_iff in Hk as [Hk1 Hk].
  assert (K : forall r, prefix_rest k s = Some r -> fits s (mkMatch KKeyword k None (String.length k))).
  { intros r Ep. unfold fits. cbn [mlen]. rewrite (prefix_rest_len _ _ _ Ep). destruct k; [discriminate|]. cbn [String.length]. lia. }
  destruct (prefix_rest k s) as [[|c r]|] eqn:Ep; [| |apply IH, Hk].
  - intros H; inversion H; subst. eapply K; eauto.
  - destruct (is_word c); [apply IH, Hk|]. intros H; inversion H; subst. eapply K; eauto.
Qed.

Lemma span_while_head p c r a b : p c = true -> span_while p (String c r) = (a, b) -> 1 <= String.length a.
Proof.
  cbn [span_while]. intros ->. destruct (span_while p r) as [a' b']. intros H; inversion H; subst. cbn. lia.
Qed.

Lemma try_function_fits s m : try_function s = Some m -> fits s m.
Proof.
  unfold try_function, fits. destruct s as [|c r]; [discriminate|].
  destruct (is_alpha_ c) eqn:Ea; [|discriminate].
  destruct (span_while is_fnc (String c r)) as [name r1] eqn:E1.
  destruct (span_while is_space r1) as [ws r2] eqn:E2.
  destruct r2 as [|d r3]; [discriminate|]. destruct (Ascii.eqb d "("); [|discriminate].
  intros H; inversion H; subst. cbn [mlen].
  assert (Hf : is_fnc c = true) by (destruct (idc_facts c (alpha_idc c Ea)) as (F & _); exact F).
  pose proof (span_while_head _ _ _ _ _ Hf E1).
  rewrite (span_while_len _ _ _ _ E1), (span_while_len _ _ _ _ E2). cbn [String.length]. lia.
Qed.

Lemma try_bracketed_fits op cl k s m : try_bracketed op cl k s = Some m -> fits s m.
Proof.
  unfold try_bracketed, fits. destruct s as [|c r]; [discriminate|].
  destruct (Ascii.eqb c op); [|discriminate].
  destruct (span_while is_space r) as [w1 r1] eqn:E1.
  destruct r1 as [|a r1']; [discriminate|]. destruct (is_alpha_ a); [|discriminate].
  destruct (span_while is_idc (String a r1')) as [name r2] eqn:E2.
  destruct (span_while is_space r2) as [w2 r3] eqn:E3.
  destruct r3 as [|d r4]; [discriminate|]. destruct (Ascii.eqb d cl); [|discriminate].
  intros H; inversion H; subst.
  match goal with |- context [with_index ?k0 ?n0 ?b0 ?a0] => pose proof (with_index_len k0 n0 b0 a0) as [L U] end.
  cbn [String.length]. rewrite (span_while_len _ _ _ _ E1), (span_while_len _ _ _ _ E2), (span_while_len _ _ _ _ E3).
  cbn [String.length]. lia.
Qed.

Lemma try_variable_fits s m : try_variable s = Some m -> fits s m.
Proof.
  unfold try_variable, fits. destruct s as [|c r]; [discriminate|].
  destruct (is_alpha_ c) eqn:Ea; [|discriminate].
  destruct (span_while is_idc (String c r)) as [name r1] eqn:E1.
  intros H; inversion H; subst.
  match goal with |- context [with_index ?k0 ?n0 ?b0 ?a0] => pose proof (with_index_len k0 n0 b0 a0) as [L U] end.
  pose proof (span_while_head _ _ _ _ _ (alpha_idc c Ea) E1).
  rewrite (span_while_len _ _ _ _ E1). lia.
Qed.

Theorem match_here_fits pw s m : match_here pw s = Some m -> fits s m.
Proof.
  unfold match_here, or_else.
  destruct (try_verbatim s) eqn:E1; [intros H; inversion H; subst; apply try_verbatim_fits, E1|].
  destruct (try_invalid KW s) eqn:E2; [intros H; inversion H; subst; eapply try_invalid_fits, E2|].
  destruct (if pw then None else try_keyword KW s) eqn:E3.
  { intros H; inversion H; subst. destruct pw; [discriminate|]. eapply try_keyword_fits; [exact kw_nonempty_alpha|exact E3]. }
  destruct (try_function s) eqn:E4; [intros H; inversion H; subst; apply try_function_fits, E4|].
  destruct (try_bracketed "{" "}" KParameter s) eqn:E5; [intros H; inversion H; subst; eapply try_bracketed_fits, E5|].
  destruct (try_bracketed "<" ">" KError s) eqn:E6; [intros H; inversion H; subst; eapply try_bracketed_fits, E6|].
  apply try_variable_fits.
Qed.

Lemma scan_cover s : forall pos skip pw, skip <= String.length s -> items_len (scan pos skip pw s) = String.length s - skip.
Proof.
  induction s as [|c r IH]; intros pos skip pw Hs; cbn [scan String.length] in *.
  - reflexivity.
  - destruct skip as [|k].
    + destruct (match_here pw (String c r)) as [m|] eqn:E.
      * destruct (match_here_fits _ _ _ E) as [L U]. cbn [String.length] in U. cbn [items_len].
        rewrite IH by lia. lia.
      * cbn [items_len]. rewrite IH by lia. lia.
    + rewrite IH by lia. lia.
Qed.

(* for EVERY string: unmatched characters + match lengths = |s| *)
Theorem scan_items_cover s : items_len (scan_items s) = String.length s.
Proof. unfold scan_items. rewrite scan_cover by lia. lia. Qed.

(* every reported span lies inside the string, is non-empty, and spans do not overlap (each starts at or after the end of the previous one) *)
Fixpoint spans_ok (lo n : nat) (l : list (nat * nat * kind * string * option string)) : Prop :=
  match l with
  | [] => True
  | (a, b, _, _, _) :: r => lo <= a /\ a < b /\ b <= n /\ spans_ok b n r
  end.
Lemma scan_spans_ok s : forall pos skip pw n,
  pos + String.length s = n -> skip <= String.length s -> spans_ok (pos + skip) n (spans_of (scan pos skip pw s)).
Proof.
  induction s as [|c r IH]; intros pos skip pw n Hn Hs; cbn [scan String.length] in *; [exact I|].
  destruct skip as [|k].
  - destruct (match_here pw (String c r)) as [m|] eqn:E.
    + destruct (match_here_fits _ _ _ E) as [L U]. cbn [String.length] in U. cbn [spans_of spans_ok].
      repeat split; try lia.
      replace (pos + mlen m) with (S pos + (mlen m - 1)) by lia. apply IH; lia.
    + cbn [spans_of]. replace (pos + 0) with pos by lia.
      assert (G : spans_ok (S pos + 0) n (spans_of (scan (S pos) 0 (is_word c) r))) by (apply IH; lia).
      clear - G. destruct (spans_of _) as [|[[[[a b] k] nm] ix] l]; [exact I|]. cbn [spans_ok] in *. intuition lia.
  - replace (pos + S k) with (S pos + k) by lia. apply IH; lia.
Qed.
Theorem toks_spans_ok s : spans_ok 0 (String.length s) (toks s).
Proof. unfold toks, scan_items. apply (scan_spans_ok s 0 0 false); lia. Qed.
