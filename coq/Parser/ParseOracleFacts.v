(* ParseOracleFacts.v — the syntax check sees nothing but the generated code of the statements:
   two oracles that agree on every code string generated for a statement of the script give the same result.
   (compile() is handed `Symbol.code` strings only; nothing else of the script reaches it.) *)
From Coq Require Import String Ascii List Bool Arith.
Import ListNotations.
Require Import PyBase PyStr Symbols Split Merge ParseEq ParseModel.
Open Scope string_scope.

Lemma check_codes_ext chk chk' l : (forall c, In c l -> chk c = chk' c) -> check_codes chk l = check_codes chk' l.
Proof.
  induction l as [|c r IH]; intros H; [reflexivity|]. cbn [check_codes].
  rewrite <- (H c (or_introl eq_refl)). destruct (chk c); try reflexivity. apply IH. intros x Hx. apply H. right. exact Hx.
Qed.

Lemma parse_statements_ext chk chk' cs stmts : forall acc pb,
  (forall st syms c, In st stmts -> parse_equation_M st = POk syms -> In c (codes_of syms) -> chk c = chk' c) ->
  parse_statements chk cs stmts acc pb = parse_statements chk' cs stmts acc pb.
Proof.
  induction stmts as [|st rest IH]; intros acc pb H; [reflexivity|]. cbn [parse_statements].
  assert (Hr : forall st0 syms c, In st0 rest -> parse_equation_M st0 = POk syms -> In c (codes_of syms) -> chk c = chk' c).
  { intros st0 syms c Hi. apply H. right. exact Hi. }
  destruct (parse_equation_M st) as [syms|e|] eqn:E; [|reflexivity|reflexivity].
  destruct cs; [|apply IH, Hr].
  rewrite (check_codes_ext chk chk' (codes_of syms)) by (intros c Hc; eapply H; [left; reflexivity|exact E|exact Hc]).
  destruct (check_codes chk' (codes_of syms)); [apply IH, Hr|apply IH, Hr|reflexivity].
Qed.

Theorem oracle_sees_only_generated_codes chk chk' cs s :
  (forall st syms c, In st (fst (split_M s)) -> parse_equation_M st = POk syms -> In c (codes_of syms) -> chk c = chk' c) ->
  parse_model_M chk cs s = parse_model_M chk' cs s.
Proof.
  unfold parse_model_M. destruct (split_M s) as [stmts serr]. cbn [fst]. intros H.
  rewrite (parse_statements_ext chk chk' cs stmts [] false H). reflexivity.
Qed.
