(* FormatDecideFacts.v — where the model is silent (PUnmodelled), for every input:
   parse_equation_M st = PUnmodelled only if the term lexer leaves a "{" outside every match of st (a brace that is
   not part of a `{name}` term); parse_model_M … s = PUnmodelled only if some statement of s has such a stray "{".
   So the model decides every script whose braces all belong to parameter terms. *)
From Coq Require Import String Ascii List Bool Arith NArith Lia.
Import ListNotations.
Require Import Generated PyBase PyStr Lex Format Symbols Split Merge ParseEq ParseModel.
Open Scope string_scope.

(* every "{" is directly followed by "}" *)
Fixpoint brace_paired (s : string) : bool :=
  match s with
  | "" => true
  | String c r => (if Ascii.eqb c "{" then head_is "}" r else true) && brace_paired r
  end.

Fixpoint stray_open (l : list item) : bool :=
  match l with
  | [] => false
  | Chr c :: r => Ascii.eqb c "{" || stray_open r
  | Tok _ _ :: r => stray_open r
  end.

Lemma template_of_paired l : stray_open l = false -> brace_paired (template_of l) = true.
Proof.
  induction l as [|[c|p m] r IH]; cbn [stray_open template_of]; [reflexivity| |].
  - intros H. apply orb_false_iff in H as [Hc Hr]. cbn [brace_paired]. rewrite Hc. cbn. apply IH, Hr.
  - intros H. cbn. apply IH, H.
Qed.

Lemma brace_facts : is_space "{" = false /\ is_space "}" = false.
Proof. split; reflexivity. Qed.

Lemma bp_cons c r : brace_paired (String c r) = true -> brace_paired r = true.
Proof. cbn [brace_paired]. intros H. apply andb_true_iff in H as [_ H]. exact H. Qed.
Lemma eqb_open_space c : Ascii.eqb c "{" = true -> is_space c = false.
Proof. intros H. apply Ascii.eqb_eq in H. subst. reflexivity. Qed.

(* the three re.sub normalisations keep braces paired *)
Lemma bp_head c r : brace_paired (String c r) = true -> Ascii.eqb c "{" = true -> head_is "}" r = true.
Proof. cbn [brace_paired]. intros H E. rewrite E in H. apply andb_true_iff in H as [H _]. exact H. Qed.
Lemma sub_ws_head b s : head_is "}" s = true -> head_is "}" (sub_ws b s) = true.
Proof.
  destruct s as [|c r]; [discriminate|]. cbn [head_is sub_ws]. intros H. apply Ascii.eqb_eq in H. subst c.
  change (is_space "}") with false. reflexivity.
Qed.
Lemma sub_open_head b s : head_is "}" s = true -> head_is "}" (sub_open b s) = true.
Proof.
  destruct s as [|c r]; [discriminate|]. cbn [head_is sub_open]. intros H. apply Ascii.eqb_eq in H. subst c.
  change (is_space "}") with false. rewrite andb_false_r. reflexivity.
Qed.
Lemma sub_ws_paired s : forall b, brace_paired s = true -> brace_paired (sub_ws b s) = true.
Proof.
  induction s as [|c r IH]; intros b H; [reflexivity|]. cbn [sub_ws].
  pose proof (bp_cons _ _ H) as Hr.
  destruct (Ascii.eqb c "{") eqn:Ec.
  - rewrite (eqb_open_space c Ec). cbn [brace_paired]. rewrite Ec, (IH false Hr), (sub_ws_head false r (bp_head _ _ H Ec)). reflexivity.
  - destruct (is_space c).
    + destruct b; [apply IH, Hr|]. cbn [brace_paired]. change (Ascii.eqb " " "{") with false. cbn. apply IH, Hr.
    + cbn [brace_paired]. rewrite Ec. cbn. apply IH, Hr.
Qed.
Lemma sub_open_paired s : forall b, brace_paired s = true -> brace_paired (sub_open b s) = true.
Proof.
  induction s as [|c r IH]; intros b H; [reflexivity|]. cbn [sub_open].
  pose proof (bp_cons _ _ H) as Hr.
  destruct (Ascii.eqb c "{") eqn:Ec.
  - rewrite (eqb_open_space c Ec), andb_false_r. cbn [brace_paired].
    rewrite Ec, (IH _ Hr), (sub_open_head _ r (bp_head _ _ H Ec)). reflexivity.
  - destruct (b && is_space c); [apply IH, Hr|].
    cbn [brace_paired]. rewrite Ec. cbn. apply IH, Hr.
Qed.
Lemma sub_close_head s : head_is "}" s = true -> head_is "}" (sub_close s) = true.
Proof.
  destruct s as [|c r]; [discriminate|]. cbn [head_is sub_close]. intros H. apply Ascii.eqb_eq in H. subst c.
  change (is_space "}") with false. cbn. reflexivity.
Qed.
Lemma sub_close_paired s : brace_paired s = true -> brace_paired (sub_close s) = true.
Proof.
  induction s as [|c r IH]; intros H; [reflexivity|]. cbn [sub_close].
  pose proof (bp_cons _ _ H) as Hr. specialize (IH Hr).
  destruct (is_space c && head_is ")" (sub_close r)) eqn:E; [exact IH|].
  cbn [brace_paired]. rewrite IH, andb_true_r.
  destruct (Ascii.eqb c "{") eqn:Ec; [|reflexivity].
  apply sub_close_head. cbn [brace_paired] in H. rewrite Ec in H. apply andb_true_iff in H as [Hh _]. exact Hh.
Qed.
Lemma normalise_paired t : brace_paired t = true -> brace_paired (normalise_template t) = true.
Proof. intros H. unfold normalise_template. apply sub_close_paired, sub_open_paired, sub_ws_paired, H. Qed.

(* on a brace-paired template str.format's tokens are literals, automatic fields or a certain failure *)
Definition simple_tok (t : ftok) : bool := match t with FLit _ | FAuto | FBad => true | _ => false end.

Lemma ftokens_simple t : forall m,
  (m = MText \/ m = MAfterR \/ (m = MAfterL /\ head_is "}" t = true)) -> brace_paired t = true ->
  forallb simple_tok (ftokens m t) = true.
Proof.
  induction t as [|c r IH]; intros m Hm H.
  - destruct Hm as [-> |[-> |[-> Hh]]]; reflexivity.
  - pose proof (bp_cons _ _ H) as Hr.
    destruct Hm as [-> |[-> |[-> Hh]]]; cbn [ftokens].
    + destruct (Ascii.eqb c "{") eqn:Ec.
      * apply IH; [|exact Hr]. right; right. split; [reflexivity|exact (bp_head _ _ H Ec)].
      * destruct (Ascii.eqb c "}"); [apply IH; auto|]. cbn [forallb simple_tok andb]. apply IH; auto.
    + destruct (Ascii.eqb c "}"); [|reflexivity]. cbn [forallb simple_tok andb]. apply IH; auto.
    + cbn [head_is] in Hh. apply Ascii.eqb_eq in Hh. subst c.
      change (Ascii.eqb "}" "{") with false. change (Ascii.eqb "}" "}") with true. cbv iota.
      cbn [forallb simple_tok andb]. apply IH; auto.
Qed.

Lemma ffill_simple args toks : forall k num, forallb simple_tok toks = true -> ffill args k num toks <> FUnmodelled.
Proof.
  induction toks as [|t r IH]; intros k num H; cbn [ffill]; [discriminate|].
  cbn [forallb] in H. apply andb_true_iff in H as [Ht Hr].
  destruct t; try discriminate; cbn [ffill].
  - specialize (IH k num Hr). destruct (ffill args k num r); congruence.
  - destruct num; try discriminate;
      (destruct (nth_error args k); [|discriminate]; specialize (IH (S k) NAuto Hr); destruct (ffill args (S k) NAuto r); congruence).
Qed.

Theorem py_format_decided tpl args : brace_paired tpl = true -> py_format tpl args <> FUnmodelled.
Proof. intros H. unfold py_format. apply ffill_simple, ftokens_simple; auto. Qed.

Definition has_stray_open (st : string) : bool := stray_open (scan_items st).

Theorem parse_equation_unmodelled st : parse_equation_M st = PUnmodelled -> has_stray_open st = true.
Proof.
  unfold parse_equation_M, has_stray_open. intros H.
  destruct (stray_open (scan_items st)) eqn:E; [reflexivity|exfalso].
  assert (P : brace_paired (template st) = true) by (apply normalise_paired, template_of_paired, E).
  destruct (is_blank st); [discriminate|].
  destruct (split_M st) as [stmts [e|]]; [discriminate|].
  destruct (negb (length stmts =? 1)%nat); [discriminate|].
  destruct (head_is "`" st && last_is "`" st); [discriminate|].
  destruct (negb (count_char "{" st =? count_char "}" st)%nat); [discriminate|].
  destruct (parse_equation_terms st) as [terms|e]; [|discriminate].
  destruct (all_some (map term_str terms)) as [strs|]; [|discriminate].
  destruct (all_some (map term_code terms)) as [codes|]; [|discriminate].
  pose proof (py_format_decided (template st) strs P) as D1. pose proof (py_format_decided (template st) codes P) as D2.
  destruct (py_format (template st) strs); [|discriminate|congruence].
  destruct (py_format (template st) codes); [|discriminate|congruence].
  destruct (equation_symbols s s0 terms); discriminate.
Qed.

Lemma parse_statements_unmodelled chk cs stmts : forall acc pb,
  parse_statements chk cs stmts acc pb = PUnmodelled -> exists st, In st stmts /\ parse_equation_M st = PUnmodelled.
Proof.
  induction stmts as [|st rest IH]; intros acc pb; cbn [parse_statements]; [discriminate|].
  destruct (parse_equation_M st) as [syms|e|] eqn:E; [|discriminate|intros _; exists st; split; [left; reflexivity|exact E]].
  assert (K : forall acc' pb', parse_statements chk cs rest acc' pb' = PUnmodelled ->
            exists st0, In st0 (st :: rest) /\ parse_equation_M st0 = PUnmodelled).
  { intros acc' pb' H. destruct (IH _ _ H) as (x & Hx & Hp). exists x. split; [right; exact Hx|exact Hp]. }
  destruct cs; [destruct (check_codes chk (codes_of syms)); [apply K|apply K|discriminate]|apply K].
Qed.

(* for every oracle, check_syntax setting and input string *)
Theorem parse_model_unmodelled chk cs s :
  parse_model_M chk cs s = PUnmodelled -> exists st, In st (fst (split_M s)) /\ has_stray_open st = true.
Proof.
  unfold parse_model_M. destruct (split_M s) as [stmts serr]. cbn [fst].
  destruct (parse_statements chk cs stmts [] false) as [[by_eq pb]|e|] eqn:E.
  - destruct serr; [discriminate|]. destruct pb; [discriminate|]. destruct (merge_symbols by_eq); discriminate.
  - discriminate.
  - intros _. destruct (parse_statements_unmodelled _ _ _ _ _ E) as (st & Hs & Hp). exists st. split; [exact Hs|].
    apply parse_equation_unmodelled, Hp.
Qed.

(* ---------- where exactly the hole is (review item: PUnmodelled must not hide a foreign exception) ---------- *)
(* parse_equation_M st = PUnmodelled pins the real code to ONE program point: every earlier check of parse_equation has
   passed (not blank, exactly one statement, no verbatim statement, braces balanced, the terms parse, every term has a
   str() and a code) and the model stopped inside `template.format(...)` — the call that fsic wraps in
   `try … except (AttributeError, IndexError, KeyError, MemoryError, OverflowError, TypeError, ValueError)` (fix 6fcad37,
   completed by 51af71a).  What the model does not decide there is whether that call fails (→ ParserError, an own error)
   or succeeds with a text the model does not compute; no other program point is skipped. *)
Theorem unmodelled_only_inside_format st :
  parse_equation_M st = PUnmodelled ->
  is_blank st = false /\ split_M st = (fst (split_M st), None) /\ length (fst (split_M st)) = 1%nat /\
  (head_is "`" st && last_is "`" st) = false /\ count_char "{" st = count_char "}" st /\
  exists terms strs codes,
    parse_equation_terms st = Ret terms /\ all_some (map term_str terms) = Some strs /\ all_some (map term_code terms) = Some codes /\
    (py_format (template st) strs = FUnmodelled \/
     (exists sd, py_format (template st) strs = FOk sd /\ py_format (template st) codes = FUnmodelled)).
Proof.
  unfold parse_equation_M. destruct (is_blank st); [discriminate|].
  destruct (split_M st) as [stmts [e|]]; [discriminate|]. cbn [fst].
  destruct (negb (length stmts =? 1)%nat) eqn:El; [discriminate|]. apply negb_false_iff, Nat.eqb_eq in El.
  destruct (head_is "`" st && last_is "`" st); [discriminate|].
  destruct (negb (count_char "{" st =? count_char "}" st)%nat) eqn:Eb; [discriminate|]. apply negb_false_iff, Nat.eqb_eq in Eb.
  destruct (parse_equation_terms st) as [terms|e] eqn:Et; [|discriminate].
  destruct (all_some (map term_str terms)) as [strs|] eqn:Es; [|discriminate].
  destruct (all_some (map term_code terms)) as [codes|] eqn:Ec; [|discriminate].
  intros H. split; [reflexivity|]. split; [reflexivity|]. split; [exact El|]. split; [reflexivity|]. split; [exact Eb|].
  exists terms, strs, codes. split; [reflexivity|]. split; [exact Es|]. split; [exact Ec|].
  destruct (py_format (template st) strs) as [sd| |] eqn:E1; [|discriminate|left; reflexivity].
  destruct (py_format (template st) codes) as [cd| |] eqn:E2; [|discriminate|right; eauto].
  destruct (equation_symbols sd cd terms); discriminate.
Qed.
