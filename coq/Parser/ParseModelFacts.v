(* ParseModelFacts.v — theorems about parse_model's model (the C13 surface restates them in Props/C13.v).
   Totality is by construction: every definition of the parser model is a structural Fixpoint or a
   non-recursive Definition — there is no fuel anywhere in Parser/*.v — so parse_model_M is a total
   function on every Latin-1 string (a claim about the model; the tie to the code is the correspondence K). *)
From Coq Require Import String Ascii List Bool Arith ZArith Lia.
Import ListNotations.
Require Import Generated PyBase PyStr Lex Format Symbols SymbolsFacts Split SplitFacts Merge MergeFacts ParseEq ParseEqFacts ParseModel.
Open Scope string_scope.

(* ---------- the oracle's outcomes ---------- *)
Lemma check_codes_raise chk codes e :
  check_codes chk codes = VRaise e ->
  e = ParserError \/ (e = OtherError /\ exists c, In c codes /\ chk c = ChkOtherExn).
Proof.
  induction codes as [|c r IH]; cbn; [discriminate|].
  destruct (chk c) eqn:Ec.
  - intros H. destruct (IH H) as [->|(-> & x & Hx & Hc)]; [auto|right; split; eauto].
  - discriminate.
  - discriminate.
  - intros H; inversion H; auto.
  - intros H; inversion H; subst. right. split; eauto.
  - discriminate.
Qed.

(* the first code on which the oracle does not answer ChkOk decides *)
Lemma check_codes_first chk pre c post :
  (forall x, In x pre -> chk x = ChkOk) ->
  check_codes chk (pre ++ c :: post)%list =
  match chk c with
  | ChkOk => check_codes chk post
  | ChkSyntaxError | ChkCaughtExn | ChkSyntaxWarning => VProblem
  | ChkOtherWarning _ => VRaise ParserError
  | ChkOtherExn => VRaise OtherError
  end.
Proof.
  induction pre as [|p pre IH]; cbn [app check_codes]; intros H; [reflexivity|].
  rewrite (H p (or_introl eq_refl)). apply IH. intros x Hx. apply H. right. exact Hx.
Qed.

(* ---------- the statement loop ---------- *)
Definition stmt_value_error (st : string) : Prop := has_char "=" st = false /\ backticked st = false.

Lemma parse_statements_err chk cs stmts : forall acc pb e,
  parse_statements chk cs stmts acc pb = PErr e ->
  own_error e \/
  (e = ValueError /\ exists st, In st stmts /\ stmt_value_error st) \/
  (e = OtherError /\ cs = true /\ exists c, chk c = ChkOtherExn).
Proof.
  induction stmts as [|st rest IH]; intros acc pb e; cbn [parse_statements]; [discriminate|].
  assert (REST : forall acc' pb', parse_statements chk cs rest acc' pb' = PErr e ->
            own_error e \/ (e = ValueError /\ exists st0, In st0 (st :: rest) /\ stmt_value_error st0) \/
            (e = OtherError /\ cs = true /\ exists c, chk c = ChkOtherExn)).
  { intros acc' pb' H. destruct (IH _ _ _ H) as [A|[(-> & x & Hx & Hv)|C]]; auto.
    right; left. split; [reflexivity|]. exists x. split; [right; exact Hx|exact Hv]. }
  destruct (parse_equation_M st) as [syms|pe|] eqn:Ep; [| |discriminate].
  - destruct cs.
    + destruct (check_codes chk (codes_of syms)) eqn:Ec.
      * apply REST.
      * apply REST.
      * intros H; inversion H; subst.
        destruct (check_codes_raise _ _ _ Ec) as [->|(-> & c & _ & Hc)]; [left; left; reflexivity|].
        right; right. eauto.
    + apply REST.
  - intros H; inversion H; subst.
    destruct (parse_equation_M_err _ _ Ep) as [A|(-> & Hn & Hb)]; [auto|].
    right; left. split; [reflexivity|]. exists st. split; [left; reflexivity|split; assumption].
Qed.

Lemma parse_statements_wf chk cs stmts : forall acc pb by_eq pb',
  (forall l x, In l acc -> In x l -> wf_symbol x = true) ->
  parse_statements chk cs stmts acc pb = POk (by_eq, pb') ->
  forall l x, In l by_eq -> In x l -> wf_symbol x = true.
Proof.
  induction stmts as [|st rest IH]; intros acc pb by_eq pb' Hacc; cbn [parse_statements].
  - intros H; inversion H; subst. intros l x Hl Hx. apply in_rev in Hl. eapply Hacc; eauto.
  - destruct (parse_equation_M st) as [syms|pe|] eqn:Ep; [|discriminate|discriminate].
    assert (Hacc' : forall l x, In l (syms :: acc) -> In x l -> wf_symbol x = true).
    { intros l x [<-|Hl] Hx; [eapply parse_equation_M_wf; eauto | eapply Hacc; eauto]. }
    destruct cs.
    + destruct (check_codes chk (codes_of syms)); [apply IH, Hacc'|apply IH, Hacc'|discriminate].
    + apply IH, Hacc'.
Qed.

(* ---------- own_errors_only ---------- *)
(* every exception of parse_model's model, for every input string and every oracle *)
Theorem parse_model_errors chk cs s e :
  parse_model_M chk cs s = PErr e ->
  own_error e \/
  (e = ValueError /\ exists st, In st (fst (split_M s)) /\ stmt_ok st = true /\ stmt_value_error st /\ has_fence_match st = true) \/
  (e = OtherError /\ cs = true /\ exists c, chk c = ChkOtherExn).
Proof.
  unfold parse_model_M. destruct (split_M s) as [stmts serr] eqn:Es. cbn [fst].
  destruct (parse_statements chk cs stmts [] false) as [[by_eq pb]|pe|] eqn:Ep; [| |discriminate].
  - destruct serr as [se|].
    + intros H; inversion H; subst. left. destruct (split_M_err _ _ _ Es) as [->| ->]; unfold own_error; auto.
    + destruct pb; [intros H; inversion H; left; left; reflexivity|].
      destruct (merge_symbols by_eq) eqn:Em; cbn; [discriminate|].
      intros H; inversion H; subst. left.
      assert (W : forall l x, In l by_eq -> In x l -> wf_symbol x = true).
      { eapply parse_statements_wf; [|exact Ep]. intros l x []. }
      destruct (merge_symbols_err _ _ W Em) as [->| ->]; unfold own_error; auto.
  - intros H; inversion H; subst.
    destruct (parse_statements_err _ _ _ _ _ _ Ep) as [A|[(-> & st & Hst & Hv)|C]]; auto.
    right; left. split; [reflexivity|]. exists st. split; [exact Hst|].
    destruct (split_M_stmts _ _ _ _ Es Hst) as [Hok _]. split; [exact Hok|]. split; [exact Hv|].
    destruct (stmt_ok_eq_or_fence _ Hok) as [He|Hf]; [|exact Hf].
    destruct Hv as [Hn _]. congruence.
Qed.

(* the guard that excludes the one foreign exception the repaired code still has *)
Definition stmt_has_eq_or_verbatim (st : string) : bool := has_char "=" st || backticked st.
Definition no_eqless_statement (s : string) : bool := forallb stmt_has_eq_or_verbatim (fst (split_M s)).

Theorem own_errors_only chk cs s :
  (forall c, chk c <> ChkOtherExn) -> no_eqless_statement s = true ->
  match parse_model_M chk cs s with
  | POk _ => True
  | PUnmodelled => True
  | PErr e => e = ParserError \/ e = SymbolError \/ e = IndentationError
  end.
Proof.
  intros Hchk Hg. destruct (parse_model_M chk cs s) as [syms|e|] eqn:E; [exact I| |exact I].
  destruct (parse_model_errors _ _ _ _ E) as [A|[(-> & st & Hst & _ & (Hn & Hb) & _)|(_ & _ & c & Hc)]].
  - exact A.
  - exfalso. unfold no_eqless_statement in Hg. rewrite forallb_forall in Hg. specialize (Hg st Hst).
    unfold stmt_has_eq_or_verbatim in Hg. rewrite Hn, Hb in Hg. discriminate.
  - exfalso. eapply Hchk; eauto.
Qed.

(* with the syntax check off the oracle is never consulted *)
Lemma parse_statements_nocheck chk chk' stmts : forall acc pb,
  parse_statements chk false stmts acc pb = parse_statements chk' false stmts acc pb.
Proof.
  induction stmts as [|st rest IH]; intros acc pb; cbn [parse_statements]; [reflexivity|].
  destruct (parse_equation_M st); auto.
Qed.
Theorem nocheck_ignores_oracle chk chk' s : parse_model_M chk false s = parse_model_M chk' false s.
Proof.
  unfold parse_model_M. destruct (split_M s) as [stmts serr]. rewrite (parse_statements_nocheck chk chk'). reflexivity.
Qed.

(* ---------- chk_outcomes_propagate ---------- *)
(* the model raises the oracle's foreign exception only when the oracle produced it … *)
Theorem other_exn_only_from_oracle chk cs s :
  parse_model_M chk cs s = PErr OtherError -> cs = true /\ exists c, chk c = ChkOtherExn.
Proof.
  intros H. destruct (parse_model_errors _ _ _ _ H) as [[A|[A|A]]|[(A & _)|(_ & B & C)]]; try discriminate. auto.
Qed.

(* … and whenever the oracle does produce it on a statement that is reached, it comes out unchanged:
   statements before it parse and pass (or are recorded as problem statements), then the offending code is compiled *)
Definition passes (chk : string -> chk_res) (st : string) : Prop :=
  exists syms, parse_equation_M st = POk syms /\ (check_codes chk (codes_of syms) = VFine \/ check_codes chk (codes_of syms) = VProblem).

Lemma parse_statements_reach chk pre : forall st post acc pb syms e,
  (forall x, In x pre -> passes chk x) ->
  parse_equation_M st = POk syms -> check_codes chk (codes_of syms) = VRaise e ->
  parse_statements chk true (pre ++ st :: post)%list acc pb = PErr e.
Proof.
  induction pre as [|p pre IH]; intros st post acc pb syms e Hpre Hst Hc; cbn [app parse_statements].
  - rewrite Hst, Hc. reflexivity.
  - destruct (Hpre p (or_introl eq_refl)) as (sp & Hp & [Hf|Hf]); rewrite Hp, Hf;
      (eapply IH; eauto; intros x Hx; apply Hpre; right; exact Hx).
Qed.

Theorem chk_outcomes_propagate chk s pre st post serr syms before c after :
  split_M s = ((pre ++ st :: post)%list, serr) ->
  (forall x, In x pre -> passes chk x) ->
  parse_equation_M st = POk syms -> codes_of syms = (before ++ c :: after)%list ->
  (forall x, In x before -> chk x = ChkOk) -> chk c = ChkOtherExn ->
  parse_model_M chk true s = PErr OtherError.
Proof.
  intros Hs Hpre Hst Hcodes Hb Hc. unfold parse_model_M. rewrite Hs.
  rewrite (parse_statements_reach chk pre st post [] false syms OtherError Hpre Hst); [reflexivity|].
  rewrite Hcodes, (check_codes_first chk before c after Hb), Hc. reflexivity.
Qed.

(* a statement whose code does not compile (or compiles with a SyntaxWarning) makes the whole model a ParserError
   once every statement has been read — unless a later statement raises first *)
Lemma parse_statements_problem chk stmts : forall acc pb r,
  parse_statements chk true stmts acc pb = POk r -> pb = true -> snd r = true.
Proof.
  induction stmts as [|st rest IH]; intros acc pb r; cbn [parse_statements].
  - intros H; inversion H; subst. auto.
  - destruct (parse_equation_M st); [|discriminate|discriminate].
    destruct (check_codes chk (codes_of a)); [|intros H _; eapply IH; eauto|discriminate].
    intros H Hp. eapply IH; eauto.
Qed.
Lemma parse_statements_all_fine chk stmts : forall acc pb by_eq,
  parse_statements chk true stmts acc pb = POk (by_eq, false) ->
  forall st, In st stmts -> exists syms, parse_equation_M st = POk syms /\ check_codes chk (codes_of syms) = VFine.
Proof.
  induction stmts as [|st rest IH]; intros acc pb by_eq; cbn [parse_statements]; [intros _ x []|].
  destruct (parse_equation_M st) as [syms| |] eqn:Ep; [|discriminate|discriminate].
  destruct (check_codes chk (codes_of syms)) eqn:Ec; [| |discriminate].
  - intros H x [<-|Hx]; [eauto|]. eapply IH; eauto.
  - intros H. pose proof (parse_statements_problem _ _ _ _ _ H eq_refl) as P. discriminate.
Qed.

(* accepted with the syntax check on  =>  every statement parsed and every generated code passed the oracle *)
Theorem accepted_means_every_code_compiled chk s syms :
  parse_model_M chk true s = POk syms ->
  snd (split_M s) = None /\
  forall st, In st (fst (split_M s)) ->
    exists ss, parse_equation_M st = POk ss /\ forall c, In c (codes_of ss) -> chk c = ChkOk.
Proof.
  unfold parse_model_M. destruct (split_M s) as [stmts serr] eqn:Es. cbn [fst snd].
  destruct (parse_statements chk true stmts [] false) as [[by_eq pb]|pe|] eqn:Ep; [|discriminate|discriminate].
  destruct serr; [discriminate|]. destruct pb; [discriminate|]. intros _. split; [reflexivity|].
  intros st Hst. destruct (parse_statements_all_fine _ _ _ _ _ Ep st Hst) as (ss & Hp & Hf).
  exists ss. split; [exact Hp|].
  clear - Hf. induction (codes_of ss) as [|c r IH]; [intros c []|].
  cbn in Hf. destruct (chk c) eqn:Ec; try discriminate. intros x [<-|Hx]; [exact Ec|apply IH; assumption].
Qed.

(* ---------- 74fa5fb: every failure of compile() that the check catches is a problem statement, hence a ParserError ---------- *)
(* SyntaxError; ValueError / RecursionError / MemoryError / OverflowError (ChkCaughtExn); exactly one SyntaxWarning *)
Definition compile_failed (r : chk_res) : bool :=
  match r with ChkSyntaxError | ChkCaughtExn | ChkSyntaxWarning => true | _ => false end.

Lemma check_codes_problem chk before c after :
  (forall x, In x before -> chk x = ChkOk) -> compile_failed (chk c) = true ->
  check_codes chk (before ++ c :: after)%list = VProblem.
Proof.
  intros Hb Hc. rewrite (check_codes_first chk before c after Hb). destruct (chk c); try discriminate; reflexivity.
Qed.
(* the check never turns such an outcome into anything but a problem statement: no foreign exception, no acceptance *)
Lemma check_codes_never_raises_on_failure chk codes :
  (forall c, In c codes -> chk c = ChkOk \/ compile_failed (chk c) = true) ->
  check_codes chk codes = VFine \/ check_codes chk codes = VProblem.
Proof.
  induction codes as [|c r IH]; intros H; [left; reflexivity|]. cbn [check_codes].
  destruct (H c (or_introl eq_refl)) as [E|E].
  - rewrite E. apply IH. intros x Hx. apply H. right. exact Hx.
  - destruct (chk c); try discriminate; right; reflexivity.
Qed.

Lemma parse_statements_passes chk stmts : forall acc pb,
  (forall x, In x stmts -> passes chk x) ->
  exists by_eq pb', parse_statements chk true stmts acc pb = POk (by_eq, pb') /\ (pb = true -> pb' = true) /\
    ((exists x syms, In x stmts /\ parse_equation_M x = POk syms /\ check_codes chk (codes_of syms) = VProblem) -> pb' = true).
Proof.
  induction stmts as [|st rest IH]; intros acc pb H; cbn [parse_statements].
  - exists (rev acc), pb. split; [reflexivity|]. split; [auto|]. intros (x & _ & [] & _).
  - destruct (H st (or_introl eq_refl)) as (syms & Hp & Hc). rewrite Hp.
    assert (Hr : forall x, In x rest -> passes chk x) by (intros x Hx; apply H; right; exact Hx).
    destruct Hc as [Hc|Hc]; rewrite Hc.
    + destruct (IH (syms :: acc) pb Hr) as (b & p & E & M1 & M2). exists b, p. split; [exact E|]. split; [exact M1|].
      intros (x & sx & [<-|Hx] & Hpx & Hcx); [rewrite Hp in Hpx; inversion Hpx; subst; congruence|apply M2; eauto].
    + destruct (IH (syms :: acc) true Hr) as (b & p & E & M1 & M2). exists b, p. split; [exact E|].
      split; [intros _; apply M1; reflexivity|intros _; apply M1; reflexivity].
Qed.

(* For every script whose statements all parse and whose codes the oracle either accepts or fails to compile (in any of
   the five caught ways, or with one SyntaxWarning): one such failure anywhere makes the whole model a ParserError. *)
Theorem compile_failure_is_parser_error chk s st syms :
  snd (split_M s) = None ->
  (forall x, In x (fst (split_M s)) -> passes chk x) ->
  In st (fst (split_M s)) -> parse_equation_M st = POk syms -> check_codes chk (codes_of syms) = VProblem ->
  parse_model_M chk true s = PErr ParserError.
Proof.
  intros Hs Hp Hin Hst Hc. unfold parse_model_M. destruct (split_M s) as [stmts serr]. cbn [fst snd] in *. subst serr.
  destruct (parse_statements_passes chk stmts [] false Hp) as (b & p & E & _ & M). rewrite E.
  rewrite (M (ex_intro _ st (ex_intro _ syms (conj Hin (conj Hst Hc))))). reflexivity.
Qed.

(* with an oracle that only ever answers "ok" or one of the caught failures, parse_model raises nothing but its own errors
   and the ValueError of the '='-less statement: the syntax check itself contributes no foreign exception *)
Theorem caught_failures_never_foreign chk cs s e :
  (forall c, chk c = ChkOk \/ compile_failed (chk c) = true) -> parse_model_M chk cs s = PErr e -> e <> OtherError.
Proof.
  intros H E ->. destruct (other_exn_only_from_oracle chk cs s E) as (_ & c & Hc).
  destruct (H c) as [A|A]; rewrite Hc in A; discriminate.
Qed.

(* ---------- 1c7ed70: a statement without '=' is a ParserError — no foreign exception is left ---------- *)
Lemma parse_statements_err_own chk cs stmts : forall acc pb e,
  parse_statements chk cs stmts acc pb = PErr e ->
  own_error e \/ (e = OtherError /\ cs = true /\ exists c, chk c = ChkOtherExn).
Proof.
  induction stmts as [|st rest IH]; intros acc pb e; cbn [parse_statements]; [discriminate|].
  destruct (parse_equation_M st) as [syms|pe|] eqn:Ep; [| |discriminate].
  - destruct cs; [|apply IH].
    destruct (check_codes chk (codes_of syms)) eqn:Ec; [apply IH|apply IH|].
    intros H; inversion H; subst.
    destruct (check_codes_raise _ _ _ Ec) as [->|(-> & c & _ & Hc)]; [left; left; reflexivity|right; eauto].
  - intros H; inversion H; subst. left. exact (parse_equation_M_own _ _ Ep).
Qed.

(* every exception of parse_model's model, for EVERY input string, both settings of check_syntax and every oracle:
   one of the parser's three own errors, or the oracle's own foreign exception (an exception of compile() outside
   SyntaxError / ValueError / RecursionError / MemoryError / OverflowError), and that only with the check on *)
Theorem parse_model_errors_own chk cs s e :
  parse_model_M chk cs s = PErr e ->
  own_error e \/ (e = OtherError /\ cs = true /\ exists c, chk c = ChkOtherExn).
Proof.
  unfold parse_model_M. destruct (split_M s) as [stmts serr] eqn:Es.
  destruct (parse_statements chk cs stmts [] false) as [[by_eq pb]|pe|] eqn:Ep; [| |discriminate].
  - destruct serr as [se|].
    + intros H; inversion H; subst. left. destruct (split_M_err _ _ _ Es) as [->| ->]; unfold own_error; auto.
    + destruct pb; [intros H; inversion H; left; left; reflexivity|].
      destruct (merge_symbols by_eq) eqn:Em; cbn; [discriminate|].
      intros H; inversion H; subst. left.
      assert (W : forall l x, In l by_eq -> In x l -> wf_symbol x = true).
      { eapply parse_statements_wf; [|exact Ep]. intros l x []. }
      destruct (merge_symbols_err _ _ W Em) as [->| ->]; unfold own_error; auto.
  - intros H; inversion H; subst. exact (parse_statements_err_own _ _ _ _ _ _ Ep).
Qed.

(* own errors only — NO guard on the script any more *)
Theorem own_errors_always chk cs s :
  (forall c, chk c <> ChkOtherExn) ->
  match parse_model_M chk cs s with
  | POk _ => True
  | PUnmodelled => True
  | PErr e => e = ParserError \/ e = SymbolError \/ e = IndentationError
  end.
Proof.
  intros Hchk. destruct (parse_model_M chk cs s) as [syms|e|] eqn:E; [exact I| |exact I].
  destruct (parse_model_errors_own _ _ _ _ E) as [A|(_ & _ & c & Hc)]; [exact A|]. exfalso. eapply Hchk; eauto.
Qed.
(* with the syntax check off there is no oracle at all: only own errors, unconditionally *)
Theorem own_errors_nocheck chk s e : parse_model_M chk false s = PErr e -> own_error e.
Proof. intros H. destruct (parse_model_errors_own _ _ _ _ H) as [A|(_ & B & _)]; [exact A|discriminate]. Qed.
