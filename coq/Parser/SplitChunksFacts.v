(* SplitChunksFacts.v — split_equations_iter's model loses no line between two statements.
   * chunks_conserve: the lines read so far are exactly the completed chunks, in order, followed by the buffer;
   * split_lines_chunks: the yielded statements are exactly the non-blank chunks ('\n'.join of their lines), in order;
   * final_buffer: when the iteration ends without an exception the bracket counter is zero, and the buffer is
     empty unless a fenced block was opened and never closed — the leftover then starts with the opening fence
     line (finding #24: those lines never become a statement and no error is raised);
   * blank_chunk_single: a chunk that is dropped as blank is one blank (or comment-only) line.
   All for every list of lines / every input string. *)
From Coq Require Import String Ascii List Bool Arith Lia.
Import ListNotations.
Require Import Generated PyBase PyStr Split SplitFacts SplitChunks.
Open Scope string_scope.
Open Scope nat_scope.

(* ---------- one line ---------- *)
Lemma split_step_chunk st line :
  match split_step st line, step_chunk st line with
  | StRaise _, _ => True
  | StYield eq st', Some ch => ch = rev (line :: buffer st) /\ buffer st' = [] /\ eq = join_nl ch /\ is_blank eq = false
  | StYield _ _, None => False
  | StCont st', Some ch => ch = rev (line :: buffer st) /\ buffer st' = [] /\ is_blank (join_nl ch) = true
  | StCont st', None => buffer st' = line :: buffer st
  end.
Proof.
  unfold split_step, step_chunk.
  destruct (startswith "```" line && match buffer st with [] => true | _ => false end); [reflexivity|].
  destruct (count_parens (unmatched st) line) as [u|]; [|exact I].
  destruct ((u =? 0) && (if startswith "```" line then true else complete st)); [|reflexivity].
  destruct (is_blank (join_nl (rev (line :: buffer st)))) eqn:Eb; [auto|].
  destruct (stmt_ok (join_nl (rev (line :: buffer st)))); [auto|].
  destruct (stmt_ok (py_strip _)); exact I.
Qed.

(* ---------- the partition ---------- *)
Theorem chunks_conserve lines : forall st stf,
  final_state st lines = Some stf ->
  (rev (buffer st) ++ lines = concat (split_chunks st lines) ++ rev (buffer stf))%list.
Proof.
  induction lines as [|line rest IH]; intros st stf; cbn [final_state split_chunks].
  - intros H; inversion H; subst. cbn. apply app_nil_r.
  - pose proof (split_step_chunk st line) as S.
    destruct (split_step st line) as [st'|eq st'|e]; [| |discriminate]; intros H; specialize (IH _ _ H);
      destruct (step_chunk st line) as [ch|]; try contradiction.
    + destruct S as (-> & Eb & _). rewrite Eb in IH. cbn [rev app] in IH. cbn [concat rev]. rewrite <- !app_assoc, <- IH. reflexivity.
    + rewrite S in IH. cbn [rev] in IH. rewrite <- app_assoc in IH. exact IH.
    + destruct S as (-> & Eb & _). rewrite Eb in IH. cbn [rev app] in IH. cbn [concat rev]. rewrite <- !app_assoc, <- IH. reflexivity.
Qed.

Theorem split_lines_chunks lines : forall st ys oe,
  split_lines st lines = (ys, oe) -> ys = map join_nl (filter nonblank_chunk (split_chunks st lines)).
Proof.
  induction lines as [|line rest IH]; intros st ys oe; cbn [split_lines split_chunks].
  - intros H; inversion H; reflexivity.
  - pose proof (split_step_chunk st line) as S.
    destruct (split_step st line) as [st'|eq st'|e].
    + intros H. specialize (IH _ _ _ H). destruct (step_chunk st line) as [ch|]; [|exact IH].
      destruct S as (_ & _ & Eb). cbn [filter]. unfold nonblank_chunk at 1. rewrite Eb. exact IH.
    + destruct (split_lines st' rest) as [ys' e'] eqn:E2. intros H; inversion H; subst.
      destruct (step_chunk st line) as [ch|]; [|contradiction].
      destruct S as (_ & _ & -> & Eb). cbn [filter]. unfold nonblank_chunk at 1. rewrite Eb. cbn [negb map].
      f_equal. eapply IH; eauto.
    + intros H; inversion H; reflexivity.
Qed.

(* ---------- what the state looks like after any line ---------- *)
Definition st_inv (st : sstate) : Prop :=
  (buffer st = [] -> unmatched st = 0 /\ complete st = true) /\
  (buffer st <> [] -> unmatched st <> 0 \/ complete st = false).
(* an open fence: the buffer starts with the line that opened it *)
Definition fence_inv (st : sstate) : Prop :=
  complete st = false -> exists l b, rev (buffer st) = l :: b /\ startswith "```" l = true.

Lemma st_inv_s0 : st_inv s0 /\ fence_inv s0.
Proof. split; [split; cbn; [auto|congruence]|intros H; discriminate]. Qed.

Lemma split_step_inv st line st' :
  (split_step st line = StCont st' \/ exists eq, split_step st line = StYield eq st') ->
  st_inv st' /\ (fence_inv st -> fence_inv st').
Proof.
  unfold split_step.
  destruct (startswith "```" line && match buffer st with [] => true | _ => false end) eqn:Ef.
  { intros [H|(eq & H)]; [|discriminate]. inversion H; subst. split.
    - split; cbn; [discriminate|auto].
    - intros _ _. cbn. apply andb_true_iff in Ef as [Ef Eb]. destruct (buffer st); [|discriminate]. cbn. eauto. }
  destruct (count_parens (unmatched st) line) as [u|]; [|intros [H|(eq & H)]; discriminate].
  destruct ((u =? 0) && (if startswith "```" line then true else complete st)) eqn:E.
  - apply andb_true_iff in E as [Eu Ec]. apply Nat.eqb_eq in Eu.
    assert (R : st_inv (mkS u (if startswith "```" line then true else complete st) []) /\
                (fence_inv st -> fence_inv (mkS u (if startswith "```" line then true else complete st) []))).
    { split; [split; cbn; [auto|congruence]|]. intros _ H. cbn in H. congruence. }
    destruct (is_blank _); [intros [H|(eq & H)]; [inversion H; subst; exact R|discriminate]|].
    destruct (stmt_ok (join_nl _)); [intros [H|(eq & H)]; [discriminate|inversion H; subst; exact R]|].
    destruct (stmt_ok (py_strip _)); intros [H|(eq & H)]; discriminate.
  - intros [H|(eq & H)]; [|discriminate]. inversion H; subst. split.
    + split; cbn; [discriminate|]. intros _. apply andb_false_iff in E as [E|E]; [left; apply Nat.eqb_neq; exact E|right; exact E].
    + intros F Hc. cbn in Hc. destruct (startswith "```" line); [discriminate|].
      destruct (F Hc) as (l & b & Eb & Hl). cbn [buffer rev]. rewrite Eb. exists l, (b ++ [line])%list. split; [reflexivity|exact Hl].
Qed.

Lemma final_state_inv lines : forall st stf,
  final_state st lines = Some stf -> st_inv st -> fence_inv st -> st_inv stf /\ fence_inv stf.
Proof.
  induction lines as [|line rest IH]; intros st stf; cbn [final_state].
  - intros H; inversion H; subst. auto.
  - destruct (split_step st line) as [st'|eq st'|e] eqn:E; [| |discriminate]; intros H I F.
    + destruct (split_step_inv st line st' (or_introl E)) as [I' F']. eapply IH; eauto.
    + destruct (split_step_inv st line st' (or_intror (ex_intro _ eq E))) as [I' F']. eapply IH; eauto.
Qed.

(* the iteration ended without raising: a final state exists, its bracket counter is zero and no fence is open (85765d5) *)
Lemma split_lines_final lines : forall st ys,
  split_lines st lines = (ys, None) -> exists stf, final_state st lines = Some stf /\ unmatched stf = 0.
Proof. intros st ys H. destruct (split_lines_ok_closed lines st ys H) as (stf & A & B & _). eauto. Qed.
(* conversely: it raised, and there is no final state, or the final bracket counter is not zero, or a fence is open *)
Lemma split_lines_error_final lines : forall st ys e,
  split_lines st lines = (ys, Some e) ->
  final_state st lines = None \/ exists stf, final_state st lines = Some stf /\ (unmatched stf <> 0 \/ complete stf = false).
Proof.
  induction lines as [|line rest IH]; intros st ys e; cbn [split_lines final_state].
  - destruct (complete st) eqn:Ec; cbn [negb]; [|intros _; right; exists st; auto].
    destruct (unmatched st =? 0) eqn:E; [discriminate|]. intros _. right. exists st. split; [reflexivity|left; apply Nat.eqb_neq; exact E].
  - destruct (split_step st line) as [st'|eq st'|e']; [apply IH| |auto].
    destruct (split_lines st' rest) as [ys' e''] eqn:E2. intros H; inversion H; subst. eapply IH; eauto.
Qed.

(* ---------- the whole input ---------- *)
(* For EVERY input on which the splitter raises nothing: the loop ends with an empty buffer, no bracket and no fence open;
   the comment-stripped lines are exactly the chunks in order (no line is lost) and the statements are the non-blank chunks. *)
Theorem accepted_lines_partition s ys :
  split_M s = (ys, None) ->
  exists stf, final_state s0 (model_lines s) = Some stf /\ unmatched stf = 0 /\ complete stf = true /\ buffer stf = [] /\
    model_lines s = concat (model_chunks s) /\
    ys = map join_nl (filter nonblank_chunk (model_chunks s)).
Proof.
  unfold split_M, model_chunks. intros H.
  destruct (split_lines_ok_closed _ _ _ H) as (stf & Hf & Hu & Hc). exists stf.
  destruct st_inv_s0 as [I0 F0]. destruct (final_state_inv _ _ _ Hf I0 F0) as [[_ I2] _].
  assert (Hb : buffer stf = []).
  { destruct (buffer stf) as [|x b] eqn:Eb; [reflexivity|]. destruct I2 as [Hne|Hc']; [discriminate|contradiction|congruence]. }
  split; [exact Hf|]. split; [exact Hu|]. split; [exact Hc|]. split; [exact Hb|].
  split; [|exact (split_lines_chunks _ _ _ _ H)].
  pose proof (chunks_conserve _ _ _ Hf) as C. rewrite Hb in C. cbn [rev buffer s0 app] in C. rewrite app_nil_r in C. exact C.
Qed.

(* 85765d5: a fence that is still open when the input ends is ALWAYS a ParserError (the finding "an unclosed fence
   silently drops every later statement" is repaired) *)
Theorem unclosed_fence_is_parser_error s : ends_in_open_fence s = true -> snd (split_M s) = Some ParserError.
Proof.
  unfold ends_in_open_fence, split_M. destruct (final_state s0 (model_lines s)) as [stf|] eqn:Ef; [|discriminate].
  intros H. apply negb_true_iff in H. exact (split_lines_open_fence _ _ _ Ef H).
Qed.

Lemma all_closed_spec s : all_closed s = true <-> exists stf, final_state s0 (model_lines s) = Some stf /\ buffer stf = [].
Proof.
  unfold all_closed. destruct (final_state s0 (model_lines s)) as [st|].
  - destruct (buffer st) eqn:E; split; intros H; eauto; try discriminate.
    + destruct H as (stf & Hs & Hb). inversion Hs; subst. congruence.
  - split; [discriminate|intros (stf & H & _); discriminate].
Qed.

(* no exception: every line belongs to exactly one chunk, every non-blank chunk is a statement *)
Theorem accepted_no_line_lost s ys :
  split_M s = (ys, None) ->
  all_closed s = true /\ ends_in_open_fence s = false /\ model_lines s = concat (model_chunks s) /\
  ys = map join_nl (filter nonblank_chunk (model_chunks s)).
Proof.
  intros H. destruct (accepted_lines_partition s ys H) as (stf & Hf & _ & Hc & Hb & Hp & Hy).
  split; [apply all_closed_spec; eauto|]. split; [unfold ends_in_open_fence; rewrite Hf, Hc; reflexivity|]. split; assumption.
Qed.
(* kept for importers (its second hypothesis is superfluous since 85765d5) *)
Theorem closed_no_line_lost s ys :
  split_M s = (ys, None) -> ends_in_open_fence s = false ->
  all_closed s = true /\ model_lines s = concat (model_chunks s) /\
  ys = map join_nl (filter nonblank_chunk (model_chunks s)).
Proof. intros H _. destruct (accepted_no_line_lost s ys H) as (A & _ & B & C). auto. Qed.

(* ---------- a chunk dropped as blank is a single blank line ---------- *)
Lemma paren_not_pyspace : is_pyspace "(" = false /\ is_pyspace "`" = false.
Proof. split; reflexivity. Qed.

Lemma lstrip_blank_all s : is_blank s = true -> forall c, has_char c s = true -> is_pyspace c = true.
Proof.
  unfold is_blank, lstrip_by. induction s as [|d s IH]; cbn [span_while has_char]; [intros _ c H; discriminate|].
  destruct (is_pyspace d) eqn:Ed.
  - destruct (span_while is_pyspace s) as [a b] eqn:E. cbn [snd] in *. intros Hb c Hc.
    apply orb_true_iff in Hc as [Hc|Hc].
    + apply Ascii.eqb_eq in Hc. subst. exact Ed.
    + apply IH; assumption.
  - cbn. discriminate.
Qed.

Lemma has_char_join_in ch l x : In x l -> has_char ch x = true -> has_char ch (join_nl l) = true.
Proof.
  induction l as [|y r IH]; [intros []|]. intros [<-|Hx] Hc.
  - destruct r as [|z r']; cbn [join_nl]; [exact Hc|]. apply has_char_app_l. exact Hc.
  - destruct r as [|z r']; [destruct Hx|]. cbn [join_nl]. apply has_char_app_r. apply has_char_app_r. apply IH; assumption.
Qed.

Lemma startswith_fence_has l : startswith "```" l = true -> has_char "`" l = true.
Proof.
  destruct l as [|c r]; [intros H; discriminate H|]. unfold startswith. cbn [prefix_rest has_char].
  destruct (Ascii.eqb_spec "`" c) as [<-|N]; [intros _; reflexivity|intros H; discriminate H].
Qed.

(* a positive bracket counter was raised by a "(" *)
Lemma count_parens_grow line : forall n u, count_parens n line = Some u -> n < u -> has_char "(" line = true.
Proof.
  induction line as [|c r IH]; intros n u; cbn [count_parens has_char].
  - intros H; inversion H; lia.
  - destruct (Ascii.eqb c "("); [reflexivity|]. cbn [orb].
    destruct (Ascii.eqb c ")").
    + destruct n as [|m]; [discriminate|]. intros H L. apply (IH m u H). lia.
    + apply IH.
Qed.

(* a positive bracket counter: some buffered line holds a "(" *)
Definition cnt_inv (st : sstate) : Prop :=
  unmatched st <> 0 -> exists x, In x (buffer st) /\ has_char "(" x = true.

Lemma split_step_cnt_inv st line st' :
  (split_step st line = StCont st' \/ exists eq, split_step st line = StYield eq st') -> cnt_inv st -> cnt_inv st'.
Proof.
  unfold split_step. intros H C.
  destruct (startswith "```" line && match buffer st with [] => true | _ => false end) eqn:Ef.
  { destruct H as [H|(eq & H)]; [|discriminate]. inversion H; subst.
    apply andb_true_iff in Ef as [Ef Eb]. destruct (buffer st) eqn:Ebs; [|discriminate].
    intros Hu. cbn in Hu. destruct (C Hu) as (x & Hx & _). rewrite Ebs in Hx. destruct Hx. }
  destruct (count_parens (unmatched st) line) as [u|] eqn:Ecp; [|destruct H as [H|(eq & H)]; discriminate].
  destruct ((u =? 0) && (if startswith "```" line then true else complete st)) eqn:E.
  - apply andb_true_iff in E as [Eu Ec]. apply Nat.eqb_eq in Eu.
    assert (R : cnt_inv (mkS u (if startswith "```" line then true else complete st) [])).
    { intros Hu; cbn in Hu; congruence. }
    destruct (is_blank _); [destruct H as [H|(eq & H)]; [inversion H; subst; exact R|discriminate]|].
    destruct (stmt_ok (join_nl _)); [destruct H as [H|(eq & H)]; [discriminate|inversion H; subst; exact R]|].
    destruct (stmt_ok (py_strip _)); destruct H as [H|(eq & H)]; discriminate.
  - destruct H as [H|(eq & H)]; [|discriminate]. inversion H; subst.
    intros Hu. cbn in Hu. cbn [buffer].
    destruct (Nat.eq_dec (unmatched st) 0) as [Z|NZ].
    + exists line. split; [left; reflexivity|]. apply (count_parens_grow line (unmatched st) u Ecp). lia.
    + destruct (C NZ) as (x & Hx & Hc). exists x. split; [right; exact Hx|exact Hc].
Qed.

Lemma blank_chunk_single_step st line ch :
  st_inv st -> fence_inv st -> cnt_inv st ->
  step_chunk st line = Some ch -> is_blank (join_nl ch) = true -> ch = [line] /\ is_blank line = true.
Proof.
  intros [_ I2] F C Hs Hb.
  assert (Ech : ch = rev (line :: buffer st)).
  { unfold step_chunk in Hs.
    destruct (startswith "```" line && match buffer st with [] => true | _ => false end); [discriminate|].
    destruct (count_parens (unmatched st) line) as [u|]; [|discriminate].
    destruct ((u =? 0) && (if startswith "```" line then true else complete st)); [|discriminate].
    inversion Hs; reflexivity. }
  destruct (buffer st) as [|y b] eqn:Eb.
  - subst ch. cbn in *. auto.
  - exfalso.
    pose proof (lstrip_blank_all _ Hb) as All. destruct paren_not_pyspace as [P1 P2].
    destruct (I2 ltac:(discriminate)) as [Hu|Hc].
    + destruct (C Hu) as (x & Hx & Hp). rewrite Eb in Hx.
      assert (Hin : In x ch) by (subst ch; apply -> in_rev; right; exact Hx).
      rewrite (All _ (has_char_join_in _ _ _ Hin Hp)) in P1. discriminate.
    + destruct (F Hc) as (l & bb & Er & Hl). rewrite Eb in Er. cbn [rev] in Er.
      assert (Hin : In l ch) by (subst ch; cbn [rev]; rewrite Er; left; reflexivity).
      rewrite (All _ (has_char_join_in _ _ _ Hin (startswith_fence_has _ Hl))) in P2. discriminate.
Qed.

Theorem blank_chunk_single lines : forall st ch,
  st_inv st -> fence_inv st -> cnt_inv st ->
  In ch (split_chunks st lines) -> nonblank_chunk ch = false -> exists l, ch = [l] /\ is_blank l = true.
Proof.
  induction lines as [|line rest IH]; intros st ch I F C; cbn [split_chunks]; [intros []|].
  destruct (split_step st line) as [st'|eq st'|e] eqn:E; [| |intros []].
  - destruct (split_step_inv st line st' (or_introl E)) as [I' F'].
    pose proof (split_step_cnt_inv st line st' (or_introl E) C) as C'.
    destruct (step_chunk st line) as [c0|] eqn:Es; [|intros H; eapply IH; eauto].
    intros [<-|H] Hb; [|eapply IH; eauto].
    apply negb_false_iff in Hb. destruct (blank_chunk_single_step _ _ _ I F C Es Hb). eauto.
  - destruct (split_step_inv st line st' (or_intror (ex_intro _ eq E))) as [I' F'].
    pose proof (split_step_cnt_inv st line st' (or_intror (ex_intro _ eq E)) C) as C'.
    destruct (step_chunk st line) as [c0|] eqn:Es; [|intros H; eapply IH; eauto].
    intros [<-|H] Hb; [|eapply IH; eauto].
    apply negb_false_iff in Hb. destruct (blank_chunk_single_step _ _ _ I F C Es Hb). eauto.
Qed.

Lemma cnt_inv_s0 : cnt_inv s0.
Proof. intros H. cbn in H. congruence. Qed.

(* in a whole model: every chunk that is not a statement is one blank (or comment-only) line *)
Theorem model_blank_chunk_single s ch :
  In ch (model_chunks s) -> nonblank_chunk ch = false -> exists l, ch = [l] /\ is_blank l = true.
Proof. destruct st_inv_s0 as [I F]. apply blank_chunk_single; [exact I|exact F|exact cnt_inv_s0]. Qed.

(* ---------- comments: no "#" survives into any statement ---------- *)
Lemma has_char_app ch a b : has_char ch (a ++ b) = has_char ch a || has_char ch b.
Proof. induction a as [|c a IH]; cbn [append has_char]; [reflexivity|]. rewrite IH. apply orb_assoc. Qed.
Lemma has_char_rev_str ch s : forall acc, has_char ch (rev_str s acc) = has_char ch s || has_char ch acc.
Proof.
  induction s as [|c s IH]; intros acc; cbn [rev_str has_char]; [reflexivity|].
  rewrite IH. cbn [has_char]. destruct (Ascii.eqb c ch), (has_char ch s), (has_char ch acc); reflexivity.
Qed.
Lemma has_char_lstrip ch p s : has_char ch s = false -> has_char ch (lstrip_by p s) = false.
Proof.
  unfold lstrip_by. induction s as [|c s IH]; cbn [span_while has_char]; [reflexivity|].
  intros H. apply orb_false_iff in H as [Hc Hs]. destruct (p c).
  - destruct (span_while p s) as [a b]. cbn [snd] in *. apply IH, Hs.
  - cbn [snd has_char]. rewrite Hc, Hs. reflexivity.
Qed.
Lemma has_char_rstrip ch p s : has_char ch s = false -> has_char ch (rstrip_by p s) = false.
Proof.
  intros H. unfold rstrip_by. rewrite has_char_rev_str. cbn [has_char]. rewrite orb_false_r.
  apply has_char_lstrip. rewrite has_char_rev_str. cbn [has_char]. rewrite H. reflexivity.
Qed.
Lemma find_any_before ch s a b : find_any ch s = Some (a, b) -> has_char ch a = false.
Proof.
  revert a b. induction s as [|c s IH]; cbn [find_any]; intros a b; [discriminate|].
  destruct (Ascii.eqb c ch) eqn:E; [intros H; inversion H; reflexivity|].
  destruct (find_any ch s) as [[a' b']|]; [|discriminate]. intros H; inversion H; subst.
  cbn [has_char]. rewrite E. cbn. eapply IH; reflexivity.
Qed.

Lemma strip_comments_no_hash line : has_char "#" (strip_comments line) = false.
Proof.
  unfold strip_comments. destruct (find_any "#" line) as [[a b]|] eqn:E.
  - apply has_char_rstrip. eapply find_any_before; eauto.
  - apply find_any_none, E.
Qed.
(* a line without "#" is left as it is *)
Lemma strip_comments_id line : has_char "#" line = false -> strip_comments line = line.
Proof.
  unfold strip_comments. destruct (find_any "#" line) as [[a b]|] eqn:E; [|reflexivity].
  intros H. rewrite (find_any_has _ _ _ _ E) in H. discriminate.
Qed.

Lemma has_char_join_none ch l :
  Ascii.eqb nl ch = false -> (forall x, In x l -> has_char ch x = false) -> has_char ch (join_nl l) = false.
Proof.
  intros Hn. induction l as [|x r IH]; intros H; [reflexivity|].
  destruct r as [|y r']; cbn [join_nl]; [apply H; left; reflexivity|].
  rewrite !has_char_app. rewrite (H x (or_introl eq_refl)). unfold nl_s. cbn [has_char]. rewrite Hn. cbn [orb].
  apply IH. intros z Hz. apply H. right. exact Hz.
Qed.

Lemma split_lines_no_hash lines : forall st ys oe,
  (forall l, In l (buffer st) -> has_char "#" l = false) -> (forall l, In l lines -> has_char "#" l = false) ->
  split_lines st lines = (ys, oe) -> forall y, In y ys -> has_char "#" y = false.
Proof.
  induction lines as [|line rest IH]; intros st ys oe Hb Hl; cbn [split_lines].
  - intros H; inversion H; subst. intros y [].
  - pose proof (split_step_chunk st line) as S.
    assert (Hrest : forall l, In l rest -> has_char "#" l = false) by (intros l Hi; apply Hl; right; exact Hi).
    assert (Hbuf : forall l, In l (line :: buffer st) -> has_char "#" l = false).
    { intros l [<-|Hi]; [apply Hl; left; reflexivity|apply Hb, Hi]. }
    destruct (split_step st line) as [st'|eq st'|e].
    + apply IH; [|exact Hrest]. destruct (step_chunk st line) as [ch|].
      * destruct S as (_ & -> & _). intros l [].
      * rewrite S. exact Hbuf.
    + destruct (split_lines st' rest) as [ys' e'] eqn:E2. intros H; inversion H; subst.
      destruct (step_chunk st line) as [ch|]; [|contradiction]. destruct S as (-> & Eb & -> & _).
      intros y [<-|Hy].
      * apply has_char_join_none; [reflexivity|]. intros x Hx. apply in_rev in Hx. apply Hbuf, Hx.
      * eapply IH; [| |exact E2|exact Hy]; [rewrite Eb; intros l []|exact Hrest].
    + intros H; inversion H; subst. intros y [].
Qed.

(* for EVERY input string: no statement handed to parse_equation contains a "#" — comment text never reaches the
   term lexer, the templates or the generated code *)
Theorem statements_have_no_comment s y : In y (fst (split_M s)) -> has_char "#" y = false.
Proof.
  unfold split_M. destruct (split_lines s0 (model_lines s)) as [ys oe] eqn:E. cbn [fst].
  eapply split_lines_no_hash; [| |exact E]; [intros l []|].
  unfold model_lines. intros l Hl. apply in_map_iff in Hl as (x & <- & _). apply strip_comments_no_hash.
Qed.
