(* ParseContribExamples.v — the hypotheses of no_statement_discarded / every_statement_contributes are satisfiable
   by an ordinary script (fenced block, comment, blank line, bracketed continuation), and each of them is needed:
   the witnesses of ParseModelExamples violate exactly one of them (the unclosed fence is an error since 85765d5).  All by computation. *)
From Coq Require Import String Ascii List Bool Arith ZArith.
Import ListNotations.
Require Import Generated PyBase PyStr Lex Format Symbols Split SplitFacts SplitChunks SplitChunksFacts Merge ParseEq ParseEqFacts
               ParseModel ParseModelFacts ParseModelExamples ParseContribFacts FormatDecideFacts SplitInsertFacts MergeUniqueFacts ParseCountFacts SplitFenceGuardFacts.
Open Scope string_scope.

Definition ordinary : string :=
  lines ["# a model"; "Y = C + I"; ""; "```"; "x = 1"; "```"; "(C ="; "   {a} * Y[-1])  # consumption"; "   "].

Example ordinary_chunks :
  model_chunks ordinary = [[""]; ["Y = C + I"]; [""]; ["```"; "x = 1"; "```"]; ["(C ="; "   {a} * Y[-1])"]; ["   "]].
Proof. vm_compute. reflexivity. Qed.

Example ordinary_hyps :
  (exists out, parse_model_nocheck ordinary = POk out /\ n_emitted out = 3) /\
  (forall st, In st (fst (split_M ordinary)) -> stmt_guard st) /\
  NoDup (emit_names (concat (stmt_symbols ordinary))).
Proof.
  split; [eexists; split; vm_compute; reflexivity|]. split.
  - intros st H. vm_compute in H. destruct H as [<-|[<-|[<-|[]]]].
    + right. eexists. exists "Y". split; vm_compute; reflexivity.
    + left. vm_compute. reflexivity.
    + right. eexists. exists "C". split; vm_compute; reflexivity.
  - vm_compute. repeat constructor; cbn; intuition discriminate.
Qed.

(* each hypothesis is needed: the finding witnesses break exactly the corresponding one *)
Example unclosed_fence_now_rejected :     (* 85765d5 *)
  ends_in_open_fence unclosed_fence = true /\ snd (split_M unclosed_fence) = Some ParserError.
Proof. vm_compute. split; reflexivity. Qed.
Example duplicate_breaks_nodup : ~ NoDup (emit_names (concat (stmt_symbols duplicate_statements))).
Proof. vm_compute. intros H. inversion H as [|x l Hn _]; subst. apply Hn. left. reflexivity. Qed.
Example two_names_break_lhs_guard : forall terms y, parse_equation_terms "Y,Z = 1,2" = Ret terms -> lhs_guard y terms = false.
Proof.
  intros terms y H. vm_compute in H. inversion H; subst. unfold lhs_guard. cbn [forallb ttype tname].
  destruct (String.eqb_spec "Y" y) as [<-|N]; [reflexivity|reflexivity].
Qed.

(* the bracket counter also runs inside fenced blocks (only the opening fence line is skipped): a verbatim block whose
   code holds an unbalanced "(" is not closed by its closing fence, and the script ends in a ParserError; a ")" raises at once *)
Example fence_with_open_bracket_not_closed :
  parse_model_nocheck (lines ["```"; "x = '('"; "```"; "Y = X"]) = PErr ParserError /\
  final_state s0 (model_lines (lines ["```"; "x = '('"; "```"; "Y = X"])) = Some (mkS 1 true ["Y = X"; "```"; "x = '('"; "```"]).
Proof. vm_compute. split; reflexivity. Qed.
Example fence_with_close_bracket_raises : parse_model_nocheck (lines ["```"; "x = ')'"; "```"]) = PErr ParserError.
Proof. vm_compute. reflexivity. Qed.
Example fence_balanced_ok : n_statements (lines ["```"; "x = f(1)"; "```"; "Y = X"]) = 2.
Proof. vm_compute. reflexivity. Qed.

(* where the model is silent: the undecided instance has a stray "{", ordinary statements have none *)
Example unmodelled_has_stray_brace : has_stray_open "Y = X + {[0]} + Z" = true.
Proof. vm_compute. reflexivity. Qed.
Example ordinary_no_stray_brace : forallb (fun st => negb (has_stray_open st)) (fst (split_M ordinary)) = true.
Proof. vm_compute. reflexivity. Qed.
(* the converse fails: a stray "{" is usually a plain ParserError (decided) *)
Example stray_brace_decided : has_stray_open "Y = {0}" = true /\ parse_model_nocheck "Y = {0}" = PErr ParserError.
Proof. vm_compute. split; reflexivity. Qed.

(* blank_line_between_statements_irrelevant: its premises on a concrete pair of scripts *)
Example blank_insert_hyps :
  let s1 := lines ["Y = X"; "Z = W"] in let s2 := lines ["Y = X"; "  # note"; "Z = W"] in
  model_lines s1 = (["Y = X"] ++ ["Z = W"])%list /\ model_lines s2 = (["Y = X"] ++ "" :: ["Z = W"])%list /\
  final_state s0 ["Y = X"] = Some (mkS 0 true []) /\ is_blank "" = true /\
  parse_model_nocheck s2 = parse_model_nocheck s1.
Proof. vm_compute. repeat split; reflexivity. Qed.
(* … and the premise "no bracket / fence open" is needed: inside a fenced block a blank line is part of the code *)
Example blank_inside_fence_matters :
  parse_model_nocheck (lines ["```"; "x = 1"; ""; "```"]) <> parse_model_nocheck (lines ["```"; "x = 1"; "```"]).
Proof. vm_compute. discriminate. Qed.

(* model_equation_count on the finding witnesses: distinct equation-carrying names + verbatim statements *)
Definition eq_names (s : string) : list string := emit_names (concat (stmt_symbols s)).
Example count_duplicates : eq_names duplicate_statements = ["Y"; "Y"] /\ count_new [] (eq_names duplicate_statements) = 1.
Proof. vm_compute. split; reflexivity. Qed.
Example count_two_lhs : eq_names "Y,Z = 1,2" = ["Y"; "Z"] /\ count_new [] (eq_names "Y,Z = 1,2") = 2.
Proof. vm_compute. split; reflexivity. Qed.
Example count_ordinary :
  count_new [] (eq_names ordinary) = 2 /\ length (filter backticked (fst (split_M ordinary))) = 1 /\ accepted_emits ordinary = Some 3.
Proof. vm_compute. repeat split; reflexivity. Qed.

(* the exact guard on the witnesses: it fails on the two remaining findings and holds on the ordinary script *)
Example exact_guard_values :
  exact_count_guard duplicate_statements = false /\ exact_count_guard "Y,Z = 1,2" = false /\ exact_count_guard ordinary = true.
Proof. vm_compute. repeat split; reflexivity. Qed.

(* fences_clean: holds on ordinary scripts (fenced block included); fails on the two shapes of an '='-less non-verbatim statement (ParserError since 1c7ed70, formerly ValueError) —
   a fence line met inside an open bracket, and a fence line with text after its backticks *)
Definition eqless_fence2 : string := lines ["```"; "foo```"; "```x"].
Example fences_clean_values :
  fences_clean_model ordinary = true /\ fences_clean_model eqless_fence = false /\ fences_clean_model eqless_fence2 = false /\
  parse_model_nocheck eqless_fence2 = PErr ParserError /\ no_eqless_statement eqless_fence2 = false.
Proof. vm_compute. repeat split; reflexivity. Qed.
