(* ParseEqYieldFacts.v — parse_equation on a statement that parse_model hands it: the blank test and the
   "exactly one statement" re-split (fsic/parser.py:545-563) always pass (SplitIdemFacts.split_idempotent), so
   parse_equation_M reduces to its body.  None of parse_model's ParserErrors comes from that check. *)
From Coq Require Import String Ascii List Bool Arith ZArith.
Import ListNotations.
Require Import Generated PyBase PyStr Lex Format Symbols Split SplitFacts SplitIdemFacts Merge ParseEq.
Open Scope string_scope.

(* parse_equation after its two entry checks *)
Definition parse_equation_body (equation : string) : pres (list symbol) :=
  if head_is "`" equation && last_is "`" equation then
    POk [mkSymbol None TVerbatim None None (Some equation) (Some (strip_chars ["`"; cr; nl]%char equation))]
  else if negb (count_char "{" equation =? count_char "}" equation)%nat then PErr ParserError
  else
    match parse_equation_terms equation with
    | Raise e => PErr e
    | Ret terms =>
      let tpl := template equation in
      match all_some (map term_str terms), all_some (map term_code terms) with
      | Some strs, Some codes =>
        match py_format tpl strs with
        | FFail => PErr ParserError
        | FUnmodelled => PUnmodelled
        | FOk standardised =>
          match py_format tpl codes with
          | FFail => PErr ParserError
          | FUnmodelled => PUnmodelled
          | FOk code => of_outcome (equation_symbols standardised code terms)
          end
        end
      | _, _ => PErr TypeError
      end
    end.

Lemma parse_equation_M_single eq :
  is_blank eq = false -> split_M eq = ([eq], None) -> parse_equation_M eq = parse_equation_body eq.
Proof. intros Hb Hs. unfold parse_equation_M, parse_equation_body. rewrite Hb, Hs. reflexivity. Qed.

(* for EVERY script s and every statement y of s *)
Theorem parse_equation_M_yielded s y : In y (fst (split_M s)) -> parse_equation_M y = parse_equation_body y.
Proof.
  intros H. apply parse_equation_M_single; [|exact (split_idempotent s y H)].
  destruct (split_M s) as [ys oe] eqn:E. exact (proj2 (split_M_stmts s ys oe y E H)).
Qed.
