(* MergeClashFacts.v — finding #19 repaired (fix b45daa1): within one equation a name cannot be both a function and a
   variable / parameter / error.  For EVERY term list: if the symbol loop of parse_equation returns, then any two of its
   (non-verbatim) terms with the same name are both FUNCTION terms or both not; otherwise the loop raises, and the
   exception is SymbolError (or ParserError) by MergeFacts.  So a statement such as 'Y = Y(1)', 'Y = exp + exp(X)' or
   'Y = {a} + a(X)' can no longer be accepted with one of the two uses silently dropped. *)
From Coq Require Import String Ascii List Bool Arith ZArith.
Import ListNotations.
Require Import PyBase PyStr Symbols SymbolsFacts Merge MergeFacts ParseContribFacts MergeUniqueFacts.
Open Scope string_scope.

Definition is_fn (ty : ptype) : bool := type_eqb ty TFunction.

(* every processed term's name is in the dict, under a symbol that is a FUNCTION iff the term is *)
Definition seen_ok (d : list (string * symbol)) (seen : list term) : Prop :=
  forall t, In t seen -> exists v, dict_get (tname t) d = Some v /\ is_fn (stype v) = is_fn (ttype t).

Lemma is_variable_not_fn ty : is_variable_type ty = true -> is_fn ty = false.
Proof. destruct ty; cbn; intros H; try discriminate; reflexivity. Qed.

Lemma combine_fn a b c : combine a b = Ret c -> is_fn (stype c) = is_fn (stype a) /\ is_fn (stype c) = is_fn (stype b).
Proof.
  intros H. destruct (combine_ret _ _ _ H) as (_ & Ht & _).
  destruct Ht as [[E1 E2]|(_ & Va & Vb & E)].
  - rewrite E2. split; [reflexivity|rewrite E1; reflexivity].
  - rewrite E. destruct (type_max_cases (stype a) (stype b)) as [-> | ->];
      rewrite (is_variable_not_fn _ Va), (is_variable_not_fn _ Vb); split; reflexivity.
Qed.

Lemma go_seen eqn code terms : forall d fs d' seen,
  seen_ok d seen -> (forall t, In t seen -> ttype t <> TVerbatim) ->
  equation_symbols_go eqn code terms d fs = Ret d' ->
  seen_ok d' (seen ++ filter (fun t => negb (type_eqb (ttype t) TVerbatim)) terms).
Proof.
  induction terms as [|t rest IH]; intros d fs d' seen S NV; cbn [equation_symbols_go filter].
  - intros H; inversion H; subst. rewrite app_nil_r. exact S.
  - assert (COMB : forall sym, stype sym = ttype t -> ttype t <> TVerbatim ->
              match dict_combine (tname t) sym d with Ret dd => equation_symbols_go eqn code rest dd fs | Raise e => Raise e end = Ret d' ->
              seen_ok d' (seen ++ t :: filter (fun t0 => negb (type_eqb (ttype t0) TVerbatim)) rest)).
    { intros sym Hty Hnv. unfold dict_combine.
      destruct (combine (match dict_get (tname t) d with Some old => old | None => sym end) sym) as [c|] eqn:Ec; [|discriminate].
      intros H. change (seen ++ t :: filter _ rest)%list with (seen ++ [t] ++ filter (fun t0 => negb (type_eqb (ttype t0) TVerbatim)) rest)%list.
      rewrite app_assoc. apply (IH (dict_set (tname t) c d) fs d' (seen ++ [t])%list); [| |exact H].
      - destruct (combine_fn _ _ _ Ec) as [Fa Fb]. intros u Hu. apply in_app_or in Hu as [Hu|[<-|[]]].
        + destruct (S u Hu) as (v & Hg & Hf). destruct (String.eqb_spec (tname u) (tname t)) as [E|N].
          * rewrite E. exists c. split; [apply dict_get_set_same|]. rewrite E in Hg. rewrite Hg in Fa. rewrite Fa. exact Hf.
          * exists v. split; [rewrite (dict_get_set_other _ _ _ _ N); exact Hg|exact Hf].
        + exists c. split; [apply dict_get_set_same|]. rewrite Fb, Hty. reflexivity.
      - intros u Hu. apply in_app_or in Hu as [Hu|[<-|[]]]; [apply NV, Hu|exact Hnv]. }
    destruct (ttype t) eqn:Ety; cbn [type_eqb negb].
    all: try (apply COMB; [reflexivity|discriminate]).
    apply IH; assumption.
Qed.

(* For every term list: the loop returns only if no name is used both as a function and as something else *)
Theorem equation_symbols_no_clash eqn code terms syms :
  equation_symbols eqn code terms = Ret syms ->
  forall t1 t2, In t1 terms -> In t2 terms -> ttype t1 <> TVerbatim -> ttype t2 <> TVerbatim -> tname t1 = tname t2 ->
  is_fn (ttype t1) = is_fn (ttype t2).
Proof.
  unfold equation_symbols. destruct (equation_symbols_go eqn code terms [] []) as [d|] eqn:E; [|discriminate]. intros _.
  pose proof (go_seen eqn code terms [] [] d [] (fun t (H : In t []) => match H with end) (fun t (H : In t []) => match H with end) E) as S.
  cbn [app] in S. intros t1 t2 H1 H2 N1 N2 En.
  assert (F : forall t, In t terms -> ttype t <> TVerbatim -> In t (filter (fun t0 => negb (type_eqb (ttype t0) TVerbatim)) terms)).
  { intros t Ht Hn. apply filter_In. split; [exact Ht|]. destruct (type_eqb (ttype t) TVerbatim) eqn:Et; [apply type_eqb_eq in Et; contradiction|reflexivity]. }
  destruct (S t1 (F t1 H1 N1)) as (v1 & G1 & F1). destruct (S t2 (F t2 H2 N2)) as (v2 & G2 & F2).
  rewrite En in G1. rewrite G1 in G2. inversion G2; subst. congruence.
Qed.

(* contrapositive, as the parser user sees it: a name used as a function and as a variable / parameter / error in one
   equation makes the loop raise *)
Corollary function_and_other_use_raises eqn code terms t1 t2 :
  In t1 terms -> In t2 terms -> tname t1 = tname t2 -> ttype t1 = TFunction -> ttype t2 <> TFunction -> ttype t2 <> TVerbatim ->
  exists e, equation_symbols eqn code terms = Raise e.
Proof.
  intros H1 H2 En T1 T2 N2. destruct (equation_symbols eqn code terms) as [syms|e] eqn:E; [|eauto]. exfalso.
  assert (N1 : ttype t1 <> TVerbatim) by (rewrite T1; discriminate).
  pose proof (equation_symbols_no_clash _ _ _ _ E t1 t2 H1 H2 N1 N2 En) as C. rewrite T1 in C. cbn in C.
  symmetry in C. apply type_eqb_eq in C. contradiction.
Qed.
