(* ParseModelExamples.v — concrete instances: refutation witnesses for the findings the model mirrors,
   non-vacuity of the guards, and a few documented behaviours.  All by computation. *)
From Coq Require Import String Ascii List Bool Arith ZArith.
Import ListNotations.
Require Import Generated PyBase PyStr Lex Format Symbols Split SplitFacts Merge ParseEq ParseEqFacts ParseModel ParseModelFacts.
Open Scope string_scope.

Definition lines (l : list string) : string := join_nl l.
Definition sym (n : string) (t : ptype) (lg ld : Z) (e c : option string) : symbol :=
  mkSymbol (Some n) t (Some (IInt lg)) (Some (IInt ld)) e c.

(* the module docstring's example *)
Example parse_docstring_example :
  parse_model_nocheck "Y = C + I + G" =
  POk [sym "Y" TEndogenous 0 0 (Some "Y[t] = C[t] + I[t] + G[t]") (Some "self._Y[t] = self._C[t] + self._I[t] + self._G[t]");
       sym "C" TExogenous 0 0 None None; sym "I" TExogenous 0 0 None None; sym "G" TExogenous 0 0 None None].
Proof. vm_compute. reflexivity. Qed.

Example parse_lags_leads_params :
  parse_model_nocheck "C = {alpha_1} * YD[ +1 ] + <e> + H[-2] + exp (K['2000'])" =
  POk [sym "C" TEndogenous 0 0 (Some "C[t] = alpha_1[t] * YD[t+1] + e[t] + H[t-2] + exp(K['2000'])")
           (Some "self._C[t] = self._alpha_1[t] * self._YD[t+1] + self._e[t] + self._H[t-2] + np.exp(self['K', '2000'])");
       sym "alpha_1" TParameter 0 0 None None; sym "YD" TExogenous 0 1 None None; sym "e" TError 0 0 None None;
       sym "H" TExogenous (-2) 0 None None;
       mkSymbol (Some "exp") TFunction None None None None; sym "K" TExogenous 0 0 None None].
Proof. vm_compute. reflexivity. Qed.

(* ---- a fence inside a bracketed statement satisfies equation_re through its first alternative although the statement
   has no '=': ParserError since fix 1c7ed70 (it used to be the one foreign exception left, ValueError) ---- *)
Definition eqless_fence : string := lines ["("; "```"; "```"; ")"].
Example eqless_fence_parser_error : parse_model_M chk_none false eqless_fence = PErr ParserError.      (* 1c7ed70; it was ValueError *)
Proof. vm_compute. reflexivity. Qed.
Example eqless_fence_outside_guard : no_eqless_statement eqless_fence = false.
Proof. vm_compute. reflexivity. Qed.
(* the guard is satisfiable by ordinary scripts, fenced blocks included *)
Example guard_holds_ordinary :
  no_eqless_statement (lines ["Y = C + I + G"; "```"; "x = 1"; "```"; "(C ="; "  {a} * Y)"; "# comment"]) = true.
Proof. vm_compute. reflexivity. Qed.

(* the three own errors do occur *)
Example parser_error_instance : parse_model_nocheck "Y = X)" = PErr ParserError.
Proof. vm_compute. reflexivity. Qed.
Example indentation_error_instance : parse_model_nocheck " Y = X" = PErr IndentationError.
Proof. vm_compute. reflexivity. Qed.
Example symbol_error_instance : parse_model_nocheck "Y = {Y}" = PErr SymbolError.
Proof. vm_compute. reflexivity. Qed.
(* repaired defects, as the model now has them *)
Example stray_braces_parser_error : parse_model_nocheck "Y = {0}" = PErr ParserError /\ parse_model_nocheck "Y = }{" = PErr ParserError.
Proof. vm_compute. split; reflexivity. Qed.
Example no_lhs_variable_parser_error :
  parse_model_nocheck "2 = X" = PErr ParserError /\ parse_model_nocheck "{p} = X" = PErr ParserError /\ parse_model_nocheck "<e> = X" = PErr ParserError.
Proof. vm_compute. repeat split; reflexivity. Qed.
(* the format fragment the model does not decide *)
Example unmodelled_instance : parse_model_nocheck "Y = X + {[0]} + Z" = PUnmodelled.
Proof. vm_compute. reflexivity. Qed.

(* braces that format accepts silently (NEW finding): the parameter vanishes from the equation *)
Example doubled_braces_drop_parameter :
  parse_model_nocheck "Y = {{a}}" =
  POk [sym "Y" TEndogenous 0 0 (Some "Y[t] = {}") (Some "self._Y[t] = {}"); sym "a" TParameter 0 0 None None].
Proof. vm_compute. reflexivity. Qed.

(* ---- every_statement_contributes: the witnesses ---- *)
Definition n_statements (s : string) : nat := length (fst (split_M s)).
Definition accepted_emits (s : string) : option nat :=
  match parse_model_nocheck s with POk syms => Some (n_emitted syms) | _ => None end.

(* #24 REPAIRED (85765d5): an unclosed fence used to swallow every later line silently; it is now a ParserError *)
Definition unclosed_fence : string := lines ["Y = X"; "```"; "foo = 1"; "Z = W"].
Example unclosed_fence_is_error :
  parse_model_nocheck unclosed_fence = PErr ParserError /\ parse_model_nocheck "```" = PErr ParserError /\
  final_state s0 (model_lines unclosed_fence) = Some (mkS 0 false ["Z = W"; "foo = 1"; "```"]) /\
  split_M unclosed_fence = (["Y = X"], Some ParserError).
Proof. vm_compute. repeat split; reflexivity. Qed.
(* the fence test comes before the bracket test; both are ParserError *)
Example open_fence_and_open_bracket : split_M (lines ["```"; "x = ("]) = ([], Some ParserError).
Proof. vm_compute. reflexivity. Qed.
(* two identical statements are merged into one equation (Y = Y + 1 twice is evaluated once) *)
Definition duplicate_statements : string := lines ["Y = Y[-1] + 1"; "Y = Y[-1] + 1"].
Example duplicate_statements_merge : n_statements duplicate_statements = 2 /\ accepted_emits duplicate_statements = Some 1.
Proof. vm_compute. split; reflexivity. Qed.
(* one statement with two names on its left-hand side contributes its equation twice *)
Example two_lhs_names_two_equations : n_statements "Y,Z = 1,2" = 1 /\ accepted_emits "Y,Z = 1,2" = Some 2.
Proof. vm_compute. split; reflexivity. Qed.
(* #19 REPAIRED (b45daa1): a name used both as a function and as a variable / parameter / error in one equation is a
   SymbolError in either order (the function symbol used to replace the other one silently); repeated calls of one
   function still collapse to one FUNCTION symbol; across statements the clash was always a SymbolError *)
Example function_name_clash_rejected :
  parse_model_nocheck "Y = Y(1)" = PErr SymbolError /\ parse_model_nocheck "Y = exp + exp(X)" = PErr SymbolError /\
  parse_model_nocheck "Y = exp(X) + exp" = PErr SymbolError /\ parse_model_nocheck "Y = {a} + a(X)" = PErr SymbolError /\
  parse_model_nocheck "Y = a(X) + <a>" = PErr SymbolError /\
  parse_model_nocheck (lines ["Y = a + 1"; "Z = a(1)"]) = PErr SymbolError.
Proof. vm_compute. repeat split; reflexivity. Qed.
Example repeated_calls_collapse :
  parse_model_nocheck "Y = f(X) + f(Z)" =
  POk [sym "Y" TEndogenous 0 0 (Some "Y[t] = f(X[t]) + f(Z[t])") (Some "self._Y[t] = f(self._X[t]) + f(self._Z[t])");
       mkSymbol (Some "f") TFunction None None None None; sym "X" TExogenous 0 0 None None; sym "Z" TExogenous 0 0 None None].
Proof. vm_compute. reflexivity. Qed.

(* ---- the oracle ---- *)
Definition chk_rejects (bad : string) (r : chk_res) (c : string) : chk_res := if String.eqb c bad then r else ChkOk.
Example syntax_error_is_parser_error :
  parse_model_M (chk_rejects "self._Y[t] = self._X[t] +" ChkSyntaxError) true (lines ["Y = X +"; "Z = 1"]) = PErr ParserError.
Proof. vm_compute. reflexivity. Qed.
Example later_statement_raises_first :     (* problem statements are reported only after every statement was read *)
  parse_model_M (chk_rejects "self._Y[t] = self._X[t] +" ChkSyntaxError) true (lines ["Y = X +"; " Z = 1"]) = PErr IndentationError.
Proof. vm_compute. reflexivity. Qed.
Example oracle_exception_propagates :
  parse_model_M (chk_rejects "self._Z[t] = 1" ChkOtherExn) true (lines ["Y = X"; "Z = 1"; "W = )"]) = PErr OtherError.
Proof. vm_compute. reflexivity. Qed.
Example oracle_exception_propagates_hyps :   (* the premises of chk_outcomes_propagate on that instance *)
  let chk := chk_rejects "self._Z[t] = 1" ChkOtherExn in
  passes chk "Y = X" /\ exists syms, parse_equation_M "Z = 1" = POk syms /\ codes_of syms = ([] ++ "self._Z[t] = 1" :: [])%list.
Proof.
  split.
  - eexists. split; [vm_compute; reflexivity|]. left. vm_compute. reflexivity.
  - eexists. split; vm_compute; reflexivity.
Qed.
Example unexpected_warning_is_parser_error :
  parse_model_M (chk_rejects "self._Y[t] = self._X[t]" (ChkOtherWarning 1)) true "Y = X" = PErr ParserError.
Proof. vm_compute. reflexivity. Qed.

(* 74fa5fb: a code that compile() refuses with ValueError / RecursionError / MemoryError / OverflowError is a problem
   statement like a SyntaxError: the model is a ParserError (these used to escape as foreign exceptions) *)
Example caught_exception_is_parser_error :
  parse_model_M (chk_rejects "self._Y[t] = self._X[t]" ChkCaughtExn) true (lines ["Y = X"; "Z = 1"]) = PErr ParserError.
Proof. vm_compute. reflexivity. Qed.
Example caught_exception_hyps :     (* the premises of compile_failure_is_parser_error on that instance *)
  let chk := chk_rejects "self._Y[t] = self._X[t]" ChkCaughtExn in
  snd (split_M (lines ["Y = X"; "Z = 1"])) = None /\ passes chk "Y = X" /\ passes chk "Z = 1" /\
  exists syms, parse_equation_M "Y = X" = POk syms /\ check_codes chk (codes_of syms) = VProblem.
Proof.
  split; [vm_compute; reflexivity|]. split; [eexists; split; [vm_compute; reflexivity|right; vm_compute; reflexivity]|].
  split; [eexists; split; [vm_compute; reflexivity|left; vm_compute; reflexivity]|].
  eexists. split; vm_compute; reflexivity.
Qed.
