(* ParseModel.v — fsic.parser.parse_model (fsic/parser.py:676-777).  Definitions only; no fuel.
   The syntax check under `warnings.catch_warnings(record=True)` is an oracle `chk` on the generated code string
   (a Section variable wherever theorems are stated).  Since fix 1847a2f the code is compiled as build_model embeds it:
   `compile('def _evaluate(self, t):\n' + textwrap.indent(code, '    ') + '\n    pass', '<string>', 'exec')`; chk c stands
   for the outcome of that call on the code c (harness: parser_common.compile_outcome wraps in the same way):
     ChkOk                 compiled, no warning recorded
     ChkSyntaxError        compile raised SyntaxError                        -> problem statement
     ChkCaughtExn          compile raised ValueError / RecursionError / MemoryError / OverflowError (null bytes, source nested too
                           deeply) -> problem statement (since fix 74fa5fb; these used to escape as foreign exceptions)
     ChkSyntaxWarning      exactly one warning, a SyntaxWarning              -> problem statement
     ChkOtherWarning n     one warning of another category (n = 1) or n >= 2 warnings -> ParserError
     ChkOtherExn           compile raised anything outside those five classes (it propagates)
   Splitting and parsing are interleaved as in the generator-based code: statement i is parsed (and
   checked) before statement i+1 is split, the generator's own closing error (unmatched brackets) comes
   after the last statement, the problem-statement report after that, the cross-equation merge last. *)
From Coq Require Import String Ascii List Bool Arith.
Import ListNotations.
Require Import PyBase PyStr Symbols Split Merge ParseEq.
Open Scope string_scope.

Inductive chk_res : Type :=
| ChkOk | ChkSyntaxError | ChkSyntaxWarning | ChkOtherWarning (n : nat) | ChkOtherExn
| ChkCaughtExn.   (* 74fa5fb: compile raised ValueError, RecursionError, MemoryError or OverflowError — caught like SyntaxError *)

Inductive verdict : Type := VFine | VProblem | VRaise (e : exn).

(* for e in equation_code: … *)
Fixpoint check_codes (chk : string -> chk_res) (codes : list string) : verdict :=
  match codes with
  | [] => VFine
  | e :: rest =>
    match chk e with
    | ChkOk => check_codes chk rest
    | ChkSyntaxError | ChkCaughtExn | ChkSyntaxWarning => VProblem   (* problem_statements.append(…); break *)
    | ChkOtherWarning _ => VRaise ParserError
    | ChkOtherExn => VRaise OtherError
    end
  end.
Fixpoint codes_of (syms : list symbol) : list string :=
  match syms with
  | [] => []
  | s :: r => match scode s with Some c => c :: codes_of r | None => codes_of r end
  end.

(* the `for i, statement in enumerate(split_equations_iter(model))` loop; acc = symbols_by_equation reversed *)
Fixpoint parse_statements (chk : string -> chk_res) (check_syntax : bool) (stmts : list string)
         (acc : list (list symbol)) (problems : bool) : pres (list (list symbol) * bool) :=
  match stmts with
  | [] => POk (rev acc, problems)
  | st :: rest =>
    match parse_equation_M st with
    | PErr e => PErr e
    | PUnmodelled => PUnmodelled
    | POk syms =>
      if check_syntax then
        match check_codes chk (codes_of syms) with
        | VRaise e => PErr e
        | VProblem => parse_statements chk check_syntax rest (syms :: acc) true
        | VFine => parse_statements chk check_syntax rest (syms :: acc) problems
        end
      else parse_statements chk check_syntax rest (syms :: acc) problems
    end
  end.

Definition parse_model_M (chk : string -> chk_res) (check_syntax : bool) (model : string) : pres (list symbol) :=
  let '(stmts, split_err) := split_M model in
  match parse_statements chk check_syntax stmts [] false with
  | PErr e => PErr e
  | PUnmodelled => PUnmodelled
  | POk (by_equation, problems) =>
    match split_err with
    | Some e => PErr e
    | None => if problems then PErr ParserError else of_outcome (merge_symbols by_equation)
    end
  end.

(* an oracle that accepts everything: parse_model(model, check_syntax=False) *)
Definition chk_none (_ : string) : chk_res := ChkOk.
Definition parse_model_nocheck (model : string) : pres (list symbol) := parse_model_M chk_none false model.

(* number of equations / verbatim blocks of a symbol list = what build_model_definition emits:
   symbols of type ENDOGENOUS or VERBATIM with an equation and code *)
Definition emits (s : symbol) : bool :=
  match stype s with
  | TEndogenous | TVerbatim => (match sequation s, scode s with Some _, Some _ => true | _, _ => false end)
  | _ => false
  end.
Definition n_emitted (syms : list symbol) : nat := length (filter emits syms).
