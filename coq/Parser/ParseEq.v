(* ParseEq.v — parse_terms / process_term_match, Term.__str__, Term.code, parse_equation_terms and
   parse_equation (fsic/parser.py:227-271, 456-673) as they are in the repaired tree:
   * any failure of template.format → ParserError (6fcad37);
   * a left-hand side with no ENDOGENOUS term → ParserError, tested after the keyword check (2ef3e7c).
   * a statement without '=' (reachable: a fence inside a bracketed statement) → ParserError (1c7ed70; it used to be
     the ValueError of `equation.split('=', maxsplit=1)`).
   Definitions only; no fuel. *)
From Coq Require Import String Ascii List Bool Arith ZArith DecimalString.
Import ListNotations.
Require Import Generated PyBase PyStr Lex Format Symbols Split Merge.
Open Scope string_scope.

(* ---------- int(text) for a Latin-1 str: optional surrounding whitespace, optional sign,
   decimal digits with single underscores between digits ---------- *)
Definition digit_z (c : ascii) : Z := (Z.of_N (N_of_ascii c) - 48)%Z.
Fixpoint parse_digits (acc : Z) (prev_digit : bool) (s : string) : option Z :=
  match s with
  | "" => if prev_digit then Some acc else None
  | String c r =>
    if is_digit c then parse_digits (acc * 10 + digit_z c)%Z true r
    else if Ascii.eqb c "_" && prev_digit then parse_digits acc false r
    else None
  end.
(* CPython >= 3.11: int(str) raises ValueError when the text has more than sys.get_int_max_str_digits() (default 4300)
   digit characters — leading zeros count, underscores, sign and surrounding whitespace do not *)
Definition int_max_str_digits : nat := 4300.
Fixpoint count_digits (s : string) : nat :=
  match s with "" => O | String c r => if is_digit c then S (count_digits r) else count_digits r end.
Definition py_int (txt : string) : option Z :=
  if Nat.ltb int_max_str_digits (count_digits (py_strip txt)) then None else
  match py_strip txt with
  | String c r =>
    if Ascii.eqb c "-" then (match parse_digits 0 false r with Some z => Some (- z)%Z | None => None end)
    else if Ascii.eqb c "+" then parse_digits 0 false r
    else parse_digits 0 false (String c r)
  | "" => None
  end.

(* str(int) *)
Definition string_of_Z (z : Z) : string := NilZero.string_of_int (Z.to_int z).

(* ---------- process_term_match ---------- *)
Definition kind_type (k : kind) : ptype :=
  match k with
  | KVerbatim => TVerbatim | KInvalid => TInvalid | KKeyword => TKeyword | KFunction => TFunction
  | KParameter => TParameter | KError => TError | KVariable => TVariable
  end.
Fixpoint drop_last (s : string) : string :=
  match s with "" => "" | String c "" => "" | String c r => String c (drop_last r) end.
Definition quoted_by (q : ascii) (s : string) : bool := head_is q s && last_is q s.

Definition mk_index (idx : option string) : outcome pidx :=
  match idx with
  | None => Ret (IInt 0)                                                        (* no index: contemporaneous *)
  | Some i =>
    if quoted_by "'" i || quoted_by """" i then Ret (IStr i)                     (* quoted period *)
    else if quoted_by "`" i then Ret (IStr (drop_last (match i with String _ r => r | "" => "" end)))  (* index_[1:-1] *)
    else match py_int i with Some z => Ret (IInt z) | None => Raise ParserError end
  end.
Definition mk_term (m : tmatch) : outcome term :=
  match mkind m with
  | KFunction | KKeyword => Ret (mkTerm (mname m) (kind_type (mkind m)) None)
  | k => match mk_index (mindex m) with
         | Ret i => Ret (mkTerm (mname m) (kind_type k) (Some i))
         | Raise e => Raise e
         end
  end.
Fixpoint map_o {A B} (f : A -> outcome B) (l : list A) : outcome (list B) :=
  match l with
  | [] => Ret []
  | a :: r => match f a with
              | Ret b => match map_o f r with Ret bs => Ret (b :: bs) | Raise e => Raise e end
              | Raise e => Raise e
              end
  end.
Definition parse_terms (expression : string) : outcome (list term) :=
  map_o mk_term (matches_of (scan_items expression)).

(* ---------- Term.__str__ and Term.code ---------- *)
(* None = the `raise TypeError` branch of __str__ (index_ neither int nor str) *)
Definition term_str (t : term) : option string :=
  match ttype t with
  | TFunction | TKeyword | TVerbatim => Some (tname t)
  | _ => match tindex t with
         | Some (IInt z) =>
           Some (tname t ++ (if (0 <? z)%Z then "[t+" ++ string_of_Z z ++ "]"
                             else if (z =? 0)%Z then "[t]"
                             else "[t" ++ string_of_Z z ++ "]"))
         | Some (IStr s) => Some (tname t ++ "[" ++ s ++ "]")
         | None => None
         end
  end.
Fixpoint assoc_s (k : string) (l : list (string * string)) : option string :=
  match l with
  | [] => None
  | (k', v) :: r => if String.eqb k k' then Some v else assoc_s k r
  end.
Definition term_code (t : term) : option string :=
  match term_str t with
  | None => None
  | Some code =>
    match ttype t with
    | TFunction | TKeyword => Some (match assoc_s code replacement_function_names with Some v => v | None => code end)
    | TVerbatim => Some (strip_by (fun c => Ascii.eqb c "`") code)
    | _ => match tindex t with
           | Some (IStr s) => Some ("self['" ++ tname t ++ "', " ++ s ++ "]")
           | _ => Some ("self._" ++ code)
           end
    end
  end.
Fixpoint all_some {A} (l : list (option A)) : option (list A) :=
  match l with
  | [] => Some []
  | Some a :: r => match all_some r with Some x => Some (a :: x) | None => None end
  | None :: _ => None
  end.

(* ---------- parse_equation_terms ---------- *)
Definition replace_type (new_type : ptype) (t : term) : term :=
  match ttype t with TVariable => mkTerm (tname t) new_type (tindex t) | _ => t end.
Definition has_type (ty : ptype) (l : list term) : bool := existsb (fun t => type_eqb (ttype t) ty) l.

Definition parse_equation_terms (equation : string) : outcome (list term) :=
  match find_any "=" equation with
  | None => Raise ParserError                     (* 1c7ed70: `if '=' not in equation: raise ParserError` (was ValueError from the unpacking of split('=')) *)
  | Some (lhs_text, rhs_text) =>
    match parse_terms lhs_text with
    | Raise e => Raise e
    | Ret l0 =>
      let lhs := map (replace_type TEndogenous) l0 in
      match parse_terms rhs_text with
      | Raise e => Raise e
      | Ret r0 =>
        let rhs := map (replace_type TExogenous) r0 in
        if has_type TKeyword lhs || has_type TInvalid rhs then Raise ParserError
        else if negb (has_type TEndogenous lhs) then Raise ParserError
        else Ret (lhs ++ rhs)%list
      end
    end
  end.

(* ---------- template ---------- *)
Fixpoint template_of (l : list item) : string :=
  match l with
  | [] => ""
  | Chr c :: r => String c (template_of r)
  | Tok _ _ :: r => "{}" ++ template_of r
  end.
(* re.sub(r'\s+', ' ', ·) *)
Fixpoint sub_ws (in_ws : bool) (s : string) : string :=
  match s with
  | "" => ""
  | String c r => if is_space c then (if in_ws then sub_ws true r else String " " (sub_ws true r))
                  else String c (sub_ws false r)
  end.
(* re.sub(r'\(\s+', '(', ·) *)
Fixpoint sub_open (after_open : bool) (s : string) : string :=
  match s with
  | "" => ""
  | String c r => if after_open && is_space c then sub_open true r
                  else String c (sub_open (Ascii.eqb c "(") r)
  end.
(* re.sub(r'\s+\)', ')', ·) *)
Fixpoint sub_close (s : string) : string :=
  match s with
  | "" => ""
  | String c r => let r' := sub_close r in
                  if is_space c && head_is ")" r' then r' else String c r'
  end.
Definition normalise_template (t : string) : string := sub_close (sub_open false (sub_ws false t)).
Definition template (equation : string) : string := normalise_template (template_of (scan_items equation)).

Definition strip_chars (chars : list ascii) (s : string) : string := strip_by (fun c => mem_ascii c chars) s.

(* ---------- parse_equation ---------- *)
Definition parse_equation_M (equation : string) : pres (list symbol) :=
  if is_blank equation then POk []
  else
    match split_M equation with
    | (_, Some e) => PErr e
    | (stmts, None) =>
      if negb (length stmts =? 1)%nat then PErr ParserError
      else if head_is "`" equation && last_is "`" equation then
        POk [mkSymbol None TVerbatim None None (Some equation) (Some (strip_chars ["`"; cr; nl]%char equation))]
      else if negb (count_char "{" equation =? count_char "}" equation)%nat then PErr ParserError
      else
        match parse_equation_terms equation with
        | Raise e => PErr e
        | Ret terms =>
          let tpl := template equation in
          match all_some (map term_str terms), all_some (map term_code terms) with
          | Some strs, Some codes =>
            match py_format tpl strs with
            | FFail => PErr ParserError
            | FUnmodelled => PUnmodelled
            | FOk standardised =>
              match py_format tpl codes with
              | FFail => PErr ParserError
              | FUnmodelled => PUnmodelled
              | FOk code => of_outcome (equation_symbols standardised code terms)
              end
            end
          | _, _ => PErr TypeError
          end
        end
    end.
