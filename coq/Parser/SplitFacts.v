(* SplitFacts.v — facts about split_equations_iter's model: the only exceptions are ParserError and
   IndentationError; every yielded statement is non-blank and satisfies the equation regex; a statement
   without '=' can only have been accepted through the fenced-block alternative. *)
From Coq Require Import String Ascii List Bool Arith Lia.
Import ListNotations.
Require Import PyBase PyStr Split.
Open Scope string_scope.
Open Scope nat_scope.

Lemma split_step_raise st line e :
  split_step st line = StRaise e -> e = ParserError \/ e = IndentationError.
Proof.
  unfold split_step.
  destruct (startswith "```" line && match buffer st with [] => true | _ => false end); [discriminate|].
  destruct (count_parens (unmatched st) line) as [u|]; [|intros H; inversion H; auto].
  destruct ((u =? 0) && (if startswith "```" line then true else complete st)); [|discriminate].
  destruct (is_blank _); [discriminate|].
  destruct (stmt_ok (join_nl _)); [discriminate|].
  destruct (stmt_ok (py_strip _)); intros H; inversion H; auto.
Qed.

Lemma split_step_yield st line eq st' :
  split_step st line = StYield eq st' -> stmt_ok eq = true /\ is_blank eq = false /\ buffer st' = [] /\ unmatched st' = 0 /\ complete st' = true.
Proof.
  unfold split_step.
  destruct (startswith "```" line && match buffer st with [] => true | _ => false end); [discriminate|].
  destruct (count_parens (unmatched st) line) as [u|]; [|discriminate].
  destruct ((u =? 0) && (if startswith "```" line then true else complete st)) eqn:E; [|discriminate].
  apply andb_true_iff in E as [Eu Ec]. apply Nat.eqb_eq in Eu.
  destruct (is_blank (join_nl (rev (line :: buffer st)))) eqn:Eb; [discriminate|].
  destruct (stmt_ok (join_nl (rev (line :: buffer st)))) eqn:Es.
  - intros H; inversion H; subst; cbn. auto.
  - destruct (stmt_ok (py_strip _)); discriminate.
Qed.

Lemma split_lines_err lines : forall st ys e,
  split_lines st lines = (ys, Some e) -> e = ParserError \/ e = IndentationError.
Proof.
  induction lines as [|l lines IH]; intros st ys e; cbn [split_lines].
  - destruct (negb (complete st)); [intros H; inversion H; auto|]. destruct (unmatched st =? 0); intros H; inversion H; auto.
  - destruct (split_step st l) eqn:E.
    + apply IH.
    + destruct (split_lines st0 lines) as [ys' e'] eqn:E2. intros H; inversion H; subst. eapply IH; eauto.
    + intros H; inversion H; subst. eapply split_step_raise; eauto.
Qed.

Lemma split_lines_stmts lines : forall st ys oe x,
  split_lines st lines = (ys, oe) -> In x ys -> stmt_ok x = true /\ is_blank x = false.
Proof.
  induction lines as [|l lines IH]; intros st ys oe x; cbn [split_lines].
  - intros H; inversion H; subst. intros [].
  - destruct (split_step st l) eqn:E.
    + apply IH.
    + destruct (split_lines st0 lines) as [ys' e'] eqn:E2. intros H; inversion H; subst. intros [Hx|Hx].
      * subst. destruct (split_step_yield _ _ _ _ E) as (A & B & _). auto.
      * eapply IH; eauto.
    + intros H; inversion H; subst. intros [].
Qed.

Lemma split_M_err s ys e : split_M s = (ys, Some e) -> e = ParserError \/ e = IndentationError.
Proof. apply split_lines_err. Qed.
Lemma split_M_stmts s ys oe x : split_M s = (ys, oe) -> In x ys -> stmt_ok x = true /\ is_blank x = false.
Proof. apply split_lines_stmts. Qed.

(* ---- a statement accepted by the regex contains '=' unless the fenced-block alternative matched ---- *)
Fixpoint fence_from (at_line_start : bool) (s : string) : bool :=
  match s with
  | "" => false
  | String c r => (if at_line_start then alt_fence s else false) || fence_from (Ascii.eqb c nl) r
  end.
(* some line of s consists of >= 3 backticks and a later line ends with ``` : alternative A1 matches somewhere *)
Definition has_fence_match (s : string) : bool := fence_from true s.

Lemma has_char_app_r ch a b : has_char ch b = true -> has_char ch (a ++ b) = true.
Proof. induction a as [|c a IH]; cbn; auto. intros H. rewrite (IH H). apply orb_true_r. Qed.
Lemma has_char_app_l ch a b : has_char ch a = true -> has_char ch (a ++ b) = true.
Proof.
  induction a as [|c a IH]; cbn; [discriminate|]. intros H. apply orb_true_iff in H as [H|H].
  - rewrite H. reflexivity.
  - rewrite (IH H). apply orb_true_r.
Qed.
Lemma find_any_some ch s a b : find_any ch s = Some (a, b) -> s = a ++ String ch b.
Proof.
  revert a b. induction s as [|c s IH]; cbn; intros a b; [discriminate|].
  destruct (Ascii.eqb_spec c ch).
  - intros H; inversion H; subst. reflexivity.
  - destruct (find_any ch s) as [[a' b']|]; [|discriminate]. intros H; inversion H; subst.
    cbn. f_equal. apply IH. reflexivity.
Qed.
Lemma find_any_has ch s a b : find_any ch s = Some (a, b) -> has_char ch s = true.
Proof.
  intros H. rewrite (find_any_some _ _ _ _ H). apply has_char_app_r. cbn. rewrite Ascii.eqb_refl. reflexivity.
Qed.
Lemma find_any_none ch s : find_any ch s = None -> has_char ch s = false.
Proof.
  induction s as [|c s IH]; cbn; [reflexivity|]. destruct (Ascii.eqb c ch); [discriminate|].
  destruct (find_any ch s) as [[a b]|]; [discriminate|]. intros _. apply IH. reflexivity.
Qed.
Lemma span_while_app_eq p s a b : span_while p s = (a, b) -> s = a ++ b.
Proof.
  revert a b. induction s as [|c s IH]; cbn; intros a b.
  - intros H; inversion H; reflexivity.
  - destruct (p c).
    + destruct (span_while p s) as [a' b'] eqn:E. intros H; inversion H; subst. cbn. f_equal. apply IH. reflexivity.
    + intros H; inversion H; subst. reflexivity.
Qed.
Lemma head_is_has ch s : head_is ch s = true -> has_char ch s = true.
Proof. destruct s as [|c s]; cbn; [discriminate|]. intros ->. reflexivity. Qed.

Lemma alt_lhs_bracket_eq s : alt_lhs_bracket s = true -> has_char "=" s = true.
Proof.
  destruct s as [|c r]; cbn; [discriminate|]. destruct (Ascii.eqb c "("); [|discriminate].
  destruct (find_any "=" r) as [[a b]|] eqn:E; [|discriminate]. intros _.
  rewrite (find_any_has _ _ _ _ E). apply orb_true_r.
Qed.
Lemma alt_single_eq s : alt_single s = true -> has_char "=" s = true.
Proof.
  destruct s as [|c r]; [discriminate|]. unfold alt_single.
  destruct (is_space c); [discriminate|].
  destruct (span_while (fun c0 => negb (is_space c0)) (String c r)) as [run rest] eqn:E.
  pose proof (span_while_app_eq _ _ _ _ E) as Hs. rewrite Hs. intros H. apply orb_true_iff in H as [H|H].
  - apply has_char_app_l. destruct run as [|d tl]; [discriminate|]. cbn. rewrite H. apply orb_true_r.
  - apply has_char_app_r. unfold skip_ws in H.
    destruct (span_while is_space rest) as [w r2] eqn:E2. cbn in H.
    rewrite (span_while_app_eq _ _ _ _ E2). apply has_char_app_r. apply head_is_has. exact H.
Qed.

Lemma has_char_suffix ch c s : has_char ch s = true -> has_char ch (String c s) = true.
Proof. cbn. intros ->. apply orb_true_r. Qed.

Lemma stmt_ok_from_eq_or_fence s : forall b,
  stmt_ok_from b s = true -> has_char "=" s = true \/ fence_from b s = true.
Proof.
  induction s as [|c r IH]; intros b; cbn [stmt_ok_from fence_from]; [discriminate|].
  intros H. apply orb_true_iff in H as [H|H].
  - destruct b; [|discriminate]. unfold alt_here in H.
    apply orb_true_iff in H as [H|H]; [apply orb_true_iff in H as [H|H]|].
    + right. rewrite H. reflexivity.
    + left. apply alt_lhs_bracket_eq. exact H.
    + left. apply alt_single_eq. exact H.
  - destruct (IH _ H) as [E|E].
    + left. apply has_char_suffix. exact E.
    + right. rewrite E. apply orb_true_r.
Qed.
Lemma stmt_ok_eq_or_fence s : stmt_ok s = true -> has_char "=" s = true \/ has_fence_match s = true.
Proof. apply stmt_ok_from_eq_or_fence. Qed.

(* 85765d5: when the iteration ends without an exception, no verbatim fence is open and no bracket is open *)
Lemma split_lines_ok_closed lines : forall st ys,
  split_lines st lines = (ys, None) -> exists stf, final_state st lines = Some stf /\ unmatched stf = 0 /\ complete stf = true.
Proof.
  induction lines as [|l lines IH]; intros st ys; cbn [split_lines final_state].
  - destruct (complete st) eqn:Ec; cbn [negb]; [|discriminate].
    destruct (unmatched st =? 0) eqn:Eu; [|discriminate]. intros _. exists st. split; [reflexivity|]. split; [apply Nat.eqb_eq, Eu|exact Ec].
  - destruct (split_step st l) as [st'|eq st'|e]; [apply IH| |discriminate].
    destruct (split_lines st' lines) as [ys' e'] eqn:E2. intros H; inversion H; subst. eapply IH; eauto.
Qed.
(* … and an open fence at the end of the input is always a ParserError (whatever was yielded before) *)
Lemma split_lines_open_fence lines : forall st stf,
  final_state st lines = Some stf -> complete stf = false -> snd (split_lines st lines) = Some ParserError.
Proof.
  induction lines as [|l lines IH]; intros st stf; cbn [split_lines final_state].
  - intros H Hc; inversion H; subst. rewrite Hc. reflexivity.
  - destruct (split_step st l) as [st'|eq st'|e]; [apply IH| |discriminate].
    intros H Hc. destruct (split_lines st' lines) as [ys' e'] eqn:E2. cbn [snd]. rewrite <- (IH _ _ H Hc), E2. reflexivity.
Qed.
