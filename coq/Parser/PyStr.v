(* PyStr.v — Python `str` helpers on Latin-1 strings (Coq `string` read as code points 0..255).
   Definitions only.  The character classes \s, \w (module re), str.strip() whitespace and the
   str.splitlines() separators are the regenerated tables of Generated.v. *)
From Coq Require Import String Ascii List Bool Arith ZArith DecimalString.
Import ListNotations.
Require Import Generated.
Open Scope string_scope.
Open Scope nat_scope.

(* ---------- character classes ---------- *)
Definition chars_of_codes (l : list nat) : list ascii := map ascii_of_nat l.
Definition mem_ascii (c : ascii) (l : list ascii) : bool := existsb (Ascii.eqb c) l.

Definition re_space_chars : list ascii := chars_of_codes re_space_codes.
Definition re_word_chars : list ascii := chars_of_codes re_word_codes.
Definition str_strip_chars : list ascii := chars_of_codes str_strip_codes.
Definition splitlines_chars : list ascii := chars_of_codes splitlines_codes.
Definition alpha_chars : list ascii := list_ascii_of_string "_ABCDEFGHIJKLMNOPQRSTUVWXYZabcdefghijklmnopqrstuvwxyz".
Definition digit_chars : list ascii := list_ascii_of_string "0123456789".

Definition is_space (c : ascii) : bool := mem_ascii c re_space_chars.       (* regex \s *)
Definition is_word (c : ascii) : bool := mem_ascii c re_word_chars.         (* regex \w *)
Definition is_pyspace (c : ascii) : bool := mem_ascii c str_strip_chars.    (* str.strip() / int() whitespace *)
Definition is_linesep (c : ascii) : bool := mem_ascii c splitlines_chars.   (* str.splitlines() *)
Definition is_alpha_ (c : ascii) : bool := mem_ascii c alpha_chars.         (* [_A-Za-z] *)
Definition is_digit (c : ascii) : bool := mem_ascii c digit_chars.          (* [0-9] *)
Definition is_idc (c : ascii) : bool := is_alpha_ c || is_digit c.          (* [_A-Za-z0-9] *)
Definition is_fnc (c : ascii) : bool := is_idc c || Ascii.eqb c ".".        (* [_A-Za-z0-9.] *)

Definition nl : ascii := ascii_of_nat 10.
Definition cr : ascii := ascii_of_nat 13.
Definition nl_s : string := String nl "".

(* ---------- scanning helpers ---------- *)
Fixpoint span_while (p : ascii -> bool) (s : string) : string * string :=
  match s with
  | String c r => if p c then let '(a, b) := span_while p r in (String c a, b) else ("", s)
  | "" => ("", "")
  end.
Definition skip_ws (s : string) : string := snd (span_while is_space s).

Fixpoint prefix_rest (k s : string) : option string :=   (* s = k ++ r  ->  Some r *)
  match k, s with
  | "", _ => Some s
  | String a k', String b s' => if Ascii.eqb a b then prefix_rest k' s' else None
  | _, _ => None
  end.
Definition startswith (k s : string) : bool := match prefix_rest k s with Some _ => true | None => false end.

(* first occurrence of ch with no newline before it: (before, after) *)
Fixpoint find_on_line (ch : ascii) (s : string) : option (string * string) :=
  match s with
  | "" => None
  | String c r => if Ascii.eqb c ch then Some ("", r)
                  else if Ascii.eqb c nl then None
                  else match find_on_line ch r with Some (a, b) => Some (String c a, b) | None => None end
  end.
(* first occurrence of ch: (before, after) *)
Fixpoint find_any (ch : ascii) (s : string) : option (string * string) :=
  match s with
  | "" => None
  | String c r => if Ascii.eqb c ch then Some ("", r)
                  else match find_any ch r with Some (a, b) => Some (String c a, b) | None => None end
  end.
Fixpoint has_char (ch : ascii) (s : string) : bool :=
  match s with "" => false | String c r => Ascii.eqb c ch || has_char ch r end.
Definition has_nl (s : string) : bool := has_char nl s.
Fixpoint count_char (ch : ascii) (s : string) : nat :=
  match s with "" => 0 | String c r => (if Ascii.eqb c ch then 1 else 0) + count_char ch r end.

Fixpoint rev_str (s acc : string) : string := match s with "" => acc | String c r => rev_str r (String c acc) end.
Definition lstrip_by (p : ascii -> bool) (s : string) : string := snd (span_while p s).
Definition rstrip_by (p : ascii -> bool) (s : string) : string := rev_str (lstrip_by p (rev_str s "")) "".
Definition strip_by (p : ascii -> bool) (s : string) : string := rstrip_by p (lstrip_by p s).
Definition re_strip (s : string) : string := strip_by is_space s.          (* \s* ... \s* around a lazy group *)
Definition py_strip (s : string) : string := strip_by is_pyspace s.        (* str.strip() *)
Definition py_rstrip (s : string) : string := rstrip_by is_pyspace s.      (* str.rstrip() *)
Definition is_blank (s : string) : bool :=                                 (* not s.strip() *)
  match lstrip_by is_pyspace s with "" => true | _ => false end.

Definition head_is (ch : ascii) (s : string) : bool := match s with String c _ => Ascii.eqb c ch | "" => false end.
Fixpoint last_is (ch : ascii) (s : string) : bool :=
  match s with
  | "" => false
  | String c "" => Ascii.eqb c ch
  | String _ r => last_is ch r
  end.

(* '\n'.join(lines) *)
Fixpoint join_nl (l : list string) : string :=
  match l with
  | [] => ""
  | [x] => x
  | x :: r => x ++ nl_s ++ join_nl r
  end.

(* str.splitlines(): separators from the regenerated table, "\r\n" counts once, no trailing empty line *)
Fixpoint splitlines_aux (cur : string) (s : string) : list string :=     (* cur = current line, reversed *)
  match s with
  | "" => match cur with "" => [] | _ => [rev_str cur ""] end
  | String c r =>
    if is_linesep c then
      rev_str cur "" :: (if Ascii.eqb c cr then
                           match r with
                           | String c2 r2 => if Ascii.eqb c2 nl then splitlines_aux "" r2 else splitlines_aux "" r
                           | "" => splitlines_aux "" r
                           end
                         else splitlines_aux "" r)
    else splitlines_aux (String c cur) r
  end.
