(* MergeUniqueFacts.v — the symbol table parse_model returns has one entry per name: for every script, oracle and
   check_syntax setting, the named symbols of an accepted model carry pairwise distinct names (verbatim blocks are
   unnamed), so the equations counted by n_emitted belong to distinct variables. *)
From Coq Require Import String Ascii List Bool Arith ZArith.
Import ListNotations.
Require Import PyBase PyStr Symbols SymbolsFacts Split Merge MergeFacts ParseEq ParseModel ParseContribFacts.
Open Scope string_scope.

Fixpoint names_of (l : list symbol) : list string :=
  match l with
  | [] => []
  | s :: r => match sname s with Some k => k :: names_of r | None => names_of r end
  end.
Lemma names_of_app a b : names_of (a ++ b) = (names_of a ++ names_of b)%list.
Proof. induction a as [|s a IH]; cbn [app names_of]; [reflexivity|]. destruct (sname s); cbn; rewrite IH; reflexivity. Qed.

(* keys are distinct and every entry is stored under its own name *)
Definition dict_ok (d : list (string * symbol)) : Prop :=
  NoDup (dict_keys d) /\ forall k v, In (k, v) d -> sname v = Some k.

Lemma dict_set_keys {V} k (v : V) d : dict_keys (dict_set k v d) = if mem_string k (dict_keys d) then dict_keys d else (dict_keys d ++ [k])%list.
Proof.
  unfold dict_keys, mem_string. induction d as [|[k' v'] d IH]; cbn [dict_set map fst existsb]; [reflexivity|].
  destruct (String.eqb k k') eqn:E; cbn [map fst orb]; [reflexivity|]. rewrite IH. destruct (existsb (String.eqb k) (map fst d)); reflexivity.
Qed.
Lemma mem_string_in k l : mem_string k l = true <-> In k l.
Proof.
  unfold mem_string. rewrite existsb_exists. split.
  - intros (x & Hx & E). apply String.eqb_eq in E. subst. exact Hx.
  - intros H. exists k. split; [exact H|apply String.eqb_refl].
Qed.
Lemma dict_set_in {V} k (v : V) d kk vv : In (kk, vv) (dict_set k v d) -> (kk = k /\ vv = v) \/ In (kk, vv) d.
Proof.
  induction d as [|[k' v'] d IH]; cbn [dict_set].
  - intros [H|[]]. inversion H; auto.
  - destruct (String.eqb_spec k k') as [->|N].
    + intros [H|H]; [inversion H; auto|right; right; exact H].
    + intros [H|H]; [right; left; exact H|]. destruct (IH H) as [A|A]; [left; exact A|right; right; exact A].
Qed.

Lemma NoDup_app_one {A} (l : list A) x : NoDup l -> ~ In x l -> NoDup (l ++ [x]).
Proof.
  induction l as [|y l IH]; intros ND Hn; cbn [app]; [constructor; [intros []|constructor]|].
  inversion ND as [|? ? Hy ND']; subst. constructor.
  - intros H. apply in_app_or in H as [H|[H|[]]]; [contradiction|]. subst. apply Hn. left. reflexivity.
  - apply IH; [exact ND'|]. intros H. apply Hn. right. exact H.
Qed.

Lemma dict_ok_set k v d : dict_ok d -> sname v = Some k -> dict_ok (dict_set k v d).
Proof.
  intros [ND Hn] Hv. split.
  - rewrite dict_set_keys. destruct (mem_string k (dict_keys d)) eqn:E; [exact ND|].
    apply NoDup_app_one; [exact ND|]. intros H. apply mem_string_in in H. congruence.
  - intros kk vv H. destruct (dict_set_in _ _ _ _ _ H) as [[-> ->]|H']; [exact Hv|apply Hn, H'].
Qed.

Lemma dict_get_in_pair {V} k (v : V) d : dict_get k d = Some v -> In (k, v) d.
Proof.
  induction d as [|[k' v'] d IH]; cbn [dict_get]; [discriminate|].
  destruct (String.eqb_spec k k') as [->|N]; [intros H; inversion H; left; reflexivity|intros H; right; apply IH, H].
Qed.

Lemma dict_combine_ok name s d d' : dict_ok d -> sname s = Some name -> dict_combine name s d = Ret d' -> dict_ok d'.
Proof.
  intros Hd Hs. unfold dict_combine.
  destruct (combine (match dict_get name d with Some old => old | None => s end) s) as [c|] eqn:Ec; [|discriminate].
  intros H; inversion H; subst. apply dict_ok_set; [exact Hd|].
  destruct (combine_ret _ _ _ Ec) as (Hn & _). rewrite Hn.
  destruct (dict_get name d) as [old|] eqn:Eg; [|exact Hs]. exact (proj2 Hd _ _ (dict_get_in_pair _ _ _ Eg)).
Qed.

Lemma names_of_values d : dict_ok d -> names_of (dict_values d) = dict_keys d.
Proof.
  intros [_ Hn]. unfold dict_values, dict_keys. induction d as [|[k v] d IH]; [reflexivity|]. cbn [map snd fst names_of].
  rewrite (Hn k v (or_introl eq_refl)). f_equal. apply IH. intros kk vv H. apply Hn. right. exact H.
Qed.

Lemma merge_go_names syms : forall d vb out,
  dict_ok d -> names_of vb = [] -> merge_go syms d vb = Ret out -> NoDup (names_of out).
Proof.
  induction syms as [|s rest IH]; intros d vb out Hd Hv; cbn [merge_go].
  - intros H; inversion H; subst. rewrite names_of_app, (names_of_values d Hd).
    assert (R : names_of (rev vb) = []).
    { clear - Hv. induction vb as [|x vb IH]; [reflexivity|]. cbn [rev names_of] in *. destruct (sname x) eqn:E; [discriminate|].
      rewrite names_of_app. cbn [names_of]. rewrite E, (IH Hv). reflexivity. }
    rewrite R, app_nil_r. exact (proj1 Hd).
  - destruct (sname s) as [k|] eqn:Ek.
    + destruct (dict_combine k s d) as [d'|] eqn:Ec; [|discriminate]. apply IH; [eapply dict_combine_ok; eauto|exact Hv].
    + apply IH; [exact Hd|]. cbn [names_of]. rewrite Ek. exact Hv.
Qed.

Theorem merge_symbols_names by_eq out : merge_symbols by_eq = Ret out -> NoDup (names_of out).
Proof.
  unfold merge_symbols. apply merge_go_names; [|reflexivity]. split; [constructor|intros k v []].
Qed.

Theorem parse_model_names_unique chk cs s out : parse_model_M chk cs s = POk out -> NoDup (names_of out).
Proof.
  unfold parse_model_M. destruct (split_M s) as [stmts serr].
  destruct (parse_statements chk cs stmts [] false) as [[by_eq pb]|e|]; [|discriminate|discriminate].
  destruct serr; [discriminate|]. destruct pb; [discriminate|].
  destruct (merge_symbols by_eq) as [o|] eqn:Em; cbn; [|discriminate]. intros H; inversion H; subst.
  eapply merge_symbols_names; eauto.
Qed.
