(* ParseCountFacts.v — the statement-count clause WITHOUT guards: for every accepted script (every oracle, both
   check_syntax settings) the number of equations / verbatim blocks build_model_definition emits is
       (number of DISTINCT names that some statement gives an equation)  +  (number of verbatim statements' symbols).
   All three kept findings are instances: two statements giving the same name an equation count once
   (duplicate statements merge); a statement with two left-hand names counts twice; (a statement whose left-hand name is also
   called as a function — formerly a third instance — is a SymbolError since fix b45daa1).  Under the guards of ParseContribFacts the
   right-hand side is the number of statements. *)
From Coq Require Import String Ascii List Bool Arith ZArith Lia.
Import ListNotations.
Require Import Generated PyBase PyStr Lex Format Symbols SymbolsFacts Split SplitFacts Merge MergeFacts ParseEq ParseEqFacts
               ParseModel ParseModelFacts ParseContribFacts MergeUniqueFacts.
Open Scope string_scope.
Open Scope nat_scope.

(* number of distinct elements of l that are not in seen *)
Fixpoint count_new (seen l : list string) : nat :=
  match l with
  | [] => 0
  | x :: r => if mem_string x seen then count_new seen r else S (count_new (x :: seen) r)
  end.
Definition unnamed (l : list symbol) : list symbol := filter (fun s => is_none (sname s)) l.

Lemma count_new_spec l : forall seen,
  exists l', NoDup l' /\ (forall x, In x l' <-> In x l /\ ~ In x seen) /\ count_new seen l = length l'.
Proof.
  induction l as [|x r IH]; intros seen; cbn [count_new].
  - exists []. split; [constructor|]. split; [|reflexivity]. intros x. split; [intros []|intros [[] _]].
  - destruct (mem_string x seen) eqn:E.
    + apply mem_string_in in E. destruct (IH seen) as (l' & ND & M & C). exists l'. split; [exact ND|]. split; [|exact C].
      intros y. rewrite M. split; [intros [A B]; split; [right; exact A|exact B]|].
      intros [[<-|A] B]; [contradiction|split; assumption].
    + assert (Hn : ~ In x seen) by (intros H; apply mem_string_in in H; congruence).
      destruct (IH (x :: seen)) as (l' & ND & M & C). exists (x :: l'). split.
      * constructor; [|exact ND]. intros H. apply M in H as [_ H]. apply H. left. reflexivity.
      * split; [|cbn [length]; rewrite C; reflexivity].
        intros y. cbn [In]. rewrite M. split.
        -- intros [<-|[A B]]; [split; [left; reflexivity|exact Hn]|split; [right; exact A|intros H; apply B; right; exact H]].
        -- intros [[<-|A] B]; [left; reflexivity|].
           destruct (string_dec x y) as [->|N]; [left; reflexivity|right]. split; [exact A|]. intros [H|H]; [contradiction|contradiction].
Qed.
Lemma count_new_ext l : forall seen seen', (forall x, In x seen <-> In x seen') -> count_new seen l = count_new seen' l.
Proof.
  induction l as [|x r IH]; intros seen seen' H; cbn [count_new]; [reflexivity|].
  assert (E : mem_string x seen = mem_string x seen').
  { destruct (mem_string x seen) eqn:A, (mem_string x seen') eqn:B; try reflexivity.
    - apply mem_string_in in A. apply H in A. apply mem_string_in in A. congruence.
    - apply mem_string_in in B. apply H in B. apply mem_string_in in B. congruence. }
  rewrite E. destruct (mem_string x seen'); [apply IH, H|]. f_equal. apply IH. intros y. cbn [In]. rewrite H. reflexivity.
Qed.
Lemma count_new_nodup l : forall seen, NoDup l -> (forall x, In x l -> ~ In x seen) -> count_new seen l = length l.
Proof.
  induction l as [|x r IH]; intros seen ND H; [reflexivity|]. cbn [count_new length].
  inversion ND as [|? ? Hx ND']; subst.
  destruct (mem_string x seen) eqn:E; [apply mem_string_in in E; exfalso; exact (H x (or_introl eq_refl) E)|].
  f_equal. apply IH; [exact ND'|]. intros y Hy [<-|Hs]; [contradiction|exact (H y (or_intror Hy) Hs)].
Qed.

(* ---------- tidy without any guard ---------- *)
Lemma combine_tidy a b c : combine a b = Ret c -> tidy a -> tidy b -> tidy c /\ emits c = emits a || emits b.
Proof.
  intros H Ta Tb. destruct (emits b) eqn:Eb.
  - assert (Tyb : stype b = TEndogenous) by (unfold tidy in Tb; rewrite Eb in Tb; exact Tb).
    destruct (combine_emitting_r _ _ _ H Tyb Eb) as [Ec Tc]. split; [unfold tidy; rewrite Ec; exact Tc|rewrite Ec, orb_true_r; reflexivity].
  - destruct (combine_nonemitting_r _ _ _ H Ta Tb Eb) as [Ec Tc]. split; [exact Tc|rewrite Ec, orb_false_r; reflexivity].
Qed.

Lemma go_tidy eqn code terms : forall d fs d',
  (forall v, In v (dict_values d) -> tidy v) ->
  equation_symbols_go eqn code terms d fs = Ret d' -> forall v, In v (dict_values d') -> tidy v.
Proof.
  induction terms as [|t rest IH]; intros d fs d' Hd; cbn [equation_symbols_go].
  - intros H; inversion H; subst. exact Hd.
  - assert (COMB : forall sym, tidy sym ->
              match dict_combine (tname t) sym d with Ret dd => equation_symbols_go eqn code rest dd fs | Raise e => Raise e end = Ret d' ->
              forall v, In v (dict_values d') -> tidy v).
    { intros sym Ts. unfold dict_combine. destruct (dict_get (tname t) d) as [old|] eqn:Eg.
      - destruct (combine old sym) as [c|] eqn:Ec; [|discriminate]. apply IH.
        destruct (combine_tidy _ _ _ Ec (Hd old (dict_get_in _ _ _ Eg)) Ts) as [Tc _].
        intros v Hv. destruct (dict_values_set_in _ _ _ _ Hv) as [->|Hv']; [exact Tc|apply Hd, Hv'].
      - destruct (combine sym sym) as [c|] eqn:Ec; [|discriminate]. apply IH.
        destruct (combine_self _ _ Ec) as (_ & Tc & _).
        intros v Hv. destruct (dict_values_set_in _ _ _ _ Hv) as [->|Hv']; [exact (Tc Ts)|apply Hd, Hv']. }
    destruct (ttype t) eqn:Ety.
    all: try (apply COMB; unfold tidy, emits; cbn; repeat split; try reflexivity; discriminate).
    + (* VERBATIM *) apply IH, Hd.
Qed.

Lemma parse_equation_M_tidy st syms : parse_equation_M st = POk syms -> forall v, In v syms -> sname v <> None -> tidy v.
Proof.
  unfold parse_equation_M. destruct (is_blank st); [intros H; inversion H; subst; intros v []|].
  destruct (split_M st) as [stmts [se|]]; [discriminate|].
  destruct (negb (length stmts =? 1)); [discriminate|].
  destruct (head_is "`" st && last_is "`" st).
  { intros H; inversion H; subst. intros v [<-|[]] Hn. cbn in Hn. congruence. }
  destruct (negb (count_char "{" st =? count_char "}" st)); [discriminate|].
  destruct (parse_equation_terms st) as [terms|e]; [|discriminate].
  destruct (all_some (map term_str terms)) as [strs|]; [|discriminate].
  destruct (all_some (map term_code terms)) as [codes|]; [|discriminate].
  destruct (py_format (template st) strs) as [sd| |]; [|discriminate|discriminate].
  destruct (py_format (template st) codes) as [cd| |]; [|discriminate|discriminate].
  unfold equation_symbols. destruct (equation_symbols_go sd cd terms [] []) as [d|] eqn:Eg; cbn; [|discriminate].
  intros H; inversion H; subst. intros v Hv _. eapply go_tidy; [|exact Eg|exact Hv]. intros x [].
Qed.

(* ---------- which names carry an equation in a dict ---------- *)
Lemma emit_names_keys d : dict_ok d -> forall x, In x (emit_names (dict_values d)) -> In x (dict_keys d).
Proof.
  unfold dict_values, dict_keys. intros [_ Hn]. induction d as [|[k v] d IH]; cbn [map snd fst emit_names]; [intros x []|].
  intros x. rewrite (Hn k v (or_introl eq_refl)).
  assert (R : In x (emit_names (map snd d)) -> In x (map fst d)) by (apply IH; intros kk vv H; apply Hn; right; exact H).
  destruct (emits v); [intros [<-|H]; [left; reflexivity|right; exact (R H)]|intros H; right; exact (R H)].
Qed.
Lemma dict_ok_tail k v d : dict_ok ((k, v) :: d) -> dict_ok d /\ ~ In k (dict_keys d) /\ sname v = Some k.
Proof.
  intros [ND Hn]. cbn in ND. inversion ND as [|? ? Hk ND']; subst. split; [split; [exact ND'|intros kk vv H; apply Hn; right; exact H]|].
  split; [exact Hk|apply Hn; left; reflexivity].
Qed.
Lemma emit_names_get d : dict_ok d -> forall k,
  match dict_get k d with
  | Some v => (In k (emit_names (dict_values d)) <-> emits v = true)
  | None => ~ In k (emit_names (dict_values d))
  end.
Proof.
  induction d as [|[k' v'] d IH]; intros Hd k; [intros []|].
  destruct (dict_ok_tail _ _ _ Hd) as (Hd' & Hk' & Hs'). specialize (IH Hd' k).
  unfold dict_values in *. cbn [dict_get map snd emit_names]. rewrite Hs'.
  destruct (String.eqb_spec k k') as [->|N].
  - assert (Nk : ~ In k' (emit_names (map snd d))) by (intros H; apply Hk'; exact (emit_names_keys d Hd' _ H)).
    destruct (emits v'); [split; [reflexivity|intros _; left; reflexivity]|split; [intros H; contradiction|discriminate]].
  - destruct (dict_get k d) as [v|].
    + destruct (emits v'); [rewrite <- IH; split; [intros [E|H]; [congruence|exact H]|intros H; right; exact H]|exact IH].
    + destruct (emits v'); [intros [E|H]; [congruence|exact (IH H)]|exact IH].
Qed.
Lemma emit_names_set d : dict_ok d -> forall k c, sname c = Some k -> forall x,
  In x (emit_names (dict_values (dict_set k c d))) <-> (x = k /\ emits c = true) \/ (x <> k /\ In x (emit_names (dict_values d))).
Proof.
  unfold dict_values. induction d as [|[k' v'] d IH]; intros Hd k c Hc x.
  - cbn [dict_set map snd emit_names]. rewrite Hc. destruct (emits c); cbn [In]; split.
    + intros [<-|[]]. left. auto.
    + intros [[-> _]|[_ []]]. left. reflexivity.
    + intros [].
    + intros [[_ E]|[_ []]]. discriminate.
  - destruct (dict_ok_tail _ _ _ Hd) as (Hd' & Hk' & Hs').
    assert (Nk : ~ In k' (emit_names (map snd d))) by (intros H; apply Hk'; exact (emit_names_keys d Hd' _ H)).
    cbn [dict_set]. destruct (String.eqb_spec k k') as [->|N]; cbn [map snd emit_names]; rewrite ?Hc, ?Hs'.
    + destruct (emits c), (emits v'); cbn [In]; split; intros H.
      * destruct H as [<-|H]; [left; auto|right; split; [intros ->; contradiction|right; exact H]].
      * destruct H as [[-> _]|[Nx [E|H]]]; [left; reflexivity|congruence|right; exact H].
      * destruct H as [<-|H]; [left; auto|right; split; [intros ->; contradiction|exact H]].
      * destruct H as [[-> _]|[Nx H]]; [left; reflexivity|right; exact H].
      * right. split; [intros ->; contradiction|right; exact H].
      * destruct H as [[_ E]|[Nx [E|H]]]; [discriminate|congruence|exact H].
      * right. split; [intros ->; contradiction|exact H].
      * destruct H as [[_ E]|[Nx H]]; [discriminate|exact H].
    + specialize (IH Hd' k c Hc x). destruct (emits v'); cbn [In].
      * rewrite IH. split.
        -- intros [<-|[A|[A B]]]; [right; split; [congruence|left; reflexivity]|left; exact A|right; split; [exact A|right; exact B]].
        -- intros [A|[A [<-|B]]]; [right; left; exact A|left; reflexivity|right; right; split; assumption].
      * exact IH.
Qed.

(* ---------- the merge, counted exactly ---------- *)
Lemma n_emitted_unnamed_cons s l : n_emitted (unnamed (s :: l)) = (if is_none (sname s) then b2n (emits s) else 0) + n_emitted (unnamed l).
Proof. unfold unnamed. cbn [filter]. destruct (is_none (sname s)); [apply n_emitted_cons|reflexivity]. Qed.

Lemma merge_go_exact rest : forall d vb out,
  dict_ok d ->
  (forall s, In s rest -> sname s <> None -> tidy s) ->
  (forall v, In v (dict_values d) -> tidy v) ->
  merge_go rest d vb = Ret out ->
  n_emitted out = n_emitted (dict_values d) + n_emitted vb
                  + count_new (emit_names (dict_values d)) (emit_names rest) + n_emitted (unnamed rest).
Proof.
  induction rest as [|s rest IH]; intros d vb out Hd TR TD; cbn [merge_go].
  - intros H; inversion H; subst. rewrite n_emitted_app, n_emitted_rev. cbn. lia.
  - assert (TR' : forall x, In x rest -> sname x <> None -> tidy x) by (intros x Hx; apply TR; right; exact Hx).
    rewrite n_emitted_unnamed_cons. cbn [emit_names].
    destruct (sname s) as [k|] eqn:Ek; cbn [is_none].
    + assert (Ts : tidy s) by (apply TR; [left; reflexivity|congruence]).
      unfold dict_combine. pose proof (emit_names_get d Hd k) as G. pose proof (n_emitted_dict_set k) as C.
      destruct (dict_get k d) as [old|] eqn:Eg.
      * destruct (combine old s) as [c|] eqn:Ec; [|discriminate]. intros H.
        destruct (combine_tidy _ _ _ Ec (TD old (dict_get_in _ _ _ Eg)) Ts) as [Tc Ece].
        assert (Sc : sname c = Some k).
        { destruct (combine_ret _ _ _ Ec) as (Hn & _). rewrite Hn. exact (proj2 Hd _ _ (dict_get_in_pair _ _ _ Eg)). }
        rewrite (IH (dict_set k c d) vb out (dict_ok_set _ _ _ Hd Sc) TR'); [| |exact H].
        2:{ intros v Hv. destruct (dict_values_set_in _ _ _ _ Hv) as [->|Hv']; [exact Tc|apply TD, Hv']. }
        specialize (C c d). rewrite Eg in C.
        pose proof (emit_names_set d Hd k c Sc) as M.
        destruct (emits s) eqn:Es.
        -- (* s gives k an equation *)
           rewrite orb_true_r in Ece. rewrite Ece in C, M. cbn [count_new].
           destruct (emits old) eqn:Eo.
           ++ assert (Hin : In k (emit_names (dict_values d))) by (apply G; reflexivity).
              apply mem_string_in in Hin. rewrite Hin.
              rewrite (count_new_ext (emit_names rest) _ (emit_names (dict_values d))).
              { cbn [b2n] in C. lia. }
              intros x. rewrite M. apply mem_string_in in Hin. split.
              ** intros [[-> _]|[_ A]]; assumption.
              ** intros A. destruct (string_dec x k) as [->|N]; [left; auto|right; auto].
           ++ assert (Hnin : ~ In k (emit_names (dict_values d))) by (intros A; apply G in A; congruence).
              destruct (mem_string k (emit_names (dict_values d))) eqn:Em; [apply mem_string_in in Em; contradiction|].
              rewrite (count_new_ext (emit_names rest) _ (k :: emit_names (dict_values d))).
              { cbn [b2n] in C. lia. }
              intros x. rewrite M. cbn [In]. split.
              ** intros [[-> _]|[_ A]]; [left; reflexivity|right; exact A].
              ** intros [<-|A]; [left; auto|right; split; [intros ->; contradiction|exact A]].
        -- rewrite orb_false_r in Ece. rewrite Ece in C, M.
           rewrite (count_new_ext (emit_names rest) _ (emit_names (dict_values d))).
           { destruct (emits old); cbn [b2n] in C; lia. }
           intros x. rewrite M. split.
           ++ intros [[-> Eo]|[_ A]]; [apply G; exact Eo|exact A].
           ++ intros A. destruct (string_dec x k) as [->|N]; [left; split; [reflexivity|apply G; exact A]|right; auto].
      * destruct (combine s s) as [c|] eqn:Ec; [|discriminate]. intros H.
        destruct (combine_self _ _ Ec) as (Ece & Tc & _).
        assert (Sc : sname c = Some k) by (destruct (combine_ret _ _ _ Ec) as (Hn & _); congruence).
        rewrite (IH (dict_set k c d) vb out (dict_ok_set _ _ _ Hd Sc) TR'); [| |exact H].
        2:{ intros v Hv. destruct (dict_values_set_in _ _ _ _ Hv) as [->|Hv']; [exact (Tc Ts)|apply TD, Hv']. }
        specialize (C c d). rewrite Eg in C. pose proof (emit_names_set d Hd k c Sc) as M. rewrite Ece in C, M.
        destruct (emits s) eqn:Es; cbn [count_new].
        -- destruct (mem_string k (emit_names (dict_values d))) eqn:Em; [apply mem_string_in in Em; contradiction|].
           rewrite (count_new_ext (emit_names rest) _ (k :: emit_names (dict_values d))).
           { cbn [b2n] in C. lia. }
           intros x. rewrite M. cbn [In]. split.
           ++ intros [[-> _]|[_ A]]; [left; reflexivity|right; exact A].
           ++ intros [<-|A]; [left; auto|right; split; [intros ->; contradiction|exact A]].
        -- rewrite (count_new_ext (emit_names rest) _ (emit_names (dict_values d))).
           { cbn [b2n] in C. lia. }
           intros x. rewrite M. split.
           ++ intros [[_ E]|[_ A]]; [discriminate|exact A].
           ++ intros A. right. split; [intros ->; contradiction|exact A].
    + intros H. rewrite (IH d (s :: vb) out Hd TR' TD H), n_emitted_cons. lia.
Qed.

Theorem merge_symbols_exact by_eq out :
  (forall s, In s (concat by_eq) -> sname s <> None -> tidy s) ->
  merge_symbols by_eq = Ret out ->
  n_emitted out = count_new [] (emit_names (concat by_eq)) + n_emitted (unnamed (concat by_eq)).
Proof.
  intros T H. unfold merge_symbols in H.
  rewrite (merge_go_exact (concat by_eq) [] [] out); [cbn; lia| |exact T| |exact H].
  - split; [constructor|intros k v []].
  - intros v [].
Qed.

(* ---------- per statement: a verbatim statement is one unnamed block, an equation has only named symbols ---------- *)
Lemma go_dict_ok eqn code terms : forall d fs d',
  dict_ok d -> equation_symbols_go eqn code terms d fs = Ret d' -> dict_ok d'.
Proof.
  induction terms as [|t rest IH]; intros d fs d' Hd; cbn [equation_symbols_go].
  - intros H; inversion H; subst. exact Hd.
  - assert (COMB : forall sym, sname sym = Some (tname t) ->
              match dict_combine (tname t) sym d with Ret dd => equation_symbols_go eqn code rest dd fs | Raise e => Raise e end = Ret d' -> dict_ok d').
    { intros sym Hs. destruct (dict_combine (tname t) sym d) as [dd|] eqn:Ec; [|discriminate]. apply IH. eapply dict_combine_ok; eauto. }
    destruct (ttype t) eqn:Ety.
    all: try (apply COMB; reflexivity).
    + apply IH, Hd.
Qed.
Lemma unnamed_values d : dict_ok d -> unnamed (dict_values d) = [].
Proof.
  intros [_ Hn]. unfold unnamed, dict_values. induction d as [|[k v] d IH]; [reflexivity|]. cbn [map snd filter].
  rewrite (Hn k v (or_introl eq_refl)). cbn [is_none]. apply IH. intros kk vv H. apply Hn. right. exact H.
Qed.

Lemma parse_equation_M_shape st syms : parse_equation_M st = POk syms -> is_blank st = false ->
  if backticked st then emit_names syms = [] /\ n_emitted (unnamed syms) = 1 else unnamed syms = [].
Proof.
  unfold parse_equation_M. intros H Hb. rewrite Hb in H.
  destruct (split_M st) as [stmts [se|]]; [discriminate|].
  destruct (negb (length stmts =? 1)); [discriminate|].
  fold (backticked st) in H. destruct (backticked st).
  { inversion H; subst. split; reflexivity. }
  destruct (negb (count_char "{" st =? count_char "}" st)); [discriminate|].
  destruct (parse_equation_terms st) as [terms|e]; [|discriminate].
  destruct (all_some (map term_str terms)) as [strs|]; [|discriminate].
  destruct (all_some (map term_code terms)) as [codes|]; [|discriminate].
  destruct (py_format (template st) strs) as [sd| |]; [|discriminate|discriminate].
  destruct (py_format (template st) codes) as [cd| |]; [|discriminate|discriminate].
  unfold equation_symbols in H. destruct (equation_symbols_go sd cd terms [] []) as [d|] eqn:Eg; cbn in H; [|discriminate].
  inversion H; subst. apply unnamed_values. eapply go_dict_ok; [|exact Eg]. split; [constructor|intros k v []].
Qed.

Lemma unnamed_app a b : unnamed (a ++ b) = (unnamed a ++ unnamed b)%list.
Proof. unfold unnamed. apply filter_app. Qed.

(* ---------- the whole model ---------- *)
(* For EVERY script, oracle and check_syntax setting: an accepted model has exactly as many equations / verbatim blocks
   as there are DISTINCT names to which some statement gives an equation, plus one per verbatim statement. *)
Theorem model_equation_count chk cs s out :
  parse_model_M chk cs s = POk out ->
  n_emitted out = count_new [] (emit_names (concat (stmt_symbols s))) + length (filter backticked (fst (split_M s))).
Proof.
  unfold parse_model_M, stmt_symbols. destruct (split_M s) as [stmts serr] eqn:Es. cbn [fst].
  destruct (parse_statements chk cs stmts [] false) as [[by_eq pb]|pe|] eqn:Ep; [|discriminate|discriminate].
  destruct serr; [discriminate|]. destruct pb; [discriminate|].
  destruct (merge_symbols by_eq) as [o|] eqn:Em; cbn; [|discriminate]. intros H; inversion H; subst o.
  destruct (parse_statements_forall2 _ _ _ _ _ _ _ Ep) as (tail & Eb & F). cbn in Eb. subst tail.
  assert (MAP : map (fun st => match parse_equation_M st with POk L => L | _ => [] end) stmts = by_eq).
  { clear - F. induction F as [|st L sts Ls HL _ IH]; [reflexivity|]. cbn [map]. rewrite HL, IH. reflexivity. }
  rewrite MAP.
  assert (GS : forall st, In st stmts -> is_blank st = false).
  { intros st Hst. destruct (split_M_stmts _ _ _ _ Es Hst) as [_ B]. exact B. }
  assert (T : forall x, In x (concat by_eq) -> sname x <> None -> tidy x).
  { clear - F. induction F as [|st L sts Ls HL _ IH]; [intros x []|]. cbn [concat]. intros x Hx.
    apply in_app_or in Hx as [Hx|Hx]; [exact (parse_equation_M_tidy st L HL x Hx)|apply IH, Hx]. }
  rewrite (merge_symbols_exact by_eq out T Em). f_equal.
  clear - F GS. induction F as [|st L sts Ls HL _ IH]; [reflexivity|].
  cbn [concat filter]. rewrite unnamed_app, n_emitted_app.
  pose proof (parse_equation_M_shape st L HL (GS st (or_introl eq_refl))) as Sh.
  rewrite IH by (intros st' H'; apply GS; right; exact H').
  destruct (backticked st); [destruct Sh as [_ ->]; reflexivity|rewrite Sh; reflexivity].
Qed.

(* the verbatim statements contribute no names, so the first summand only concerns equations; when no name is given an
   equation twice it is the number of equation-carrying symbols *)
Corollary model_equation_count_nodup chk cs s out :
  parse_model_M chk cs s = POk out -> NoDup (emit_names (concat (stmt_symbols s))) ->
  n_emitted out = length (emit_names (concat (stmt_symbols s))) + length (filter backticked (fst (split_M s))).
Proof.
  intros H ND. rewrite (model_equation_count chk cs s out H). f_equal. apply count_new_nodup; [exact ND|intros x _ []].
Qed.

(* ---------- the exact, decidable guard of "one equation or block per statement" ---------- *)
(* number of distinct names given an equation = number of statements that are no verbatim code *)
Definition exact_count_guard (s : string) : bool :=
  count_new [] (emit_names (concat (stmt_symbols s))) =? length (filter (fun st => negb (backticked st)) (fst (split_M s))).

Lemma length_filter_split {A} (p : A -> bool) l : length l = length (filter p l) + length (filter (fun x => negb (p x)) l).
Proof. induction l as [|x l IH]; [reflexivity|]. cbn [filter length]. destruct (p x); cbn [negb length]; lia. Qed.

(* For EVERY accepted script (every oracle, both check_syntax settings): the built model has exactly one equation /
   verbatim block per statement IF AND ONLY IF the decidable guard holds.  The three kept findings are exactly its failures. *)
Theorem statement_count_iff chk cs s out :
  parse_model_M chk cs s = POk out ->
  (n_emitted out = length (fst (split_M s)) <-> exact_count_guard s = true).
Proof.
  intros H. rewrite (model_equation_count chk cs s out H). unfold exact_count_guard.
  rewrite (length_filter_split backticked (fst (split_M s))). rewrite Nat.eqb_eq. lia.
Qed.
