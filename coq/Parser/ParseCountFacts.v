(* ParseCountFacts.v — the statement-count clause WITHOUT guards: for every accepted script (every oracle, both
   check_syntax settings) the number of equations / verbatim blocks build_model_definition emits is
       (number of DISTINCT names that some statement gives an equation)  +  (number of verbatim statements' symbols).
   All three kept findings are instances: two statements giving the same name an equation count once
   (duplicate statements merge); a statement with two left-hand names counts twice; a statement whose only left-hand
   name is overwritten by a FUNCTION symbol gives no name an equation.  Under the guards of ParseContribFacts the
   right-hand side is the number of statements. *)
From Coq Require Import String Ascii List Bool Arith ZArith Lia.
Import ListNotations.
Require Import Generated PyBase PyStr Lex Format Symbols SymbolsFacts Split SplitFacts Merge MergeFacts ParseEq ParseEqFacts
               ParseModel ParseModelFacts ParseContribFacts MergeUniqueFacts.
Open Scope string_scope.
Open Scope nat_scope.

(* number of distinct elements of l that are not in seen *)
Fixpoint count_new (seen l : list string) : nat :=
  match l with
  | [] => 0
  | x :: r => if mem_string x seen then count_new seen r else S (count_new (x :: seen) r)
  end.
Definition unnamed (l : list symbol) : list symbol := filter (fun s => is_none (sname s)) l.

Lemma count_new_spec l : forall seen,
  exists l', NoDup l' /\ (forall x, In x l' <-> In x l /\ ~ In x seen) /\ count_new seen l = length l'.
Proof.
  induction l as [|x r IH]; intros seen; cbn [count_new].
  - exists []. split; [constructor|]. split; [|reflexivity]. intros x. split; [intros []|intros [[] _]].
  - destruct (mem_string x seen) eqn:E.
    + apply mem_string_in in E. destruct (IH seen) as (l' & ND & M & C). exists l'. split; [exact ND|]. split; [|exact C].
      intros y. rewrite M. split; [intros [A B]; split; [right; exact A|exact B]|].
      intros [[<-|A] B]; [contradiction|split; assumption].
    + assert (Hn : ~ In x seen) by (intros H; apply mem_string_in in H; congruence).
      destruct (IH (x :: seen)) as (l' & ND & M & C). exists (x :: l'). split.
      * constructor; [|exact ND]. intros H. apply M in H as [_ H]. apply H. left. reflexivity.
      * split; [|cbn [length]; rewrite C; reflexivity].
        intros y. cbn [In]. rewrite M. split.
        -- intros [<-|[A B]]; [split; [left; reflexivity|exact Hn]|split; [right; exact A|intros H; apply B; right; exact H]].
        -- intros [[<-|A] B]; [left; reflexivity|].
           destruct (string_dec x y) as [->|N]; [left; reflexivity|right]. split; [exact A|]. intros [H|H]; [contradiction|contradiction].
Qed.
Lemma count_new_ext l : forall seen seen', (forall x, In x seen <-> In x seen') -> count_new seen l = count_new seen' l.
Proof.
  induction l as [|x r IH]; intros seen seen' H; cbn [count_new]; [reflexivity|].
  assert (E : mem_string x seen = mem_string x seen').
  { destruct (mem_string x seen) eqn:A, (mem_string x seen') eqn:B; try reflexivity.
    - apply mem_string_in in A. apply H in A. apply mem_string_in in A. congruence.
    - apply mem_string_in in B. apply H in B. apply mem_string_in in B. congruence. }
  rewrite E. destruct (mem_string x seen'); [apply IH, H|]. f_equal. apply IH. intros y. cbn [In]. rewrite H. reflexivity.
Qed.
Lemma count_new_nodup l : forall seen, NoDup l -> (forall x, In x l -> ~ In x seen) -> count_new seen l = length l.
Proof.
  induction l as [|x r IH]; intros seen ND H; [reflexivity|]. cbn [count_new length].
  inversion ND as [|? ? Hx ND']; subst.
  destruct (mem_string x seen) eqn:E; [apply mem_string_in in E; exfalso; exact (H x (or_introl eq_refl) E)|].
  f_equal. apply IH; [exact ND'|]. intros y Hy [<-|Hs]; [contradiction|exact (H y (or_intror Hy) Hs)].
Qed.

(* ---------- tidy without any guard ---------- *)
Lemma combine_tidy a b c : combine a b = Ret c -> tidy a -> tidy b -> stype b <> TVerbatim -> tidy c /\ emits c = emits a || emits b.
Proof.
  intros H Ta Tb Nv. destruct (emits b) eqn:Eb.
  - assert (Tyb : stype b = TEndogenous) by (unfold tidy in Tb; rewrite Eb in Tb; exact Tb).
    destruct (combine_emitting_r _ _ _ H Tyb Eb) as [Ec Tc]. split; [unfold tidy; rewrite Ec; exact Tc|rewrite Ec, orb_true_r; reflexivity].
  - destruct (combine_nonemitting_r _ _ _ H Ta Tb Eb) as [Ec Tc]. split; [exact Tc|rewrite Ec, orb_false_r; reflexivity].
Qed.

Lemma go_tidy eqn code terms : forall d fs d',
  (forall v, In v (dict_values d) -> tidy v) ->
  equation_symbols_go eqn code terms d fs = Ret d' -> forall v, In v (dict_values d') -> tidy v.
Proof.
  induction terms as [|t rest IH]; intros d fs d' Hd; cbn [equation_symbols_go].
  - intros H; inversion H; subst. exact Hd.
  - assert (COMB : forall sym, tidy sym -> stype sym <> TVerbatim ->
              match dict_combine (tname t) sym d with Ret dd => equation_symbols_go eqn code rest dd fs | Raise e => Raise e end = Ret d' ->
              forall v, In v (dict_values d') -> tidy v).
    { intros sym Ts Nv. unfold dict_combine. destruct (dict_get (tname t) d) as [old|] eqn:Eg.
      - destruct (combine old sym) as [c|] eqn:Ec; [|discriminate]. apply IH.
        destruct (combine_tidy _ _ _ Ec (Hd old (dict_get_in _ _ _ Eg)) Ts Nv) as [Tc _].
        intros v Hv. destruct (dict_values_set_in _ _ _ _ Hv) as [->|Hv']; [exact Tc|apply Hd, Hv'].
      - destruct (combine sym sym) as [c|] eqn:Ec; [|discriminate]. apply IH.
        destruct (combine_self _ _ Ec) as (_ & Tc & _).
        intros v Hv. destruct (dict_values_set_in _ _ _ _ Hv) as [->|Hv']; [exact (Tc Ts)|apply Hd, Hv']. }
    destruct (ttype t) eqn:Ety.
    all: try (apply COMB; [unfold tidy, emits; cbn; repeat split; try reflexivity; discriminate|cbn; discriminate]).
    + (* FUNCTION *)
      destruct (mem_string (tname t) fs); [apply IH, Hd|]. apply IH.
      intros v Hv. destruct (dict_values_set_in _ _ _ _ Hv) as [->|Hv']; [|apply Hd, Hv'].
      unfold tidy, emits; cbn. repeat split; discriminate.
    + (* VERBATIM *) apply IH, Hd.
Qed.

Lemma parse_equation_M_tidy st syms : parse_equation_M st = POk syms -> forall v, In v syms -> sname v <> None -> tidy v.
Proof.
  unfold parse_equation_M. destruct (is_blank st); [intros H; inversion H; subst; intros v []|].
  destruct (split_M st) as [stmts [se|]]; [discriminate|].
  destruct (negb (length stmts =? 1)); [discriminate|].
  destruct (head_is "`" st && last_is "`" st).
  { intros H; inversion H; subst. intros v [<-|[]] Hn. cbn in Hn. congruence. }
  destruct (negb (count_char "{" st =? count_char "}" st)); [discriminate|].
  destruct (parse_equation_terms st) as [terms|e]; [|discriminate].
  destruct (all_some (map term_str terms)) as [strs|]; [|discriminate].
  destruct (all_some (map term_code terms)) as [codes|]; [|discriminate].
  destruct (py_format (template st) strs) as [sd| |]; [|discriminate|discriminate].
  destruct (py_format (template st) codes) as [cd| |]; [|discriminate|discriminate].
  unfold equation_symbols. destruct (equation_symbols_go sd cd terms [] []) as [d|] eqn:Eg; cbn; [|discriminate].
  intros H; inversion H; subst. intros v Hv _. eapply go_tidy; [|exact Eg|exact Hv]. intros x [].
Qed.

(* ---------- which names carry an equation in a dict ---------- *)
Lemma emit_names_keys d : dict_ok d -> forall x, In x (emit_names (dict_values d)) -> In x (dict_keys d).
Proof.
  unfold dict_values, dict_keys. intros [_ Hn]. induction d as [|[k v] d IH]; cbn [map snd fst emit_names]; [intros x []|].
  intros x. rewrite (Hn k v (or_introl eq_refl)).
  assert (R : In x (emit_names (map snd d)) -> In x (map fst d)) by (apply IH; intros kk vv H; apply Hn; right; exact H).
  destruct (emits v); [intros [<-|H]; [left; reflexivity|right; exact (R H)]|intros H; right; exact (R H)].
Qed.
Lemma dict_ok_tail k v d : dict_ok ((k, v) :: d) -> dict_ok d /\ ~ In k (dict_keys d) /\ sname v = Some k.
Proof.
  intros [ND Hn]. cbn in ND. inversion ND as [|? ? Hk ND']; subst. split; [split; [exact ND'|intros kk vv H; apply Hn; right; exact H]|].
  split; [exact Hk|apply Hn; left; reflexivity].
Qed.
Lemma emit_names_get d : dict_ok d -> forall k,
  match dict_get k d with
  | Some v => (In k (emit_names (dict_values d)) <-> emits v = true)
  | None => ~ In k (emit_names (dict_values d))
  end.
Proof.
  induction d as [|[k' v'] d IH]; intros Hd k; [intros []|].
  destruct (dict_ok_tail _ _ _ Hd) as (Hd' & Hk' & Hs'). specialize (IH Hd' k).
  unfold dict_values in *. cbn [dict_get map snd emit_names]. rewrite Hs'.
  destruct (String.eqb_spec k k') as [->|N].
  - assert (Nk : ~ In k' (emit_names (map snd d))) by (intros H; apply Hk'; exact (emit_names_keys d Hd' _ H)).
    destruct (emits v'); [split; [reflexivity|intros _; left; reflexivity]|split; [intros H; contradiction|discriminate]].
  - destruct (dict_get k d) as [v|].
    + destruct (emits v'); [rewrite <- IH; split; [intros [E|H]; [congruence|exact H]|intros H; right; exact H]|exact IH].
    + destruct (emits v'); [intros [E|H]; [congruence|exact (IH H)]|exact IH].
Qed.
Lemma emit_names_set d : dict_ok d -> forall k c, sname c = Some k -> forall x,
  In x (emit_names (dict_values (dict_set k c d))) <-> (x = k /\ emits c = true) \/ (x <> k /\ In x (emit_names (dict_values d))).
Proof.
  unfold dict_values. induction d as [|[k' v'] d IH]; intros Hd k c Hc x.
  - cbn [dict_set map snd emit_names]. rewrite Hc. destruct (emits c); cbn [In]; split.
    + intros [<-|[]]. left. auto.
    + intros [[-> _]|[_ []]]. left. reflexivity.
    + intros [].
    + intros [[_ E]|[_ []]]. discriminate.
  - destruct (dict_ok_tail _ _ _ Hd) as (Hd' & Hk' & Hs').
    assert (Nk : ~ In k' (emit_names (map snd d))) by (intros H; apply Hk'; exact (emit_names_keys d Hd' _ H)).
    cbn [dict_set]. destruct (String.eqb_spec k k') as [->|N]; cbn [map snd emit_names]; rewrite ?Hc, ?Hs'.
    + destruct (emits c), (emits v'); cbn [In]; split; intros H.
      * destruct H as [<-|H]; [left; auto|right; split; [intros ->; contradiction|right; exact H]].
      * destruct H as [[-> _]|[Nx [E|H]]]; [left; reflexivity|congruence|right; exact H].
      * destruct H as [<-|H]; [left; auto|right; split; [intros ->; contradiction|exact H]].
      * destruct H as [[-> _]|[Nx H]]; [left; reflexivity|right; exact H].
      * right. split; [intros ->; contradiction|right; exact H].
      * destruct H as [[_ E]|[Nx [E|H]]]; [discriminate|congruence|exact H].
      * right. split; [intros ->; contradiction|exact H].
      * destruct H as [[_ E]|[Nx H]]; [discriminate|exact H].
    + specialize (IH Hd' k c Hc x). destruct (emits v'); cbn [In].
      * rewrite IH. split.
        -- intros [<-|[A|[A B]]]; [right; split; [congruence|left; reflexivity]|left; exact A|right; split; [exact A|right; exact B]].
        -- intros [A|[A [<-|B]]]; [right; left; exact A|left; reflexivity|right; right; split; assumption].
      * exact IH.
Qed.

(* ---------- the merge, counted exactly ---------- *)
Lemma n_emitted_unnamed_cons s l : n_emitted (unnamed (s :: l)) = (if is_none (sname s) then b2n (emits s) else 0) + n_emitted (unnamed l).
Proof. unfold unnamed. cbn [filter]. destruct (is_none (sname s)); [apply n_emitted_cons|reflexivity]. Qed.

Lemma merge_go_exact rest : forall d vb out,
  dict_ok d ->
  (forall s, In s rest -> sname s <> None -> tidy s) ->
  (forall v, In v (dict_values d) -> tidy v) ->
  (forall s, In s rest -> stype s = TVerbatim -> sname s = None) ->
  merge_go rest d vb = Ret out ->
  n_emitted out = n_emitted (dict_values d) + n_emitted vb
                  + count_new (emit_names (dict_values d)) (emit_names rest) + n_emitted (unnamed rest).
Proof.
  induction rest as [|s rest IH]; intros d vb out Hd TR TD NV; cbn [merge_go].
  - intros H; inversion H; subst. rewrite n_emitted_app, n_emitted_rev. cbn. lia.
  - assert (TR' : forall x, In x rest -> sname x <> None -> tidy x) by (intros x Hx; apply TR; right; exact Hx).
    assert (NV' : forall x, In x rest -> stype x = TVerbatim -> sname x = None) by (intros x Hx; apply NV; right; exact Hx).
    rewrite n_emitted_unnamed_cons. cbn [emit_names].
    destruct (sname s) as [k|] eqn:Ek; cbn [is_none].
    + assert (Ts : tidy s) by (apply TR; [left; reflexivity|congruence]).
      assert (Nv : stype s <> TVerbatim) by (intros E; pose proof (NV s (or_introl eq_refl) E); congruence).
      unfold dict_combine. pose proof (emit_names_get d Hd k) as G. pose proof (n_emitted_dict_set k) as C.
      destruct (dict_get k d) as [old|] eqn:Eg.
      * destruct (combine old s) as [c|] eqn:Ec; [|discriminate]. intros H.
        destruct (combine_tidy _ _ _ Ec (TD old (dict_get_in _ _ _ Eg)) Ts Nv) as [Tc Ece].
        assert (Sc : sname c = Some k).
        { destruct (combine_ret _ _ _ Ec) as (Hn & _). rewrite Hn. exact (proj2 Hd _ _ (dict_get_in_pair _ _ _ Eg)). }
        rewrite (IH (dict_set k c d) vb out (dict_ok_set _ _ _ Hd Sc) TR'); [| |exact NV'|exact H].
        2:{ intros v Hv. destruct (dict_values_set_in _ _ _ _ Hv) as [->|Hv']; [exact Tc|apply TD, Hv']. }
        specialize (C c d). rewrite Eg in C.
        pose proof (emit_names_set d Hd k c Sc) as M.
        destruct (emits s) eqn:Es.
        -- (* s gives k an equation *)
           rewrite orb_true_r in Ece. rewrite Ece in C, M. cbn [count_new].
           destruct (emits old) eqn:Eo.
           ++ assert (Hin : In k (emit_names (dict_values d))) by (apply G; reflexivity).
              apply mem_string_in in Hin. rewrite Hin.
              rewrite (count_new_ext (emit_names rest) _ (emit_names (dict_values d))).
              { cbn [b2n] in C. lia. }
              intros x. rewrite M. apply mem_string_in in Hin. split.
              ** intros [[-> _]|[_ A]]; assumption.
              ** intros A. destruct (string_dec x k) as [->|N]; [left; auto|right; auto].
           ++ assert (Hnin : ~ In k (emit_names (dict_values d))) by (intros A; apply G in A; congruence).
              destruct (mem_string k (emit_names (dict_values d))) eqn:Em; [apply mem_string_in in Em; contradiction|].
              rewrite (count_new_ext (emit_names rest) _ (k :: emit_names (dict_values d))).
              { cbn [b2n] in C. lia. }
              intros x. rewrite M. cbn [In]. split.
              ** intros [[-> _]|[_ A]]; [left; reflexivity|right; exact A].
              ** intros [<-|A]; [left; auto|right; split; [intros ->; contradiction|exact A]].
        -- rewrite orb_false_r in Ece. rewrite Ece in C, M.
           rewrite (count_new_ext (emit_names rest) _ (emit_names (dict_values d))).
           { destruct (emits old); cbn [b2n] in C; lia. }
           intros x. rewrite M. split.
           ++ intros [[-> Eo]|[_ A]]; [apply G; exact Eo|exact A].
           ++ intros A. destruct (string_dec x k) as [->|N]; [left; split; [reflexivity|apply G; exact A]|right; auto].
      * destruct (combine s s) as [c|] eqn:Ec; [|discriminate]. intros H.
        destruct (combine_self _ _ Ec) as (Ece & Tc & _).
        assert (Sc : sname c = Some k) by (destruct (combine_ret _ _ _ Ec) as (Hn & _); congruence).
        rewrite (IH (dict_set k c d) vb out (dict_ok_set _ _ _ Hd Sc) TR'); [| |exact NV'|exact H].
        2:{ intros v Hv. destruct (dict_values_set_in _ _ _ _ Hv) as [->|Hv']; [exact (Tc Ts)|apply TD, Hv']. }
        specialize (C c d). rewrite Eg in C. pose proof (emit_names_set d Hd k c Sc) as M. rewrite Ece in C, M.
        destruct (emits s) eqn:Es; cbn [count_new].
        -- destruct (mem_string k (emit_names (dict_values d))) eqn:Em; [apply mem_string_in in Em; contradiction|].
           rewrite (count_new_ext (emit_names rest) _ (k :: emit_names (dict_values d))).
           { cbn [b2n] in C. lia. }
           intros x. rewrite M. cbn [In]. split.
           ++ intros [[-> _]|[_ A]]; [left; reflexivity|right; exact A].
           ++ intros [<-|A]; [left; auto|right; split; [intros ->; contradiction|exact A]].
        -- rewrite (count_new_ext (emit_names rest) _ (emit_names (dict_values d))).
           { cbn [b2n] in C. lia. }
           intros x. rewrite M. split.
           ++ intros [[_ E]|[_ A]]; [discriminate|exact A].
           ++ intros A. right. split; [intros ->; contradiction|exact A].
    + intros H. rewrite (IH d (s :: vb) out Hd TR' TD NV' H), n_emitted_cons. lia.
Qed.

Theorem merge_symbols_exact by_eq out :
  (forall s, In s (concat by_eq) -> sname s <> None -> tidy s) ->
  (forall s, In s (concat by_eq) -> stype s = TVerbatim -> sname s = None) ->
  merge_symbols by_eq = Ret out ->
  n_emitted out = count_new [] (emit_names (concat by_eq)) + n_emitted (unnamed (concat by_eq)).
Proof.
  intros T NV H. unfold merge_symbols in H.
  rewrite (merge_go_exact (concat by_eq) [] [] out); [cbn; lia| |exact T| |exact NV|exact H].
  - split; [constructor|intros k v []].
  - intros v [].
Qed.
