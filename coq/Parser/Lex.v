(* Lex.v — hand model of fsic.parser.term_re.finditer (fsic/parser.py:165-188).  Definitions only.
   At each position the alternatives of the regex are tried in its priority order:
     1 VERBATIM   [`] (.+?) [`]                         (lazy, no newline inside)
     2 INVALID    (?:kw1|kw2|…) \s* \[ .*? \]            (no \b, as in the source; first `]` on the line)
     3 KEYWORD    \b (kw1|kw2|…) \b
     4 FUNCTION   [_A-Za-z][_A-Za-z0-9.]* \s* (?= \( )                 (one star since fix 2d62135: same language, no quadratic backtracking)
     5 { name } | < name > | name, followed by the optional index group  \[ \s* (.*?) \s* \]
   `scan` is structural on the string: a `skip` counter says how many characters still belong to the
   previous match, `prev_word` carries what the leading \b needs.  No fuel anywhere.
   The keyword list and the \s / \w tables come from Generated.v. *)
From Coq Require Import String Ascii List Bool Arith.
Import ListNotations.
Require Import Generated PyStr.
Open Scope string_scope.
Open Scope nat_scope.

Inductive kind : Type := KVerbatim | KInvalid | KKeyword | KFunction | KParameter | KError | KVariable.
(* mname = the text of the named group (_VERBATIM and _INVALID: the whole match), mindex = group INDEX, mlen = length of group(0) *)
Record tmatch : Type := mkMatch { mkind : kind; mname : string; mindex : option string; mlen : nat }.

Definition KW : list string := kwlist.

(* optional index group directly at s: Some (INDEX, consumed length) *)
Definition index_group (s : string) : option (string * nat) :=
  match s with
  | String c r =>
    if Ascii.eqb c "[" then
      match find_any "]" r with
      | Some (body, _) => let inner := re_strip body in
                          if has_nl inner then None else Some (inner, 2 + String.length body)
      | None => None
      end
    else None
  | "" => None
  end.
Definition with_index (k : kind) (name : string) (base : nat) (after : string) : tmatch :=
  match index_group after with
  | Some (inner, n) => mkMatch k name (Some inner) (base + n)
  | None => mkMatch k name None base
  end.

Fixpoint try_invalid (kws : list string) (s : string) : option tmatch :=
  match kws with
  | [] => None
  | k :: rest =>
    match prefix_rest k s with
    | Some r =>
      let '(ws, r2) := span_while is_space r in
      match r2 with
      | String c r3 =>
        if Ascii.eqb c "[" then
          match find_on_line "]" r3 with
          | Some (body, _) => Some (mkMatch KInvalid (k ++ ws ++ "[" ++ body ++ "]") None
                                      (String.length k + String.length ws + 2 + String.length body))
          | None => try_invalid rest s
          end
        else try_invalid rest s
      | "" => try_invalid rest s
      end
    | None => try_invalid rest s
    end
  end.

Fixpoint try_keyword (kws : list string) (s : string) : option tmatch :=
  match kws with
  | [] => None
  | k :: rest =>
    match prefix_rest k s with
    | Some (String c _) => if is_word c then try_keyword rest s
                           else Some (mkMatch KKeyword k None (String.length k))
    | Some "" => Some (mkMatch KKeyword k None (String.length k))
    | None => try_keyword rest s
    end
  end.

Definition try_verbatim (s : string) : option tmatch :=
  match s with
  | String c (String c1 r1) =>
    if Ascii.eqb c "`" then
      if Ascii.eqb c1 nl then None
      else match find_on_line "`" r1 with
           | Some (body, _) => Some (mkMatch KVerbatim (String c (String c1 body) ++ "`") None (3 + String.length body))
           | None => None
           end
    else None
  | _ => None
  end.

Definition try_function (s : string) : option tmatch :=
  match s with
  | String c _ =>
    if is_alpha_ c then
      let '(name, r1) := span_while is_fnc s in
      let '(ws, r2) := span_while is_space r1 in
      match r2 with
      | String d _ => if Ascii.eqb d "(" then Some (mkMatch KFunction name None (String.length name + String.length ws))
                      else None
      | "" => None
      end
    else None
  | "" => None
  end.

Definition try_bracketed (op cl : ascii) (k : kind) (s : string) : option tmatch :=
  match s with
  | String c r =>
    if Ascii.eqb c op then
      let '(w1, r1) := span_while is_space r in
      match r1 with
      | String a _ =>
        if is_alpha_ a then
          let '(name, r2) := span_while is_idc r1 in
          let '(w2, r3) := span_while is_space r2 in
          match r3 with
          | String d r4 =>
            if Ascii.eqb d cl
            then Some (with_index k name (2 + String.length w1 + String.length name + String.length w2) r4)
            else None
          | "" => None
          end
        else None
      | "" => None
      end
    else None
  | "" => None
  end.

Definition try_variable (s : string) : option tmatch :=
  match s with
  | String c _ =>
    if is_alpha_ c then let '(name, r1) := span_while is_idc s in Some (with_index KVariable name (String.length name) r1)
    else None
  | "" => None
  end.

Definition or_else {A} (a : option A) (b : unit -> option A) : option A :=
  match a with Some x => Some x | None => b tt end.

(* the match of term_re anchored at the head of s, if any; prev_word = the character before is a \w *)
Definition match_here (prev_word : bool) (s : string) : option tmatch :=
  or_else (try_verbatim s) (fun _ =>
  or_else (try_invalid KW s) (fun _ =>
  or_else (if prev_word then None else try_keyword KW s) (fun _ =>
  or_else (try_function s) (fun _ =>
  or_else (try_bracketed "{" "}" KParameter s) (fun _ =>
  or_else (try_bracketed "<" ">" KError s) (fun _ =>
  try_variable s)))))).

(* finditer: Chr c = a character outside every match, Tok p m = a match starting at position p *)
Inductive item : Type := Chr (c : ascii) | Tok (p : nat) (m : tmatch).

Fixpoint scan (pos skip : nat) (prev_word : bool) (s : string) : list item :=
  match s with
  | "" => []
  | String c r =>
    match skip with
    | S k => scan (S pos) k (is_word c) r
    | O => match match_here prev_word s with
           | Some m => Tok pos m :: scan (S pos) (mlen m - 1) (is_word c) r
           | None => Chr c :: scan (S pos) 0 (is_word c) r
           end
    end
  end.
Definition scan_items (s : string) : list item := scan 0 0 false s.

Fixpoint matches_of (l : list item) : list tmatch :=
  match l with
  | [] => []
  | Tok _ m :: r => m :: matches_of r
  | Chr _ :: r => matches_of r
  end.
(* [(start, end, kind, name, index)] as re.finditer reports them *)
Fixpoint spans_of (l : list item) : list (nat * nat * kind * string * option string) :=
  match l with
  | [] => []
  | Tok p m :: r => (p, p + mlen m, mkind m, mname m, mindex m) :: spans_of r
  | Chr _ :: r => spans_of r
  end.
Definition toks (s : string) := spans_of (scan_items s).
