(* Merge.v — the two symbol-table loops of the parser.  Definitions only.
   * equation_symbols : the per-equation loop of parse_equation (fsic/parser.py:630-670).  Since fix b45daa1 a
     FUNCTION symbol is combined with any earlier use of its name like every other symbol: repeated calls collapse
     to one symbol, a name used as a function and as a variable / parameter / error is a SymbolError in either
     order (finding #19 repaired).  The `functions` argument is kept for compatibility and is no longer used.
   * merge_symbols    : the cross-equation loop of parse_model (fsic/parser.py:763-777); verbatim
     symbols (name None) are collected separately and appended at the end. *)
From Coq Require Import String Ascii List Bool ZArith.
Import ListNotations.
Require Import PyBase Symbols.
Open Scope string_scope.

Definition mem_string (k : string) (l : list string) : bool := existsb (String.eqb k) l.

(* symbols[name] = symbols.get(name, symbol).combine(symbol) *)
Definition dict_combine (name : string) (sym : symbol) (d : list (string * symbol)) : outcome (list (string * symbol)) :=
  match combine (match dict_get name d with Some old => old | None => sym end) sym with
  | Ret c => Ret (dict_set name c d)
  | Raise e => Raise e
  end.

(* the loop over the terms of one equation; `equation`/`code` are attached to ENDOGENOUS symbols *)
Fixpoint equation_symbols_go (equation code : string) (terms : list term)
         (symbols : list (string * symbol)) (functions : list string) : outcome (list (string * symbol)) :=
  match terms with
  | [] => Ret symbols
  | t :: rest =>
    match ttype t with
    | TVerbatim => equation_symbols_go equation code rest symbols functions
    | ty =>          (* b45daa1: FUNCTION symbols are combined like every other symbol (no separate `functions` dict any more) *)
      let sym := match ty with
                 | TEndogenous => mkSymbol (Some (tname t)) ty (tindex t) (tindex t) (Some equation) (Some code)
                 | _ => mkSymbol (Some (tname t)) ty (tindex t) (tindex t) None None
                 end in
      match dict_combine (tname t) sym symbols with
      | Ret d => equation_symbols_go equation code rest d functions
      | Raise e => Raise e
      end
    end
  end.
Definition equation_symbols (equation code : string) (terms : list term) : outcome (list symbol) :=
  match equation_symbols_go equation code terms [] [] with
  | Ret d => Ret (dict_values d)
  | Raise e => Raise e
  end.

(* the loop over the chained symbols_by_equation lists *)
Fixpoint merge_go (syms : list symbol) (symbols : list (string * symbol)) (verbatim : list symbol)
  : outcome (list symbol) :=
  match syms with
  | [] => Ret (dict_values symbols ++ rev verbatim)%list
  | s :: rest =>
    match sname s with
    | None => merge_go rest symbols (s :: verbatim)
    | Some name =>
      match dict_combine name s symbols with
      | Ret d => merge_go rest d verbatim
      | Raise e => Raise e
      end
    end
  end.
Definition merge_symbols (by_equation : list (list symbol)) : outcome (list symbol) :=
  merge_go (concat by_equation) [] [].
