(* ParseEqFacts.v — which exceptions parse_equation's model can raise, by case analysis on every failure
   point of the model: int() failure -> ParserError; keyword / no-variable checks -> ParserError;
   str.format failure -> ParserError; combine -> SymbolError / ParserError; re-splitting -> ParserError /
   IndentationError; Term.__str__'s TypeError branch is unreachable; and `split('=')` on a statement
   without '=' -> ParserError since fix 1c7ed70 (it was the one foreign exception left: ValueError). *)
From Coq Require Import String Ascii List Bool Arith ZArith Lia.
Import ListNotations.
Require Import Generated PyBase PyStr Lex Format Symbols SymbolsFacts Split SplitFacts Merge MergeFacts ParseEq.
Open Scope string_scope.

Lemma mk_index_err idx e : mk_index idx = Raise e -> e = ParserError.
Proof.
  unfold mk_index. destruct idx as [i|]; [|discriminate].
  destruct (quoted_by "'" i || quoted_by """" i); [discriminate|].
  destruct (quoted_by "`" i); [discriminate|].
  destruct (py_int i); [discriminate|]. intros H; inversion H; reflexivity.
Qed.
Lemma mk_term_err m e : mk_term m = Raise e -> e = ParserError.
Proof.
  unfold mk_term. destruct (mkind m); try discriminate;
    (destruct (mk_index (mindex m)) eqn:E; [discriminate|]; intros H; inversion H; subst; eapply mk_index_err; eauto).
Qed.
Lemma mk_term_wf m t : mk_term m = Ret t -> wf_term t = true.
Proof.
  unfold mk_term. destruct (mkind m) eqn:Ek; try (intros H; inversion H; reflexivity);
    (destruct (mk_index (mindex m)); [|discriminate]; intros H; inversion H; reflexivity).
Qed.

Lemma map_o_err {A B} (f : A -> outcome B) l e : map_o f l = Raise e -> exists a, In a l /\ f a = Raise e.
Proof.
  induction l as [|a l IH]; cbn; [discriminate|].
  destruct (f a) eqn:Ea.
  - destruct (map_o f l); [discriminate|]. intros H; inversion H; subst. destruct IH as (x & Hx & Hf); [reflexivity|]. eauto.
  - intros H; inversion H; subst. eauto.
Qed.
Lemma map_o_ret {A B} (f : A -> outcome B) l bs : map_o f l = Ret bs -> forall b, In b bs -> exists a, In a l /\ f a = Ret b.
Proof.
  revert bs. induction l as [|a l IH]; cbn; intros bs.
  - intros H; inversion H; subst. intros b [].
  - destruct (f a) eqn:Ea; [|discriminate]. destruct (map_o f l) eqn:El; [|discriminate].
    intros H; inversion H; subst. intros b [Hb|Hb]; [subst; eauto|].
    destruct (IH _ eq_refl b Hb) as (x & Hx & Hf). eauto.
Qed.

Lemma parse_terms_err s e : parse_terms s = Raise e -> e = ParserError.
Proof. unfold parse_terms. intros H. apply map_o_err in H as (m & _ & Hm). eapply mk_term_err; eauto. Qed.
Lemma parse_terms_wf s ts : parse_terms s = Ret ts -> forallb wf_term ts = true.
Proof.
  unfold parse_terms. intros H. apply forallb_forall. intros t Ht.
  destruct (map_o_ret _ _ _ H t Ht) as (m & _ & Hm). eapply mk_term_wf; eauto.
Qed.
Lemma replace_type_wf ty t : unindexed_type ty = false -> ty <> TVerbatim -> wf_term t = true -> wf_term (replace_type ty t) = true.
Proof.
  unfold replace_type, wf_term. intros Hu Hv. destruct (ttype t) eqn:Et; cbn; rewrite ?Et; auto.
  cbn. intros H. destruct ty; try congruence; cbn in *; try discriminate; exact H.
Qed.
Lemma forallb_map_wf ty ts : unindexed_type ty = false -> ty <> TVerbatim ->
  forallb wf_term ts = true -> forallb wf_term (map (replace_type ty) ts) = true.
Proof.
  intros Hu Hv. induction ts as [|t ts IH]; cbn; [reflexivity|]. intros H. apply andb_true_iff in H as [H1 H2].
  rewrite (replace_type_wf ty t Hu Hv H1), (IH H2). reflexivity.
Qed.

Lemma parse_equation_terms_err eq e :
  parse_equation_terms eq = Raise e -> e = ParserError \/ (e = ValueError /\ has_char "=" eq = false).
Proof.
  unfold parse_equation_terms. destruct (find_any "=" eq) as [[l r]|] eqn:Ef.
  - destruct (parse_terms l) eqn:El; [|intros H; inversion H; subst; left; eapply parse_terms_err; eauto].
    destruct (parse_terms r) eqn:Er; [|intros H; inversion H; subst; left; eapply parse_terms_err; eauto].
    destruct (has_type TKeyword _ || has_type TInvalid _); [intros H; inversion H; auto|].
    destruct (negb _); [intros H; inversion H; auto|discriminate].
  - intros H; inversion H; subst. left. reflexivity.
Qed.
(* 1c7ed70: the only exception of parse_equation_terms is ParserError *)
Lemma parse_equation_terms_err_own eq e : parse_equation_terms eq = Raise e -> e = ParserError.
Proof. intros H. destruct (parse_equation_terms_err eq e H) as [A|[A _]]; [exact A|]. subst. unfold parse_equation_terms in H.
  destruct (find_any "=" eq) as [[l r]|]; [|discriminate].
  destruct (parse_terms l) eqn:El; [|inversion H; subst; eapply parse_terms_err; eauto].
  destruct (parse_terms r) eqn:Er; [|inversion H; subst; eapply parse_terms_err; eauto].
  destruct (has_type TKeyword _ || has_type TInvalid _); [discriminate|]. destruct (negb _); discriminate.
Qed.
Lemma parse_equation_terms_wf eq ts : parse_equation_terms eq = Ret ts -> forallb wf_term ts = true.
Proof.
  unfold parse_equation_terms. destruct (find_any "=" eq) as [[l r]|]; [|discriminate].
  destruct (parse_terms l) eqn:El; [|discriminate]. destruct (parse_terms r) eqn:Er; [|discriminate].
  destruct (has_type TKeyword _ || has_type TInvalid _); [discriminate|].
  destruct (negb _); [discriminate|]. intros H; inversion H; subst.
  rewrite forallb_app. rewrite (forallb_map_wf TEndogenous _ eq_refl ltac:(discriminate) (parse_terms_wf _ _ El)).
  rewrite (forallb_map_wf TExogenous _ eq_refl ltac:(discriminate) (parse_terms_wf _ _ Er)). reflexivity.
Qed.
(* the repaired check of 2ef3e7c: an accepted term list has an ENDOGENOUS term on the left of '=' *)
Lemma parse_equation_terms_endogenous eq ts : parse_equation_terms eq = Ret ts -> has_type TEndogenous ts = true.
Proof.
  unfold parse_equation_terms. destruct (find_any "=" eq) as [[l r]|]; [|discriminate].
  destruct (parse_terms l) eqn:El; [|discriminate]. destruct (parse_terms r) eqn:Er; [|discriminate].
  destruct (has_type TKeyword _ || has_type TInvalid _); [discriminate|].
  destruct (has_type TEndogenous (map (replace_type TEndogenous) a)) eqn:E; cbn; [|discriminate].
  intros H; inversion H; subst. unfold has_type in *. rewrite existsb_app, E. reflexivity.
Qed.

(* Term.__str__ never reaches its `raise TypeError` on a term the parser built *)
Lemma term_str_some t : wf_term t = true -> exists s, term_str t = Some s.
Proof.
  unfold wf_term, term_str. destruct (ttype t) eqn:Et; eauto;
    (destruct (tindex t) as [[z|s]|]; cbn; [eauto|eauto|discriminate]).
Qed.
Lemma term_code_some t : wf_term t = true -> exists s, term_code t = Some s.
Proof.
  intros H. unfold term_code. destruct (term_str_some t H) as [s ->].
  destruct (ttype t); eauto; destruct (tindex t) as [[z|x]|]; eauto.
Qed.
Lemma all_some_map {A} (f : A -> option string) l :
  (forall a, In a l -> exists s, f a = Some s) -> exists r, all_some (map f l) = Some r.
Proof.
  induction l as [|a l IH]; cbn; intros H; [eauto|].
  destruct (H a (or_introl eq_refl)) as [s ->]. destruct IH as [r ->]; [intros; apply H; right; assumption|]. eauto.
Qed.
Lemma wf_terms_strs terms : forallb wf_term terms = true ->
  exists a b, all_some (map term_str terms) = Some a /\ all_some (map term_code terms) = Some b.
Proof.
  intros H. rewrite forallb_forall in H.
  destruct (all_some_map term_str terms) as [a Ha]; [intros t Ht; apply term_str_some, H, Ht|].
  destruct (all_some_map term_code terms) as [b Hb]; [intros t Ht; apply term_code_some, H, Ht|]. eauto.
Qed.

Definition own_error (e : exn) : Prop := e = ParserError \/ e = SymbolError \/ e = IndentationError.

(* every failure point of parse_equation *)
Definition backticked (s : string) : bool := head_is "`" s && last_is "`" s.

Theorem parse_equation_M_err eq e :
  parse_equation_M eq = PErr e ->
  own_error e \/ (e = ValueError /\ has_char "=" eq = false /\ backticked eq = false).
Proof.
  unfold parse_equation_M, own_error, backticked.
  destruct (is_blank eq); [discriminate|].
  destruct (split_M eq) as [stmts [se|]] eqn:Es.
  { intros H; inversion H; subst. left. destruct (split_M_err _ _ _ Es); auto. }
  destruct (negb (length stmts =? 1)%nat); [intros H; inversion H; auto|].
  destruct (head_is "`" eq && last_is "`" eq) eqn:Ebt; [discriminate|].
  destruct (negb (count_char "{" eq =? count_char "}" eq)%nat); [intros H; inversion H; auto|].
  destruct (parse_equation_terms eq) as [terms|pe] eqn:Et.
  2:{ intros H; inversion H; subst. destruct (parse_equation_terms_err _ _ Et) as [->|[-> Hn]]; [auto|right; auto]. }
  pose proof (parse_equation_terms_wf _ _ Et) as Hwf.
  destruct (wf_terms_strs terms Hwf) as (a & b & -> & ->).
  destruct (py_format (template eq) a) as [st| |]; [|intros H; inversion H; auto|discriminate].
  destruct (py_format (template eq) b) as [cd| |]; [|intros H; inversion H; auto|discriminate].
  destruct (equation_symbols st cd terms) eqn:Eq; cbn; [discriminate|].
  intros H; inversion H; subst. left. destruct (equation_symbols_err _ _ _ _ Hwf Eq); auto.
Qed.

(* 1c7ed70: every exception of parse_equation is one of the parser's own *)
Theorem parse_equation_M_own eq e : parse_equation_M eq = PErr e -> own_error e.
Proof.
  intros H. destruct (parse_equation_M_err eq e H) as [A|(-> & _)]; [exact A|]. exfalso.
  unfold parse_equation_M in H. destruct (is_blank eq); [discriminate|].
  destruct (split_M eq) as [stmts [se|]] eqn:Es.
  { inversion H; subst. destruct (split_M_err _ _ _ Es); discriminate. }
  destruct (negb (length stmts =? 1)%nat); [discriminate|].
  destruct (head_is "`" eq && last_is "`" eq); [discriminate|].
  destruct (negb (count_char "{" eq =? count_char "}" eq)%nat); [discriminate|].
  destruct (parse_equation_terms eq) as [terms|pe] eqn:Et.
  2:{ inversion H; subst. pose proof (parse_equation_terms_err_own _ _ Et). discriminate. }
  pose proof (parse_equation_terms_wf _ _ Et) as Hwf.
  destruct (wf_terms_strs terms Hwf) as (a & b & Ea & Eb). rewrite Ea, Eb in H.
  destruct (py_format (template eq) a) as [st| |]; [|discriminate|discriminate].
  destruct (py_format (template eq) b) as [cd| |]; [|discriminate|discriminate].
  destruct (equation_symbols st cd terms) eqn:Eq; cbn in H; [discriminate|].
  inversion H; subst. destruct (equation_symbols_err _ _ _ _ Hwf Eq); discriminate.
Qed.

Theorem parse_equation_M_wf eq syms :
  parse_equation_M eq = POk syms -> forall x, In x syms -> wf_symbol x = true.
Proof.
  unfold parse_equation_M.
  destruct (is_blank eq); [intros H; inversion H; subst; intros x []|].
  destruct (split_M eq) as [stmts [se|]] eqn:Es; [discriminate|].
  destruct (negb (length stmts =? 1)%nat); [discriminate|].
  destruct (head_is "`" eq && last_is "`" eq).
  { intros H; inversion H; subst. intros x [<-|[]]. reflexivity. }
  destruct (negb (count_char "{" eq =? count_char "}" eq)%nat); [discriminate|].
  destruct (parse_equation_terms eq) as [terms|pe] eqn:Et; [|discriminate].
  pose proof (parse_equation_terms_wf _ _ Et) as Hwf.
  destruct (wf_terms_strs terms Hwf) as (a & b & -> & ->).
  destruct (py_format (template eq) a) as [st| |]; [|discriminate|discriminate].
  destruct (py_format (template eq) b) as [cd| |]; [|discriminate|discriminate].
  destruct (equation_symbols st cd terms) eqn:Eq; cbn; [|discriminate].
  intros H; inversion H; subst. eapply equation_symbols_wf; eauto.
Qed.

(* 1c7ed70: a statement text without '=' is rejected by parse_equation_terms with ParserError *)
Lemma parse_equation_terms_no_eq eq : has_char "=" eq = false -> parse_equation_terms eq = Raise ParserError.
Proof.
  intros H. unfold parse_equation_terms. destruct (find_any "=" eq) as [[l r]|] eqn:E; [|reflexivity].
  rewrite (find_any_has _ _ _ _ E) in H. discriminate.
Qed.
