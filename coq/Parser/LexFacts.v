(* LexFacts.v — facts about the lexer model (Lex.v): resuming after a match, inert characters, and the
   anchored match of each token kind on a rendered token followed by an admissible rest.
   Character-class facts are proved by a 256-character sweep (`ascii_sweep`), whatever the regenerated
   \s / \w tables are; the only fact used about the keyword list is that keywords are identifiers. *)
From Coq Require Import String Ascii List Bool Arith Lia.
Import ListNotations.
Require Import Generated PyStr Lex.
Open Scope string_scope.
Open Scope nat_scope.

Fixpoint all_chars (p : ascii -> bool) (s : string) : bool :=
  match s with "" => true | String c r => p c && all_chars p r end.
(* s is empty or its first character satisfies p *)
Definition head_ok (p : ascii -> bool) (s : string) : bool :=
  match s with "" => true | String c _ => p c end.

Lemma ascii_sweep (P : ascii -> bool) :
  forallb (fun n => P (ascii_of_nat n)) (seq 0 256) = true -> forall c, P c = true.
Proof.
  intros H c. rewrite forallb_forall in H.
  rewrite <- (ascii_nat_embedding c). apply H. apply in_seq. pose proof (nat_ascii_bounded c). lia.
Qed.

Lemma app_nil_r_s (s : string) : s ++ "" = s.
Proof. induction s as [|c s IH]; cbn; [reflexivity|f_equal; exact IH]. Qed.
Lemma app_assoc_s (a b c : string) : (a ++ b) ++ c = a ++ (b ++ c).
Proof. induction a as [|x a IH]; cbn; [reflexivity|f_equal; exact IH]. Qed.
Lemma length_app_s (a b : string) : String.length (a ++ b) = String.length a + String.length b.
Proof. induction a as [|x a IH]; cbn; [reflexivity|f_equal; exact IH]. Qed.

Lemma span_while_app p a rest :
  all_chars p a = true -> head_ok (fun c => negb (p c)) rest = true -> span_while p (a ++ rest) = (a, rest).
Proof.
  induction a as [|c a IH]; cbn [append all_chars span_while]; intros Ha Hr.
  - destruct rest as [|c r]; cbn in *; [reflexivity|]. destruct (p c); [discriminate|reflexivity].
  - apply andb_true_iff in Ha as [Hc Ha]. rewrite Hc, (IH Ha Hr). reflexivity.
Qed.

Lemma prefix_rest_some k : forall s r, prefix_rest k s = Some r -> s = k ++ r.
Proof.
  induction k as [|a k IH]; intros s r H; cbn in *.
  - congruence.
  - destruct s as [|b s]; [discriminate|]. destruct (Ascii.eqb_spec a b); [|discriminate].
    subst. f_equal. apply IH, H.
Qed.
Lemma prefix_rest_app k r : prefix_rest k (k ++ r) = Some r.
Proof. induction k as [|a k IH]; cbn; [reflexivity|]. rewrite Ascii.eqb_refl. exact IH. Qed.

(* k ++ r = name ++ rest with k, name identifiers and rest not continuing the identifier: k is a prefix of name *)
Lemma split_ident k : forall name rest r,
  all_chars is_idc k = true -> all_chars is_idc name = true ->
  head_ok (fun c => negb (is_idc c)) rest = true ->
  k ++ r = name ++ rest -> exists m, name = k ++ m /\ r = m ++ rest.
Proof.
  induction k as [|a k IH]; intros name rest r Hk Hn Hr E; cbn in *.
  - exists name. split; [reflexivity|exact E].
  - apply andb_true_iff in Hk as [Ha Hk].
    destruct name as [|b name]; cbn in *.
    + subst rest. cbn in Hr. rewrite Ha in Hr. discriminate.
    + apply andb_true_iff in Hn as [Hb Hn]. injection E as -> E.
      destruct (IH name rest r Hk Hn Hr E) as (m & -> & ->). exists m. split; reflexivity.
Qed.

Definition kw_ident : forallb (all_chars is_idc) KW = true := eq_refl.

(* ---------- character classes ---------- *)
Lemma idc_facts c : is_idc c = true ->
  is_fnc c = true /\ is_word c = true /\ is_space c = false /\
  Ascii.eqb c "`" = false /\ Ascii.eqb c "{" = false /\ Ascii.eqb c "<" = false /\ Ascii.eqb c "[" = false /\ Ascii.eqb c "(" = false.
Proof.
  pose proof (ascii_sweep (fun c => implb (is_idc c)
     (is_fnc c && is_word c && negb (is_space c) && negb (Ascii.eqb c "`") && negb (Ascii.eqb c "{") && negb (Ascii.eqb c "<")
      && negb (Ascii.eqb c "[") && negb (Ascii.eqb c "("))) eq_refl c) as H.
  intros Hc. cbv beta in H. rewrite Hc in H. cbn [implb] in H.
  repeat (apply andb_true_iff in H as [H ?]). repeat split; try assumption; apply negb_true_iff; assumption.
Qed.
Lemma alpha_idc c : is_alpha_ c = true -> is_idc c = true.
Proof. unfold is_idc. intros ->. reflexivity. Qed.
Lemma not_fnc_not_idc d : is_fnc d = false -> is_idc d = false.
Proof. intros H. destruct (is_idc d) eqn:E; [|reflexivity]. destruct (idc_facts d E) as (F & _). congruence. Qed.
Lemma all_idc_fnc s : all_chars is_idc s = true -> all_chars is_fnc s = true.
Proof.
  induction s as [|c s IH]; cbn; [reflexivity|]. intros H. apply andb_true_iff in H as [Hc Hs].
  destruct (idc_facts c Hc) as (-> & _). cbn. apply IH, Hs.
Qed.

(* ---------- resuming after a match ---------- *)
(* the \b state after consuming a non-empty string *)
Fixpoint last_word (pw : bool) (a : string) : bool :=
  match a with "" => pw | String c r => last_word (is_word c) r end.

Lemma scan_skip a : forall pos pw rest,
  scan pos (String.length a) pw (a ++ rest) = scan (pos + String.length a) 0 (last_word pw a) rest.
Proof.
  induction a as [|c a IH]; intros pos pw rest; cbn [String.length append last_word].
  - rewrite Nat.add_0_r. destruct rest; reflexivity.
  - cbn [scan]. rewrite IH. f_equal. lia.
Qed.

(* a match of length |a| at the head of a ++ rest: one Tok, then the scan resumes on rest *)
Lemma scan_match pos pw c a rest m :
  match_here pw (String c a ++ rest) = Some m -> mlen m = S (String.length a) ->
  scan pos 0 pw (String c a ++ rest) = Tok pos m :: scan (pos + S (String.length a)) 0 (last_word pw (String c a)) rest.
Proof.
  intros Hm Hl. cbn [append] in *. cbn [scan]. rewrite Hm, Hl. cbn [Nat.sub]. rewrite Nat.sub_0_r.
  rewrite scan_skip. cbn [last_word]. f_equal. f_equal. lia.
Qed.
Lemma scan_chr pos pw c r :
  match_here pw (String c r) = None -> scan pos 0 pw (String c r) = Chr c :: scan (S pos) 0 (is_word c) r.
Proof. intros H. cbn [scan]. rewrite H. reflexivity. Qed.

(* ---------- inert characters: nothing can start at them ---------- *)
Definition inert (c : ascii) : bool :=
  negb (is_alpha_ c) && negb (Ascii.eqb c "`") && negb (Ascii.eqb c "{") && negb (Ascii.eqb c "<").

Lemma prefix_rest_head k c r : prefix_rest k (String c r) <> None -> k = "" \/ exists k', k = String c k'.
Proof.
  destruct k as [|a k]; [auto|]. cbn. destruct (Ascii.eqb_spec a c); [|congruence]. subst. intros _. right. eauto.
Qed.
Lemma kw_nonempty_alpha : forallb (fun k => match k with "" => false | String a _ => is_alpha_ a end) KW = true.
Proof. reflexivity. Qed.

Lemma try_invalid_inert kws c r :
  forallb (fun k => match k with "" => false | String a _ => is_alpha_ a end) kws = true ->
  is_alpha_ c = false -> try_invalid kws (String c r) = None.
Proof.
  intros Hk Hc. induction kws as [|k kws IH]; cbn [try_invalid]; [reflexivity|].
  cbn [forallb] in Hk. apply andb_true_iff in Hk as [Hk1 Hk].
  destruct (prefix_rest k (String c r)) as [x|] eqn:E; [|apply IH, Hk].
  exfalso. destruct k as [|a k]; [discriminate|]. cbn in E. destruct (Ascii.eqb_spec a c); [|discriminate]. subst. congruence.
Qed.
Lemma try_keyword_inert kws c r :
  forallb (fun k => match k with "" => false | String a _ => is_alpha_ a end) kws = true ->
  is_alpha_ c = false -> try_keyword kws (String c r) = None.
Proof.
  intros Hk Hc. induction kws as [|k kws IH]; cbn [try_keyword]; [reflexivity|].
  cbn [forallb] in Hk. apply andb_true_iff in Hk as [Hk1 Hk].
  destruct (prefix_rest k (String c r)) as [x|] eqn:E; [|apply IH, Hk].
  exfalso. destruct k as [|a k]; [discriminate|]. cbn in E. destruct (Ascii.eqb_spec a c); [|discriminate]. subst. congruence.
Qed.

Lemma match_here_inert pw c r : inert c = true -> match_here pw (String c r) = None.
Proof.
  unfold inert. intros H. repeat (apply andb_true_iff in H as [H ?]).
  apply negb_true_iff in H, H0, H1, H2.
  unfold match_here, or_else.
  assert (V : try_verbatim (String c r) = None).
  { unfold try_verbatim. destruct r as [|c1 r1]; [reflexivity|]. rewrite H2. reflexivity. }
  rewrite V, (try_invalid_inert KW c r kw_nonempty_alpha H).
  assert (K : (if pw then None else try_keyword KW (String c r)) = None).
  { destruct pw; [reflexivity|]. apply (try_keyword_inert KW c r kw_nonempty_alpha H). }
  rewrite K. unfold try_function, try_bracketed, try_variable. rewrite H, H1, H0. reflexivity.
Qed.

(* a run of inert characters is copied character by character *)
Lemma scan_inert g : forall pos pw rest,
  all_chars inert g = true ->
  scan pos 0 pw (g ++ rest) = (map Chr (list_ascii_of_string g) ++ scan (pos + String.length g) 0 (last_word pw g) rest)%list.
Proof.
  induction g as [|c g IH]; intros pos pw rest Hg; cbn [append String.length list_ascii_of_string map last_word].
  - rewrite Nat.add_0_r. reflexivity.
  - cbn [all_chars] in Hg. apply andb_true_iff in Hg as [Hc Hg].
    rewrite scan_chr by (apply match_here_inert, Hc). rewrite (IH _ _ _ Hg). cbn [app]. f_equal. f_equal. f_equal. lia.
Qed.

(* ---------- keyword alternatives fail on an identifier that is no keyword ---------- *)
Lemma try_invalid_none kws name rest :
  forallb (all_chars is_idc) kws = true -> ~ In name kws ->
  all_chars is_idc name = true ->
  head_ok (fun c => negb (is_idc c) && negb (is_space c) && negb (Ascii.eqb c "[")) rest = true ->
  try_invalid kws (name ++ rest) = None.
Proof.
  intros Hk Hnin Hn Hr. induction kws as [|k kws IH]; cbn [try_invalid]; [reflexivity|].
  cbn [forallb] in Hk. apply andb_true_iff in Hk as [Hk1 Hk].
  assert (IH' : try_invalid kws (name ++ rest) = None) by (apply IH; [exact Hk | intros HI; apply Hnin; right; exact HI]).
  destruct (prefix_rest k (name ++ rest)) as [r|] eqn:E; [|exact IH'].
  apply prefix_rest_some in E. symmetry in E.
  assert (Hr' : head_ok (fun c => negb (is_idc c)) rest = true).
  { destruct rest as [|c rest']; cbn in *; [reflexivity|]. destruct (is_idc c); [discriminate|reflexivity]. }
  destruct (split_ident k name rest r Hk1 Hn Hr' E) as (m & Hm & ->).
  destruct m as [|c m].
  - (* name = k: then rest follows directly *)
    exfalso. apply Hnin. left. rewrite Hm. symmetry. apply app_nil_r_s.
  - subst name. assert (Hc : is_idc c = true).
    { clear - Hn. induction k as [|a k IHk]; cbn in *; apply andb_true_iff in Hn as [H1 H2]; [exact H1|apply IHk, H2]. }
    destruct (idc_facts c Hc) as (_ & _ & Hs & _ & _ & _ & Hb & _).
    cbn [append span_while]. rewrite Hs, Hb. exact IH'.
Qed.

Lemma try_keyword_none kws name rest :
  forallb (all_chars is_idc) kws = true -> ~ In name kws ->
  all_chars is_idc name = true -> head_ok (fun c => negb (is_idc c)) rest = true ->
  try_keyword kws (name ++ rest) = None.
Proof.
  intros Hk Hnin Hn Hr. induction kws as [|k kws IH]; cbn [try_keyword]; [reflexivity|].
  cbn [forallb] in Hk. apply andb_true_iff in Hk as [Hk1 Hk].
  assert (IH' : try_keyword kws (name ++ rest) = None) by (apply IH; [exact Hk | intros HI; apply Hnin; right; exact HI]).
  destruct (prefix_rest k (name ++ rest)) as [r|] eqn:E; [|exact IH'].
  apply prefix_rest_some in E. symmetry in E.
  destruct (split_ident k name rest r Hk1 Hn Hr E) as (m & Hm & ->).
  destruct m as [|c m].
  - exfalso. apply Hnin. left. rewrite Hm. symmetry. apply app_nil_r_s.
  - subst name. assert (Hc : is_idc c = true).
    { clear - Hn. induction k as [|a k IHk]; cbn in *; apply andb_true_iff in Hn as [H1 H2]; [exact H1|apply IHk, H2]. }
    destruct (idc_facts c Hc) as (_ & Hw & _). cbn [append]. rewrite Hw. exact IH'.
Qed.
