(* SplitBalanceFacts.v — the bracket counter of split_equations_iter, for every input:
   * every statement that does not begin with a fence line has balanced round brackets, and no prefix of it closes
     more brackets than it opened: count_parens 0 st = Some 0;
   * a fenced statement is its opening fence line followed by lines whose round brackets balance in the same sense
     (the counter skips the opening fence line only: a verbatim block with an unbalanced "(" is NOT closed by its
     closing fence — the loop keeps reading until the brackets balance or the input ends with ParserError). *)
From Coq Require Import String Ascii List Bool Arith Lia.
Import ListNotations.
Require Import Generated PyBase PyStr Lex LexFacts Split SplitFacts SplitChunks SplitChunksFacts.
Open Scope string_scope.
Open Scope nat_scope.

Fixpoint count_lines (n : nat) (ls : list string) : option nat :=
  match ls with
  | [] => Some n
  | l :: r => match count_parens n l with Some m => count_lines m r | None => None end
  end.

Lemma count_parens_app a : forall n b,
  count_parens n (a ++ b) = match count_parens n a with Some m => count_parens m b | None => None end.
Proof.
  induction a as [|c a IH]; intros n b; cbn [append count_parens]; [reflexivity|].
  destruct (Ascii.eqb c "("); [apply IH|]. destruct (Ascii.eqb c ")"); [destruct n; [reflexivity|apply IH]|apply IH].
Qed.
Lemma count_lines_app a : forall n b,
  count_lines n (a ++ b)%list = match count_lines n a with Some m => count_lines m b | None => None end.
Proof.
  induction a as [|l a IH]; intros n b; cbn [app count_lines]; [reflexivity|].
  destruct (count_parens n l); [apply IH|reflexivity].
Qed.
Lemma count_parens_join ls : forall n, count_parens n (join_nl ls) = count_lines n ls.
Proof.
  induction ls as [|l r IH]; intros n; [reflexivity|].
  destruct r as [|l2 r']; cbn [join_nl count_lines].
  - destruct (count_parens n l); reflexivity.
  - rewrite count_parens_app. destruct (count_parens n l) as [m|]; [|reflexivity].
    unfold nl_s. rewrite count_parens_app. cbn [count_parens]. change (Ascii.eqb nl "(") with false. change (Ascii.eqb nl ")") with false.
    cbn iota. apply IH.
Qed.

(* the counter equals the bracket count of the buffered lines (the opening fence line left out) *)
Definition bal_inv (st : sstate) : Prop :=
  match rev (buffer st) with
  | [] => unmatched st = 0
  | l :: b => if startswith "```" l then count_lines 0 b = Some (unmatched st) else count_lines 0 (l :: b) = Some (unmatched st)
  end.

Lemma bal_inv_s0 : bal_inv s0.
Proof. reflexivity. Qed.

(* what a completed chunk looks like *)
Definition chunk_balanced (ch : list string) : Prop :=
  match ch with
  | [] => False
  | l :: b => if startswith "```" l then (b <> [] /\ count_lines 0 b = Some 0) else count_lines 0 ch = Some 0
  end.

Lemma split_step_bal st line :
  st_inv st -> bal_inv st ->
  match split_step st line with
  | StRaise _ => True
  | StCont st' | StYield _ st' =>
    bal_inv st' /\ match step_chunk st line with Some ch => chunk_balanced ch | None => True end
  end.
Proof.
  intros [I1 _] B. unfold split_step, step_chunk.
  destruct (startswith "```" line && match buffer st with [] => true | _ => false end) eqn:Ef.
  { apply andb_true_iff in Ef as [Ef Eb]. destruct (buffer st) eqn:Ebs; [|discriminate].
    split; [|exact I]. unfold bal_inv. cbn. rewrite Ef. destruct (I1 eq_refl) as [-> _]. reflexivity. }
  destruct (count_parens (unmatched st) line) as [u|] eqn:Ecp; [|exact I].
  (* the counter after this line, in terms of the buffered lines *)
  assert (NB : bal_inv (mkS u (if startswith "```" line then true else complete st) (line :: buffer st))).
  { unfold bal_inv in *. cbn [buffer unmatched rev].
    destruct (rev (buffer st)) as [|l b] eqn:Er.
    - cbn [app]. assert (Eb : buffer st = []) by (apply (f_equal (@rev string)) in Er; rewrite rev_involutive in Er; exact Er).
      rewrite Eb in Ef. rewrite andb_true_r in Ef. rewrite Ef. cbn [count_lines]. rewrite <- B, Ecp. reflexivity.
    - cbn [app]. destruct (startswith "```" l).
      + rewrite count_lines_app, B. cbn [count_lines]. rewrite Ecp. reflexivity.
      + change (l :: (b ++ [line]))%list with ((l :: b) ++ [line])%list. rewrite count_lines_app, B. cbn [count_lines]. rewrite Ecp. reflexivity. }
  destruct ((u =? 0) && (if startswith "```" line then true else complete st)) eqn:E.
  - apply andb_true_iff in E as [Eu Ec]. apply Nat.eqb_eq in Eu.
    assert (CH : chunk_balanced (rev (line :: buffer st))).
    { unfold bal_inv in NB. cbn [buffer unmatched] in NB. unfold chunk_balanced.
      destruct (rev (line :: buffer st)) as [|l b] eqn:Er.
      - cbn [rev] in Er. destruct (rev (buffer st)); discriminate.
      - destruct (startswith "```" l) eqn:El; [|rewrite NB, Eu; reflexivity].
        split; [|rewrite NB, Eu; reflexivity].
        intros ->. cbn [rev] in Er. destruct (rev (buffer st)) as [|x xs] eqn:Er2.
        + cbn in Er. inversion Er; subst l.
          assert (Eb : buffer st = []) by (apply (f_equal (@rev string)) in Er2; rewrite rev_involutive in Er2; exact Er2).
          rewrite Eb, El in Ef. discriminate.
        + cbn in Er. inversion Er as [[E1 E2]]. destruct xs; discriminate. }
    assert (R : bal_inv (mkS u (if startswith "```" line then true else complete st) [])) by (unfold bal_inv; cbn; exact Eu).
    destruct (is_blank _); [split; [exact R|exact CH]|].
    destruct (stmt_ok (join_nl _)); [split; [exact R|exact CH]|].
    destruct (stmt_ok (py_strip _)); exact I.
  - split; [exact NB|exact I].
Qed.

Lemma chunks_balanced lines : forall st ch,
  st_inv st -> bal_inv st -> In ch (split_chunks st lines) -> chunk_balanced ch.
Proof.
  induction lines as [|line rest IH]; intros st ch I B; cbn [split_chunks]; [intros []|].
  pose proof (split_step_bal st line I B) as S.
  destruct (split_step st line) as [st'|eq st'|e] eqn:E; [| |intros []].
  - destruct S as [B' C]. destruct (split_step_inv st line st' (or_introl E)) as [I' _].
    destruct (step_chunk st line) as [c0|]; [intros [<-|H]; [exact C|eapply IH; eauto]|intros H; eapply IH; eauto].
  - destruct S as [B' C]. destruct (split_step_inv st line st' (or_intror (ex_intro _ eq E))) as [I' _].
    destruct (step_chunk st line) as [c0|]; [intros [<-|H]; [exact C|eapply IH; eauto]|intros H; eapply IH; eauto].
Qed.

(* for EVERY input string: every statement is '\n'.join of a chunk that is bracket-balanced in the above sense *)
Theorem statements_balanced s y :
  In y (fst (split_M s)) ->
  exists ch, y = join_nl ch /\ In ch (model_chunks s) /\ chunk_balanced ch.
Proof.
  unfold split_M, model_chunks. destruct (split_lines s0 (model_lines s)) as [ys oe] eqn:E. cbn [fst].
  rewrite (split_lines_chunks _ _ _ _ E). intros H. apply in_map_iff in H as (ch & <- & Hc).
  apply filter_In in Hc as [Hc _]. exists ch. split; [reflexivity|]. split; [exact Hc|].
  destruct st_inv_s0 as [I0 _]. eapply chunks_balanced; [exact I0|exact bal_inv_s0|exact Hc].
Qed.
(* in particular a statement that does not start with a fence line has balanced round brackets as a string *)
Corollary unfenced_statement_balanced s y :
  In y (fst (split_M s)) -> startswith "```" y = false -> count_parens 0 y = Some 0.
Proof.
  intros H Hf. destruct (statements_balanced s y H) as (ch & -> & _ & C).
  rewrite count_parens_join. destruct ch as [|l b]; [destruct C|]. unfold chunk_balanced in C.
  assert (El : startswith "```" l = false).
  { destruct (startswith "```" l) eqn:El; [|reflexivity]. exfalso.
    assert (startswith "```" (join_nl (l :: b)) = true); [|congruence].
    destruct b as [|l2 b']; cbn [join_nl]; [exact El|].
    unfold startswith in *. destruct (prefix_rest "```" l) as [r|] eqn:Ep; [|discriminate].
    apply prefix_rest_some in Ep. rewrite Ep. rewrite app_assoc_s. rewrite prefix_rest_app. reflexivity. }
  rewrite El in C. exact C.
Qed.
