(* SplitFenceGuardFacts.v — a syntactic condition under which every statement holds an "=" or is verbatim code.
   (Until fix 1c7ed70 an '='-less non-verbatim statement raised ValueError, the one foreign exception left; it is a
   ParserError now, so own_errors_always needs no such guard and this file is a structural fact about the splitter.)
   Such a statement needs a text that equation_re accepts
   through its fenced-block alternative although it is no verbatim statement.  That takes a fence line met while a round
   bracket is open ('(\n```\n```\n)') or a fence line with other text after its backticks ('```\nfoo```\n```x').
   fences_clean excludes exactly these two: every line that starts with ``` consists of backticks only and is met with
   the bracket counter at zero. *)
From Coq Require Import String Ascii List Bool Arith Lia.
Import ListNotations.
Require Import Generated PyBase PyStr Lex LexFacts Split SplitFacts SplitChunks SplitChunksFacts SplitIdemFacts
               Symbols Merge ParseEq ParseEqFacts ParseModel ParseModelFacts.
Open Scope string_scope.
Open Scope nat_scope.

Definition all_bt (l : string) : bool := all_chars (fun c => Ascii.eqb c "`") l.
Definition is_fence (l : string) : bool := startswith "```" l.

Fixpoint fences_clean (st : sstate) (lines : list string) : bool :=
  match lines with
  | [] => true
  | l :: r =>
    (if is_fence l then all_bt l && (unmatched st =? 0) else true) &&
    match split_step st l with
    | StCont st' | StYield _ st' => fences_clean st' r
    | StRaise _ => true
    end
  end.
Definition fences_clean_model (s : string) : bool := fences_clean s0 (model_lines s).

(* ---------- strings ---------- *)
Lemma all_bt_count l : all_bt l = true -> forall n, count_parens n l = Some n.
Proof.
  induction l as [|c l IH]; cbn [all_bt all_chars count_parens]; intros H n; [reflexivity|].
  apply andb_true_iff in H as [Hc Hl]. apply Ascii.eqb_eq in Hc. subst c.
  change (Ascii.eqb "`" "(") with false. change (Ascii.eqb "`" ")") with false. cbv iota. apply IH, Hl.
Qed.
Lemma last_is_cons c d r : r <> "" -> last_is c (String d r) = last_is c r.
Proof. destruct r; [contradiction|reflexivity]. Qed.
Lemma all_bt_last l : all_bt l = true -> l <> "" -> last_is "`" l = true.
Proof.
  induction l as [|c l IH]; intros H N; [contradiction|]. cbn [all_bt all_chars] in H. apply andb_true_iff in H as [Hc Hl].
  destruct l as [|d l']; [exact Hc|]. rewrite last_is_cons by discriminate. apply IH; [exact Hl|discriminate].
Qed.
Lemma app_not_nil x y : y <> "" -> x ++ y <> "".
Proof. destruct x; cbn; [auto|discriminate]. Qed.
Lemma last_is_app c x y : y <> "" -> last_is c (x ++ y) = last_is c y.
Proof.
  intros N. induction x as [|d x IH]; [reflexivity|]. cbn [append]. rewrite last_is_cons by (apply app_not_nil, N). exact IH.
Qed.
Lemma join_nl_cons x r : r <> [] -> join_nl (x :: r) = x ++ nl_s ++ join_nl r.
Proof. destruct r; [contradiction|reflexivity]. Qed.
Lemma join_nl_snoc_not_nil r l : l <> "" -> join_nl (r ++ [l]) <> "".
Proof.
  intros N. induction r as [|a r IH]; [exact N|]. cbn [app].
  rewrite join_nl_cons by (destruct r; discriminate). apply app_not_nil, app_not_nil, IH.
Qed.
Lemma last_is_join c ls l : l <> "" -> last_is c (join_nl (ls ++ [l])) = last_is c l.
Proof.
  intros N. induction ls as [|x r IH]; [reflexivity|]. cbn [app].
  rewrite join_nl_cons by (destruct r; discriminate).
  pose proof (join_nl_snoc_not_nil r l N) as NJ.
  rewrite last_is_app by (apply app_not_nil, NJ). rewrite last_is_app by exact NJ. exact IH.
Qed.
Lemma fence_head l : is_fence l = true -> head_is "`" l = true.
Proof.
  unfold is_fence, startswith. destruct l as [|c l]; [discriminate|]. cbn [prefix_rest head_is].
  destruct (Ascii.eqb_spec "`" c) as [<-|N]; [reflexivity|discriminate].
Qed.
Lemma head_is_join c l r : l <> "" -> head_is c (join_nl (l :: r)) = head_is c l.
Proof. intros N. destruct l as [|d l]; [contradiction|]. destruct r; reflexivity. Qed.

(* startswith "```" of a line followed by nothing or by a newline is decided by the line *)
Lemma startswith_line x t : (t = "" \/ head_is nl t = true) -> startswith "```" (x ++ t) = true -> startswith "```" x = true.
Proof.
  intros Ht. unfold startswith.
  assert (Z : forall k, prefix_rest (String "`" k) t = None).
  { intros k. destruct Ht as [->|Ht]; [reflexivity|]. destruct t as [|d t]; [discriminate|]. cbn in Ht. apply Ascii.eqb_eq in Ht. subst d. reflexivity. }
  assert (P : forall a k b r, prefix_rest (String a k) (String b r) = if Ascii.eqb a b then prefix_rest k r else None) by reflexivity.
  destruct x as [|c1 [|c2 [|c3 x]]]; cbn [append].
  - rewrite Z. discriminate.
  - rewrite P. destruct (Ascii.eqb "`" c1); [rewrite Z|]; discriminate.
  - rewrite !P. destruct (Ascii.eqb "`" c1); [|discriminate]. destruct (Ascii.eqb "`" c2); [rewrite Z|]; discriminate.
  - rewrite !P. destruct (Ascii.eqb "`" c1); [|discriminate]. destruct (Ascii.eqb "`" c2); [|discriminate].
    destruct (Ascii.eqb "`" c3); [reflexivity|discriminate].
Qed.
Lemma alt_fence_starts s : alt_fence s = true -> startswith "```" s = true.
Proof. unfold alt_fence. destruct (startswith "```" s); [reflexivity|discriminate]. Qed.

(* inside a line no alternative of equation_re can start *)
Lemma fence_from_line x : forall t, has_char nl x = false -> fence_from false (x ++ t) = fence_from false t.
Proof.
  induction x as [|c x IH]; intros t H; [reflexivity|]. cbn [has_char] in H. apply orb_false_iff in H as [Hc Hx].
  cbn [append fence_from]. rewrite Hc. cbn [orb]. apply IH, Hx.
Qed.
Lemma fence_from_join ch : (forall l, In l ch -> has_char nl l = false) -> (forall l, In l ch -> is_fence l = false) ->
  fence_from true (join_nl ch) = false.
Proof.
  induction ch as [|x r IH]; intros Hn Hf; [reflexivity|].
  assert (Hx : has_char nl x = false) by (apply Hn; left; reflexivity).
  assert (Fx : is_fence x = false) by (apply Hf; left; reflexivity).
  assert (IH' : fence_from true (join_nl r) = false) by (apply IH; intros l Hl; [apply Hn|apply Hf]; right; exact Hl).
  destruct r as [|y r'].
  - cbn [join_nl]. destruct x as [|c x']; [reflexivity|]. cbn [fence_from]. cbn [has_char] in Hx. apply orb_false_iff in Hx as [Hc Hx'].
    rewrite Hc. rewrite <- (app_nil_r_s x') at 2. rewrite (fence_from_line x' "" Hx'). cbn [fence_from]. rewrite orb_false_r.
    destruct (alt_fence (String c x')) eqn:E; [|reflexivity]. apply alt_fence_starts in E. unfold is_fence in Fx. congruence.
  - rewrite join_nl_cons by discriminate. set (t := nl_s ++ join_nl (y :: r')).
    assert (T : fence_from false t = false).
    { unfold t, nl_s. cbn [append fence_from]. rewrite Ascii.eqb_refl. exact IH'. }
    destruct x as [|c x'].
    + cbn [append]. unfold t, nl_s. cbn [append fence_from]. rewrite Ascii.eqb_refl. rewrite IH', orb_false_r.
      destruct (alt_fence _) eqn:E; [|reflexivity]. apply alt_fence_starts in E. unfold startswith in E. cbn in E. discriminate.
    + cbn [append fence_from]. cbn [has_char] in Hx. apply orb_false_iff in Hx as [Hc Hx']. rewrite Hc.
      rewrite (fence_from_line x' t Hx'), T, orb_false_r.
      destruct (alt_fence (String c (x' ++ t))) eqn:E; [|reflexivity]. apply alt_fence_starts in E.
      change (String c (x' ++ t)) with (String c x' ++ t) in E.
      apply (startswith_line (String c x') t) in E; [unfold is_fence in Fx; congruence|].
      right. unfold t, nl_s. reflexivity.
Qed.

(* ---------- the invariant ---------- *)
Definition nofence (l : string) : Prop := is_fence l = false.
Definition FI (st : sstate) : Prop :=
  match rev (buffer st) with
  | [] => True
  | l0 :: rest => if is_fence l0 then all_bt l0 = true /\ complete st = false /\ Forall nofence rest
                  else Forall nofence (l0 :: rest)
  end.

Definition no_nl (l : string) : Prop := has_char nl l = false.

Lemma rev_snoc_head {A} (b : list A) x : exists h t, rev (x :: b) = h :: t /\
  match rev b with [] => h = x /\ t = [] | h' :: t' => h = h' /\ t = (t' ++ [x])%list end.
Proof. cbn [rev]. destruct (rev b) as [|h' t']; cbn; eauto. Qed.

Lemma clean_step st line :
  st_inv st -> fence_inv st -> FI st ->
  (forall l, In l (line :: buffer st) -> no_nl l) ->
  (if is_fence line then all_bt line && (unmatched st =? 0) else true) = true ->
  match split_step st line with
  | StRaise _ => True
  | StCont st' => FI st'
  | StYield eq st' => FI st' /\ (has_char "=" eq || backticked eq = true)
  end.
Proof.
  intros [I1 I2] F Hfi Hnl Hc. unfold split_step. fold (is_fence line).
  destruct (is_fence line) eqn:Efl.
  - (* a fence line: all backticks, met with the counter at zero *)
    apply andb_true_iff in Hc as [Hbt Hu]. apply Nat.eqb_eq in Hu.
    destruct (buffer st) as [|y b] eqn:Eb; cbn [andb].
    + unfold FI. cbn [buffer rev app]. rewrite Efl. repeat split; auto.
    + rewrite (all_bt_count line Hbt). rewrite Hu. cbn [Nat.eqb andb].
      (* the buffer is not empty and the counter is zero: a fence is open, the buffer starts with its opening line *)
      assert (Cf : complete st = false).
      { destruct (I2 ltac:(discriminate)) as [Hn|Hcf]; [congruence|exact Hcf]. }
      unfold FI in Hfi. rewrite Eb in Hfi.
      destruct (F Cf) as (l0 & rest & Er & Hl0). rewrite Eb in Er. rewrite Er in Hfi. fold (is_fence l0) in Hl0. rewrite Hl0 in Hfi.
      destruct Hfi as (Hbt0 & _ & Hrest).
      set (eq := join_nl (rev (line :: y :: b))).
      assert (BT : backticked eq = true).
      { unfold backticked, eq. change (rev (line :: y :: b)) with (rev (y :: b) ++ [line])%list. rewrite Er. cbn [app].
        assert (N0 : l0 <> "") by (intros ->; discriminate Hl0).
        assert (Nl : line <> "") by (intros ->; discriminate Efl).
        change (l0 :: rest ++ [line])%list with ((l0 :: rest) ++ [line])%list.
        rewrite (last_is_join "`" (l0 :: rest) line Nl), (all_bt_last line Hbt Nl), andb_true_r.
        cbn [app]. rewrite (head_is_join "`" l0 (rest ++ [line]) N0). apply fence_head, Hl0. }
      destruct (is_blank eq); [unfold FI; cbn; exact I|].
      destruct (stmt_ok eq); [split; [unfold FI; cbn; exact I|rewrite BT; apply orb_true_r]|].
      destruct (stmt_ok (py_strip eq)); exact I.
  - (* an ordinary line *)
    cbn [andb].
    destruct (count_parens (unmatched st) line) as [u|]; [|exact I].
    assert (NEXT : FI (mkS u (complete st) (line :: buffer st))).
    { unfold FI in *. cbn [buffer complete]. destruct (rev_snoc_head (buffer st) line) as (h & t & -> & Hht).
      destruct (rev (buffer st)) as [|h' t'].
      - destruct Hht as [-> ->]. rewrite Efl. constructor; [exact Efl|constructor].
      - destruct Hht as [-> ->]. destruct (is_fence h').
        + destruct Hfi as (A & B & C). repeat split; auto. apply Forall_app. split; [exact C|constructor; [exact Efl|constructor]].
        + change (h' :: t' ++ [line])%list with ((h' :: t') ++ [line])%list. apply Forall_app. split; [exact Hfi|constructor; [exact Efl|constructor]]. }
    destruct ((u =? 0) && complete st) eqn:E; [|exact NEXT].
    apply andb_true_iff in E as [_ Ecs].
    set (eq := join_nl (rev (line :: buffer st))).
    assert (NF : forall l, In l (rev (line :: buffer st)) -> is_fence l = false).
    { unfold FI in NEXT. cbn [buffer complete] in NEXT. intros l Hl.
      destruct (rev (line :: buffer st)) as [|h t]; [destruct Hl|].
      destruct (is_fence h) eqn:Eh; [destruct NEXT as (_ & B & _); congruence|].
      rewrite Forall_forall in NEXT. apply NEXT, Hl. }
    assert (EQ : stmt_ok eq = true -> has_char "=" eq = true).
    { intros Hs. destruct (stmt_ok_eq_or_fence _ Hs) as [A|A]; [exact A|].
      unfold has_fence_match, eq in A. rewrite fence_from_join in A; [discriminate| |exact NF].
      intros l Hl. apply in_rev in Hl. apply Hnl, Hl. }
    destruct (is_blank eq); [unfold FI; cbn; exact I|].
    destruct (stmt_ok eq) eqn:Es; [split; [unfold FI; cbn; exact I|rewrite (EQ eq_refl); reflexivity]|].
    destruct (stmt_ok (py_strip eq)); exact I.
Qed.

Lemma clean_lines lines : forall st ys oe,
  st_inv st -> fence_inv st -> FI st ->
  (forall l, In l (buffer st) -> no_nl l) -> (forall l, In l lines -> no_nl l) ->
  fences_clean st lines = true -> split_lines st lines = (ys, oe) ->
  forall y, In y ys -> has_char "=" y || backticked y = true.
Proof.
  induction lines as [|line rest IH]; intros st ys oe I F Hfi Hb Hl Hc; cbn [split_lines].
  - intros H; inversion H; subst. intros y [].
  - cbn [fences_clean] in Hc. apply andb_true_iff in Hc as [Hc1 Hc2].
    assert (Hrest : forall l, In l rest -> no_nl l) by (intros l Hi; apply Hl; right; exact Hi).
    assert (Hbuf : forall l, In l (line :: buffer st) -> no_nl l).
    { intros l [<-|Hi]; [apply Hl; left; reflexivity|apply Hb, Hi]. }
    pose proof (clean_step st line I F Hfi Hbuf Hc1) as CS.
    pose proof (split_step_chunk st line) as SC.
    destruct (split_step st line) as [st'|eq st'|e] eqn:E.
    + destruct (split_step_inv st line st' (or_introl E)) as [I' F'].
      apply (IH st'); auto.
      destruct (step_chunk st line) as [ch|]; [destruct SC as (_ & -> & _); intros l []|rewrite SC; exact Hbuf].
    + destruct (split_step_inv st line st' (or_intror (ex_intro _ eq E))) as [I' F'].
      destruct (split_lines st' rest) as [ys' e'] eqn:E2. intros H; inversion H; subst.
      destruct CS as [Hfi' Hy]. intros y [<-|Hy']; [exact Hy|].
      destruct (step_chunk st line) as [ch|]; [|contradiction]. destruct SC as (_ & Hb' & _).
      eapply (IH st'); eauto. rewrite Hb'. intros l [].
    + intros H; inversion H; subst. intros y [].
Qed.

Lemma nosepP_no_nl l : nosepP l -> no_nl l.
Proof. intros H. apply H. reflexivity. Qed.

(* for EVERY script: fence lines clean  ==>  every statement holds an "=" or is verbatim code *)
Theorem fences_clean_no_eqless s : fences_clean_model s = true -> no_eqless_statement s = true.
Proof.
  intros Hc. unfold no_eqless_statement. apply forallb_forall. intros y Hy. unfold stmt_has_eq_or_verbatim.
  unfold split_M in Hy. destruct (split_lines s0 (model_lines s)) as [ys oe] eqn:E. cbn [fst] in Hy.
  destruct st_inv_s0 as [I0 F0].
  eapply (clean_lines (model_lines s) s0 ys oe I0 F0); [exact I|intros l []| |exact Hc|exact E|exact Hy].
  intros l Hl. apply nosepP_no_nl. exact (proj1 (model_lines_good s l Hl)).
Qed.
