(* SplitInsertFacts.v — what must NOT change: a blank or comment-only line between two statements (or before the
   first / after the last) changes nothing — not the statements, not the exception, not the parse result — for
   every script, every oracle and both settings of check_syntax. *)
From Coq Require Import String Ascii List Bool Arith Lia.
Import ListNotations.
Require Import Generated PyBase PyStr Symbols Split SplitFacts SplitChunks SplitChunksFacts Merge ParseEq ParseModel.
Open Scope string_scope.
Open Scope nat_scope.

Lemma blank_no_special l : is_blank l = true -> forall c, is_pyspace c = false -> has_char c l = false.
Proof.
  intros Hb c Hc. destruct (has_char c l) eqn:E; [|reflexivity].
  rewrite (lstrip_blank_all l Hb c E) in Hc. discriminate.
Qed.
Lemma count_parens_none_special l : has_char "(" l = false -> has_char ")" l = false -> forall n, count_parens n l = Some n.
Proof.
  induction l as [|c r IH]; cbn [has_char count_parens]; intros H1 H2 n; [reflexivity|].
  apply orb_false_iff in H1 as [A1 B1]. apply orb_false_iff in H2 as [A2 B2]. rewrite A1, A2. apply IH; assumption.
Qed.
Lemma blank_not_fence l : is_blank l = true -> startswith "```" l = false.
Proof.
  intros Hb. destruct (startswith "```" l) eqn:E; [|reflexivity].
  pose proof (startswith_fence_has l E) as H. rewrite (blank_no_special l Hb "`" eq_refl) in H. discriminate.
Qed.

(* a blank line met with an empty buffer leaves the loop state as it is and yields nothing *)
Lemma blank_line_step st l : st_inv st -> buffer st = [] -> is_blank l = true -> split_step st l = StCont st.
Proof.
  intros [I1 _] Hb Hl. destruct (I1 Hb) as [Hu Hc]. destruct st as [u c b]. cbn in *. subst u c b.
  unfold split_step. cbn [buffer unmatched complete]. rewrite (blank_not_fence l Hl). cbn [andb].
  rewrite (count_parens_none_special l (blank_no_special l Hl "(" eq_refl) (blank_no_special l Hl ")" eq_refl)).
  cbn [Nat.eqb andb rev app join_nl]. rewrite Hl. reflexivity.
Qed.

Lemma split_lines_insert_blank a : forall st st' l b,
  st_inv st -> final_state st a = Some st' -> buffer st' = [] -> is_blank l = true ->
  split_lines st (a ++ l :: b) = split_lines st (a ++ b).
Proof.
  induction a as [|x a IH]; intros st st' l b I Hf Hb Hl; cbn [app final_state] in *.
  - inversion Hf; subst st'. cbn [split_lines]. rewrite (blank_line_step st l I Hb Hl). reflexivity.
  - cbn [split_lines]. destruct (split_step st x) as [st1|eq st1|e] eqn:E; [| |reflexivity].
    + destruct (split_step_inv st x st1 (or_introl E)) as [I1 _]. eapply IH; eauto.
    + destruct (split_step_inv st x st1 (or_intror (ex_intro _ eq E))) as [I1 _].
      rewrite (IH st1 st' l b I1 Hf Hb Hl). reflexivity.
Qed.

Lemma parse_model_M_split chk cs s1 s2 : split_M s1 = split_M s2 -> parse_model_M chk cs s1 = parse_model_M chk cs s2.
Proof. unfold parse_model_M. intros ->. reflexivity. Qed.

(* s2 is s1 with one more blank / comment-only line at a point where no bracket and no fence is open *)
Theorem blank_line_between_statements_irrelevant chk cs s1 s2 a b l st' :
  model_lines s1 = (a ++ b)%list -> model_lines s2 = (a ++ l :: b)%list ->
  final_state s0 a = Some st' -> buffer st' = [] -> is_blank l = true ->
  split_M s2 = split_M s1 /\ parse_model_M chk cs s2 = parse_model_M chk cs s1.
Proof.
  intros H1 H2 Hf Hb Hl.
  assert (E : split_M s2 = split_M s1).
  { unfold split_M. rewrite H1, H2. destruct st_inv_s0 as [I0 _]. eapply split_lines_insert_blank; eauto. }
  split; [exact E|apply parse_model_M_split, E].
Qed.

(* a comment-only line is a blank line once strip_comments has run *)
Lemma comment_only_line_blank w c : forallb is_pyspace (list_ascii_of_string w) = true -> is_blank (strip_comments (w ++ String "#" c)) = true.
Proof.
  intros Hw. unfold strip_comments.
  assert (F : find_any "#" (w ++ String "#" c) = Some (w, c)).
  { induction w as [|d w IH]; cbn [append find_any list_ascii_of_string forallb] in *; [reflexivity|].
    apply andb_true_iff in Hw as [Hd Hw]. destruct (Ascii.eqb d "#") eqn:E.
    - apply Ascii.eqb_eq in E. subst d. discriminate Hd.
    - rewrite (IH Hw). reflexivity. }
  rewrite F. unfold is_blank.
  destruct (lstrip_by is_pyspace (py_rstrip w)) eqn:E; [reflexivity|exfalso].
  assert (A : has_char a (py_rstrip w) = true).
  { unfold lstrip_by in E. pose proof (span_while_app_eq is_pyspace (py_rstrip w)) as S.
    destruct (span_while is_pyspace (py_rstrip w)) as [x y]. cbn [snd] in E. subst y. rewrite (S _ _ eq_refl).
    apply has_char_app_r. cbn. rewrite Ascii.eqb_refl. reflexivity. }
  assert (N : is_pyspace a = false).
  { unfold lstrip_by in E. clear - E. induction (py_rstrip w) as [|d r IH]; cbn [span_while] in E; [discriminate|].
    destruct (is_pyspace d) eqn:Ed.
    - destruct (span_while is_pyspace r) as [x y]. cbn [snd] in *. apply IH, E.
    - cbn in E. inversion E; subst. exact Ed. }
  assert (W : forall ch, has_char ch w = true -> is_pyspace ch = true).
  { clear - Hw. induction w as [|d w IH]; cbn [has_char list_ascii_of_string forallb] in *; [discriminate|].
    apply andb_true_iff in Hw as [Hd Hw]. intros ch H. apply orb_true_iff in H as [H|H]; [apply Ascii.eqb_eq in H; subst; exact Hd|apply IH; assumption]. }
  destruct (has_char a w) eqn:Ew; [rewrite (W a Ew) in N; discriminate|].
  unfold py_rstrip in A. rewrite (has_char_rstrip a is_pyspace w Ew) in A. discriminate.
Qed.
