(* ParseContribFacts.v — "each statement contributes exactly one equation or verbatim block".
   n_emitted counts what build_model_definition emits (ENDOGENOUS / VERBATIM symbols with equation and code).
   * per statement: a verbatim statement yields exactly one block; an equation whose ENDOGENOUS terms all carry the
     same name y, with no function named y, yields exactly one equation (equation_symbols_one);
   * per model: when no name is given an equation by two statements, the merged list emits as many equations /
     blocks as the per-statement lists together (merge_symbols_count);
   * together: n_emitted (parse_model …) = number of statements (every_statement_contributes).
   The guards are exactly the finding classes refuted in ParseModelExamples (two names on the left, identical
   duplicates; a left-hand name called as a function is a SymbolError since fix b45daa1 and needs no guard); the unclosed fence — formerly a fourth finding — is a
   ParserError since 85765d5 (SplitChunksFacts.unclosed_fence_is_parser_error), so an accepted model loses no line:
   no_statement_discarded below puts both halves together. *)
From Coq Require Import String Ascii List Bool Arith ZArith Lia.
Import ListNotations.
Require Import Generated PyBase PyStr Lex Format Symbols SymbolsFacts Split SplitFacts SplitChunks SplitChunksFacts Merge MergeFacts ParseEq ParseEqFacts ParseModel ParseModelFacts.
Open Scope string_scope.
Open Scope nat_scope.

Definition b2n (b : bool) : nat := if b then 1 else 0.

Lemma n_emitted_cons x l : n_emitted (x :: l) = b2n (emits x) + n_emitted l.
Proof. unfold n_emitted. cbn [filter]. destruct (emits x); reflexivity. Qed.
Lemma n_emitted_app a b : n_emitted (a ++ b) = n_emitted a + n_emitted b.
Proof. unfold n_emitted. rewrite filter_app, app_length. reflexivity. Qed.
Lemma n_emitted_rev a : n_emitted (rev a) = n_emitted a.
Proof.
  induction a as [|x a IH]; [reflexivity|]. cbn [rev]. rewrite n_emitted_app, IH, !n_emitted_cons.
  change (n_emitted []) with 0. lia.
Qed.

(* ---------- dict_set / dict_get ---------- *)
Lemma dict_get_set_same {V} k (v : V) d : dict_get k (dict_set k v d) = Some v.
Proof.
  induction d as [|[k' v'] d IH]; cbn; [rewrite String.eqb_refl; reflexivity|].
  destruct (String.eqb k k') eqn:E; cbn; rewrite E; [reflexivity|exact IH].
Qed.
Lemma dict_get_set_other {V} k k' (v : V) d : k' <> k -> dict_get k' (dict_set k v d) = dict_get k' d.
Proof.
  intros Hne. induction d as [|[k2 v2] d IH]; cbn.
  - destruct (String.eqb_spec k' k); [contradiction|reflexivity].
  - destruct (String.eqb_spec k k2) as [->|Hk]; cbn.
    + destruct (String.eqb_spec k' k2); [contradiction|reflexivity].
    + destruct (String.eqb k' k2); [reflexivity|exact IH].
Qed.
(* dict_set replaces exactly the entry dict_get sees, or appends *)
Lemma n_emitted_dict_set k v d :
  n_emitted (dict_values (dict_set k v d)) + match dict_get k d with Some o => b2n (emits o) | None => 0 end
  = n_emitted (dict_values d) + b2n (emits v).
Proof.
  unfold dict_values. induction d as [|[k' v'] d IH]; cbn [dict_set dict_get map snd].
  - rewrite n_emitted_cons. cbn. lia.
  - destruct (String.eqb k k'); cbn [map snd]; rewrite !n_emitted_cons; lia.
Qed.

(* ---------- combine, without well-formedness ---------- *)
Lemma resolve_strings_same x : resolve_strings x x = Ret x.
Proof. destruct x as [o|]; cbn; [rewrite String.eqb_refl|]; reflexivity. Qed.
Lemma resolve_strings_none_r x : resolve_strings x None = Ret x.
Proof. destruct x; reflexivity. Qed.
Lemma resolve_strings_some_r x e r : resolve_strings x (Some e) = Ret r -> exists o, r = Some o.
Proof.
  destruct x as [o|]; cbn.
  - destruct (String.eqb o e); [|discriminate]. intros H; inversion H; eauto.
  - intros H; inversion H; eauto.
Qed.

Lemma combine_ret a b c : combine a b = Ret c ->
  sname c = sname a /\
  ((stype a = stype b /\ stype c = stype a) \/
   (stype a <> stype b /\ is_variable_type (stype a) = true /\ is_variable_type (stype b) = true /\ stype c = type_max (stype a) (stype b))) /\
  resolve_strings (sequation a) (sequation b) = Ret (sequation c) /\
  resolve_strings (scode a) (scode b) = Ret (scode c).
Proof.
  unfold combine, obind.
  destruct (type_eqb (stype a) (stype b)) eqn:Et.
  - apply type_eqb_eq in Et.
    destruct (resolve_by_type_pair Z.min _ _); [|discriminate]. destruct (resolve_by_type_pair Z.max _ _); [|discriminate].
    destruct (resolve_strings (sequation a) (sequation b)); [|discriminate].
    destruct (resolve_strings (scode a) (scode b)); [|discriminate].
    intros H; inversion H; subst; cbn. auto 8.
  - assert (Hne : stype a <> stype b) by (intros E; apply type_eqb_eq in E; congruence).
    destruct (is_variable_type (stype a) && is_variable_type (stype b)) eqn:Ev; [|discriminate].
    apply andb_true_iff in Ev as [Va Vb].
    destruct (resolve_by_type_pair Z.min _ _); [|discriminate]. destruct (resolve_by_type_pair Z.max _ _); [|discriminate].
    destruct (resolve_strings (sequation a) (sequation b)); [|discriminate].
    destruct (resolve_strings (scode a) (scode b)); [|discriminate].
    intros H; inversion H; subst; cbn. auto 10.
Qed.

(* a named symbol as the parser builds it: it emits iff it is ENDOGENOUS, and only then carries equation / code *)
Definition tidy (s : symbol) : Prop :=
  if emits s then stype s = TEndogenous
  else sequation s = None /\ scode s = None /\ stype s <> TEndogenous.

Lemma emits_endo s : stype s = TEndogenous -> emits s = match sequation s, scode s with Some _, Some _ => true | _, _ => false end.
Proof. unfold emits. intros ->. reflexivity. Qed.

(* combining anything with an emitting ENDOGENOUS symbol gives an emitting ENDOGENOUS symbol *)
Lemma combine_emitting_r a b c :
  combine a b = Ret c -> stype b = TEndogenous -> emits b = true -> emits c = true /\ stype c = TEndogenous.
Proof.
  intros H Tb Eb. destruct (combine_ret _ _ _ H) as (_ & Ht & He & Hc).
  assert (Tc : stype c = TEndogenous).
  { destruct Ht as [[E1 E2]|(_ & Va & _ & E)]; [congruence|]. rewrite E, Tb. apply type_max_endogenous_r, Va. }
  split; [|exact Tc]. rewrite (emits_endo b Tb) in Eb.
  destruct (sequation b) as [eb|]; [|discriminate]. destruct (scode b) as [cb|]; [|discriminate].
  destruct (resolve_strings_some_r _ _ _ He) as [o Ho]. destruct (resolve_strings_some_r _ _ _ Hc) as [o' Ho'].
  rewrite (emits_endo c Tc), Ho, Ho'. reflexivity.
Qed.
(* combining a tidy symbol with a non-emitting tidy one changes neither emission nor tidiness *)
Lemma combine_nonemitting_r a b c :
  combine a b = Ret c -> tidy a -> tidy b -> emits b = false -> emits c = emits a /\ tidy c.
Proof.
  intros H Ta Tb Eb. destruct (combine_ret _ _ _ H) as (_ & Ht & He & Hc).
  unfold tidy in Tb. rewrite Eb in Tb. destruct Tb as (Eqb & Cdb & Tyb).
  rewrite Eqb, resolve_strings_none_r in He. rewrite Cdb, resolve_strings_none_r in Hc.
  inversion He as [He']. inversion Hc as [Hc']. clear He Hc.
  unfold tidy in Ta. destruct (emits a) eqn:Ea.
  - assert (Tc : stype c = TEndogenous).
    { destruct Ht as [[E1 E2]|(_ & _ & Vb & E)]; [congruence|]. rewrite E, Ta. apply type_max_endogenous_l, Vb. }
    assert (Ec : emits c = true).
    { rewrite (emits_endo c Tc), <- He', <- Hc'. rewrite (emits_endo a Ta) in Ea. exact Ea. }
    split; [exact Ec|]. unfold tidy. rewrite Ec. exact Tc.
  - destruct Ta as (Eqa & Cda & Tya).
    assert (Tc : stype c <> TEndogenous).
    { destruct Ht as [[E1 E2]|(_ & _ & _ & E)]; [congruence|]. rewrite E. destruct (type_max_cases (stype a) (stype b)) as [->| ->]; assumption. }
    assert (Ec : emits c = false).
    { unfold emits. rewrite <- He', Eqa. destruct (stype c); reflexivity. }
    split; [exact Ec|]. unfold tidy. rewrite Ec. repeat split; congruence.
Qed.
Lemma combine_self s c : combine s s = Ret c -> emits c = emits s /\ (tidy s -> tidy c) /\ stype c = stype s.
Proof.
  intros H. destruct (combine_ret _ _ _ H) as (_ & Ht & He & Hc).
  rewrite resolve_strings_same in He, Hc. inversion He as [He']. inversion Hc as [Hc'].
  assert (Tc : stype c = stype s) by (destruct Ht as [[_ E]|(N & _)]; [exact E|congruence]).
  assert (Ec : emits c = emits s) by (unfold emits; rewrite Tc, <- He', <- Hc'; reflexivity).
  split; [exact Ec|]. split; [|exact Tc]. unfold tidy. rewrite Ec, Tc, <- He', <- Hc'. auto.
Qed.

(* ---------- one equation ---------- *)
(* every ENDOGENOUS term is named y.  (Until fix b45daa1 the guard also had to exclude a FUNCTION term named y — finding #19:
   the function symbol silently replaced the variable; such a statement is now rejected with SymbolError, MergeClashFacts.) *)
Definition lhs_guard (y : string) (terms : list term) : bool :=
  forallb (fun t => match ttype t with
                    | TEndogenous => String.eqb (tname t) y
                    | _ => true
                    end) terms.
Definition is_endo (t : term) : bool := type_eqb (ttype t) TEndogenous.

Section OneEquation.
  Variables (eqn code y : string).

  Record inv (e : bool) (d : list (string * symbol)) : Prop := {
    inv_count : n_emitted (dict_values d) = b2n e;
    inv_tidy : forall v, In v (dict_values d) -> tidy v;
    inv_other : forall k v, dict_get k d = Some v -> k <> y -> emits v = false;
    inv_y : match dict_get y d with None => e = false | Some v => emits v = e end }.

  Lemma inv_get_tidy e d k v : inv e d -> dict_get k d = Some v -> tidy v.
  Proof. intros I H. apply (inv_tidy _ _ I). eapply dict_get_in; eauto. Qed.

  (* assigning a non-emitting tidy symbol under a key other than y *)
  Lemma inv_set_other e d k v : inv e d -> k <> y -> tidy v -> emits v = false -> inv e (dict_set k v d).
  Proof.
    intros I Hk Tv Ev. constructor.
    - pose proof (n_emitted_dict_set k v d) as C. rewrite Ev in C. cbn in C.
      destruct (dict_get k d) as [o|] eqn:Eg.
      + rewrite (inv_other _ _ I _ _ Eg Hk) in C. cbn in C. rewrite <- (inv_count _ _ I). lia.
      + rewrite <- (inv_count _ _ I). lia.
    - intros x Hx. destruct (dict_values_set_in _ _ _ _ Hx) as [->|Hx']; [exact Tv|apply (inv_tidy _ _ I), Hx'].
    - intros k' v' Hg Hk'. destruct (String.eqb_spec k' k) as [->|Hne].
      + rewrite dict_get_set_same in Hg. inversion Hg; subst. exact Ev.
      + rewrite (dict_get_set_other _ _ _ _ Hne) in Hg. eapply inv_other; eauto.
    - rewrite (dict_get_set_other k y v d (not_eq_sym Hk)). apply (inv_y _ _ I).
  Qed.
  (* assigning under the key y a tidy symbol that emits e' , when the old entry (if any) emitted e *)
  Lemma inv_set_y e e' d v : inv e d -> tidy v -> emits v = e' -> (e = true -> e' = true) -> inv e' (dict_set y v d).
  Proof.
    intros I Tv Ev Hmono. constructor.
    - pose proof (n_emitted_dict_set y v d) as C. rewrite Ev in C. pose proof (inv_y _ _ I) as Y. pose proof (inv_count _ _ I) as N.
      destruct (dict_get y d) as [o|].
      + rewrite Y in C. destruct e, e'; cbn in *; try lia; try (specialize (Hmono eq_refl); discriminate).
      + subst e. cbn in *. lia.
    - intros x Hx. destruct (dict_values_set_in _ _ _ _ Hx) as [->|Hx']; [exact Tv|apply (inv_tidy _ _ I), Hx'].
    - intros k' v' Hg Hk'. rewrite (dict_get_set_other _ _ _ _ Hk') in Hg. eapply inv_other; eauto.
    - rewrite dict_get_set_same. exact Ev.
  Qed.

  Lemma go_count terms : forall d fs e d',
    lhs_guard y terms = true -> inv e d ->
    equation_symbols_go eqn code terms d fs = Ret d' -> inv (e || existsb is_endo terms) d'.
  Proof.
    induction terms as [|t rest IH]; intros d fs e d' G I; cbn [equation_symbols_go existsb].
    - intros H; inversion H; subst. rewrite orb_false_r. exact I.
    - cbn [lhs_guard forallb] in G. apply andb_true_iff in G as [Gt Gr]. fold (lhs_guard y rest) in Gr.
      (* the generic non-endogenous, non-function, non-verbatim step *)
      assert (PLAIN : forall ty, ty <> TEndogenous -> ttype t = ty ->
                dict_combine (tname t) (mkSymbol (Some (tname t)) ty (tindex t) (tindex t) None None) d = Ret d' \/ True ->
                forall dd, dict_combine (tname t) (mkSymbol (Some (tname t)) ty (tindex t) (tindex t) None None) d = Ret dd -> inv e dd).
      { intros ty Hty _ _ dd. set (sym := mkSymbol (Some (tname t)) ty (tindex t) (tindex t) None None).
        assert (Ts : tidy sym) by (unfold tidy, sym, emits; cbn; destruct ty; auto).
        assert (Es : emits sym = false) by (unfold sym, emits; cbn; destruct ty; reflexivity).
        unfold dict_combine. destruct (dict_get (tname t) d) as [old|] eqn:Eg.
        - destruct (combine old sym) as [c|] eqn:Ec; [|discriminate]. intros H; inversion H; subst dd.
          destruct (combine_nonemitting_r _ _ _ Ec (inv_get_tidy _ _ _ _ I Eg) Ts Es) as [Ece Tc].
          destruct (String.eqb_spec (tname t) y) as [Hy|Hy].
          + rewrite Hy in *. apply (inv_set_y e e d c I Tc); [|auto].
            pose proof (inv_y _ _ I) as Y. rewrite Eg in Y. congruence.
          + apply inv_set_other; auto. rewrite Ece. eapply inv_other; eauto.
        - destruct (combine sym sym) as [c|] eqn:Ec; [|discriminate]. intros H; inversion H; subst dd.
          destruct (combine_self _ _ Ec) as (Ece & Tc & _).
          destruct (String.eqb_spec (tname t) y) as [Hy|Hy].
          + rewrite Hy in *. pose proof (inv_y _ _ I) as Y. rewrite Eg in Y. subst e.
            apply (inv_set_y false false d c I (Tc Ts)); [congruence|auto].
          + apply inv_set_other; auto. congruence. }
      destruct (ttype t) eqn:Ety; cbn [is_endo type_eqb]; unfold is_endo; rewrite Ety; cbn [type_eqb orb].
      all: try (destruct (dict_combine (tname t) _ d) as [dd|] eqn:Ed; [|discriminate]; intros H;
                replace (e || (false || existsb is_endo rest)) with (e || existsb is_endo rest) by reflexivity;
                eapply IH; [exact Gr| |exact H]; eapply PLAIN; eauto; discriminate).
      + (* ENDOGENOUS: the name is y *)
        apply String.eqb_eq in Gt.
        set (sym := mkSymbol (Some (tname t)) TEndogenous (tindex t) (tindex t) (Some eqn) (Some code)).
        assert (Es : emits sym = true) by reflexivity.
        assert (Tys : stype sym = TEndogenous) by reflexivity.
        destruct (dict_combine (tname t) sym d) as [dd|] eqn:Ed; [|discriminate]. intros H.
        replace (e || true) with (true || existsb is_endo rest) by (destruct e; reflexivity).
        eapply IH; [exact Gr| |exact H].
        unfold dict_combine in Ed. rewrite Gt in Ed.
        destruct (dict_get y d) as [old|] eqn:Eg.
        * destruct (combine old sym) as [c|] eqn:Ec; [|discriminate]. inversion Ed; subst dd.
          destruct (combine_emitting_r _ _ _ Ec Tys Es) as [Ece Tc].
          apply (inv_set_y e true d c I); [unfold tidy; rewrite Ece; exact Tc|exact Ece|auto].
        * destruct (combine sym sym) as [c|] eqn:Ec; [|discriminate]. inversion Ed; subst dd.
          destruct (combine_self _ _ Ec) as (Ece & _ & Tc).
          apply (inv_set_y e true d c I); [unfold tidy; rewrite Ece, Es, Tc; reflexivity|congruence|auto].
      + (* VERBATIM terms never become symbols *)
        intros H. eapply IH; [exact Gr|exact I|exact H].
  Qed.
End OneEquation.

Lemma inv_nil y : inv y false [].
Proof. constructor; cbn; auto; try (intros; contradiction); try discriminate; try (intros k v H; discriminate). Qed.

Theorem equation_symbols_one eqn code y terms syms :
  lhs_guard y terms = true -> has_type TEndogenous terms = true ->
  equation_symbols eqn code terms = Ret syms -> n_emitted syms = 1 /\ forall v, In v syms -> tidy v.
Proof.
  intros G E. unfold equation_symbols.
  destruct (equation_symbols_go eqn code terms [] []) as [d|] eqn:Eg; [|discriminate].
  intros H; inversion H; subst.
  pose proof (go_count eqn code y terms [] [] false d G (inv_nil y) Eg) as I. cbn [orb] in I.
  replace (existsb is_endo terms) with true in I by (symmetry; exact E).
  split; [exact (inv_count _ _ _ I)|exact (inv_tidy _ _ _ I)].
Qed.

(* ---------- one statement ---------- *)
Definition stmt_guard (st : string) : Prop :=
  backticked st = true \/ exists terms y, parse_equation_terms st = Ret terms /\ lhs_guard y terms = true.

Theorem statement_emits_one st syms :
  is_blank st = false -> stmt_guard st -> parse_equation_M st = POk syms ->
  n_emitted syms = 1 /\ forall v, In v syms -> sname v <> None -> tidy v.
Proof.
  intros Hb G. unfold parse_equation_M. rewrite Hb.
  destruct (split_M st) as [stmts [se|]]; [discriminate|].
  destruct (negb (length stmts =? 1)); [discriminate|].
  fold (backticked st). destruct (backticked st) eqn:Ebt.
  { intros H; inversion H; subst. split; [reflexivity|]. intros v [<-|[]] Hn. cbn in Hn. congruence. }
  destruct G as [G|(terms & y & Ht & G)]; [congruence|].
  destruct (negb (count_char "{" st =? count_char "}" st)); [discriminate|].
  rewrite Ht. pose proof (parse_equation_terms_wf _ _ Ht) as Hwf.
  destruct (wf_terms_strs terms Hwf) as (a & b & -> & ->).
  destruct (py_format (template st) a) as [sd| |]; [|discriminate|discriminate].
  destruct (py_format (template st) b) as [cd| |]; [|discriminate|discriminate].
  destruct (equation_symbols sd cd terms) eqn:Eq; cbn; [|discriminate].
  intros H; inversion H; subst.
  destruct (equation_symbols_one _ _ _ _ _ G (parse_equation_terms_endogenous _ _ Ht) Eq) as [N T].
  split; [exact N|]. intros v Hv _. apply T, Hv.
Qed.

(* ---------- the cross-equation merge ---------- *)
Fixpoint emit_names (l : list symbol) : list string :=
  match l with
  | [] => []
  | s :: r => match sname s with
              | Some k => if emits s then k :: emit_names r else emit_names r
              | None => emit_names r
              end
  end.

Lemma merge_go_count rest : forall d vb out,
  NoDup (emit_names rest) ->
  (forall s, In s rest -> sname s <> None -> tidy s) ->
  (forall v, In v (dict_values d) -> tidy v) ->
  (forall k v, dict_get k d = Some v -> emits v = true -> ~ In k (emit_names rest)) ->
  merge_go rest d vb = Ret out ->
  n_emitted out = n_emitted (dict_values d) + n_emitted vb + n_emitted rest.
Proof.
  induction rest as [|s rest IH]; intros d vb out ND TR TD FR; cbn [merge_go].
  - intros H; inversion H; subst. rewrite n_emitted_app, n_emitted_rev. cbn. lia.
  - assert (TR' : forall x, In x rest -> sname x <> None -> tidy x) by (intros x Hx; apply TR; right; exact Hx).
    rewrite n_emitted_cons. cbn [emit_names] in ND, FR.
    destruct (sname s) as [k|] eqn:Ek.
    + assert (Ts : tidy s) by (apply TR; [left; reflexivity|congruence]).
      unfold dict_combine.
      assert (STEP : forall c, combine (match dict_get k d with Some old => old | None => s end) s = Ret c ->
                tidy c /\ (n_emitted (dict_values (dict_set k c d)) = n_emitted (dict_values d) + b2n (emits s)) /\
                (emits c = true -> emits s = true \/ exists old, dict_get k d = Some old /\ emits old = true)).
      { intros c Ec. pose proof (n_emitted_dict_set k c d) as C.
        destruct (emits s) eqn:Es.
        - (* s gives k its equation: by NoDup nothing under k emitted before *)
          unfold tidy in Ts. rewrite Es in Ts.
          assert (Hold : match dict_get k d with Some o => b2n (emits o) | None => 0 end = 0).
          { destruct (dict_get k d) as [o|] eqn:Eg; [|reflexivity]. destruct (emits o) eqn:Eo; [|reflexivity].
            exfalso. apply (FR k o Eg Eo). left. reflexivity. }
          rewrite Hold in C.
          assert (Ecs : emits c = true /\ stype c = TEndogenous).
          { destruct (dict_get k d) as [o|]; [eapply combine_emitting_r; eauto|].
            destruct (combine_self _ _ Ec) as (A & _ & B). split; congruence. }
          destruct Ecs as [Ece Tc]. rewrite Ece in C. cbn in C.
          split; [unfold tidy; rewrite Ece; exact Tc|]. split; [cbn; lia|auto].
        - destruct (dict_get k d) as [o|] eqn:Eg.
          + destruct (combine_nonemitting_r _ _ _ Ec (TD o (dict_get_in _ _ _ Eg)) Ts Es) as [Ece Tc].
            rewrite Ece in C. split; [exact Tc|]. split; [cbn; lia|]. intros H. right. exists o. split; [reflexivity|congruence].
          + destruct (combine_self _ _ Ec) as (Ece & Tc & _). rewrite Ece, Es in C. cbn in C.
            split; [exact (Tc Ts)|]. split; [cbn; lia|]. intros H. congruence. }
      destruct (combine (match dict_get k d with Some old => old | None => s end) s) as [c|] eqn:Ec; [|discriminate].
      destruct (STEP c eq_refl) as (Tc & Cnt & Src). intros H.
      rewrite (IH (dict_set k c d) vb out); [lia| | | | |exact H].
      * destruct (emits s); [inversion ND; assumption|exact ND].
      * exact TR'.
      * intros v Hv. destruct (dict_values_set_in _ _ _ _ Hv) as [->|Hv']; [exact Tc|apply TD, Hv'].
      * intros k' v' Hg Hv' Hin. destruct (String.eqb_spec k' k) as [->|Hne].
        -- rewrite dict_get_set_same in Hg. inversion Hg; subst v'.
           destruct (Src Hv') as [Es|(old & Eo & Eeo)].
           ++ rewrite Es in ND. inversion ND; contradiction.
           ++ apply (FR k old Eo Eeo). destruct (emits s); [right; exact Hin|exact Hin].
        -- rewrite (dict_get_set_other _ _ _ _ Hne) in Hg.
           apply (FR k' v' Hg Hv'). destruct (emits s); [right; exact Hin|exact Hin].
    + (* a verbatim block: collected, never merged *)
      intros H. rewrite (IH d (s :: vb) out ND TR' TD FR H), n_emitted_cons. lia.
Qed.

Theorem merge_symbols_count by_eq out :
  NoDup (emit_names (concat by_eq)) ->
  (forall s, In s (concat by_eq) -> sname s <> None -> tidy s) ->
  merge_symbols by_eq = Ret out -> n_emitted out = n_emitted (concat by_eq).
Proof.
  intros ND T H. unfold merge_symbols in H.
  rewrite (merge_go_count (concat by_eq) [] [] out ND T); [reflexivity| | |exact H].
  - intros v [].
  - intros k v Hg. discriminate.
Qed.

(* ---------- the whole model ---------- *)
Lemma parse_statements_forall2 chk cs stmts : forall acc pb by_eq pb',
  parse_statements chk cs stmts acc pb = POk (by_eq, pb') ->
  exists tail, by_eq = (rev acc ++ tail)%list /\ Forall2 (fun st L => parse_equation_M st = POk L) stmts tail.
Proof.
  induction stmts as [|st rest IH]; intros acc pb by_eq pb'; cbn [parse_statements].
  - intros H; inversion H; subst. exists []. rewrite app_nil_r. split; [reflexivity|constructor].
  - destruct (parse_equation_M st) as [syms| |] eqn:Ep; [|discriminate|discriminate].
    assert (K : forall pb0, parse_statements chk cs rest (syms :: acc) pb0 = POk (by_eq, pb') ->
              exists tail, by_eq = (rev acc ++ tail)%list /\ Forall2 (fun st0 L => parse_equation_M st0 = POk L) (st :: rest) tail).
    { intros pb0 H. destruct (IH _ _ _ _ H) as (tl & E & F). exists (syms :: tl). split.
      - rewrite E. cbn [rev]. rewrite <- app_assoc. reflexivity.
      - constructor; assumption. }
    destruct cs; [destruct (check_codes chk (codes_of syms)); [apply K|apply K|discriminate]|apply K].
Qed.

Lemma n_emitted_concat_ones (ls : list (list symbol)) :
  Forall (fun L => n_emitted L = 1) ls -> n_emitted (concat ls) = length ls.
Proof.
  induction 1 as [|L ls HL _ IH]; [reflexivity|]. cbn [concat length]. rewrite n_emitted_app, HL, IH. reflexivity.
Qed.

(* the symbol lists of the statements, one by one *)
Definition stmt_symbols (s : string) : list (list symbol) :=
  map (fun st => match parse_equation_M st with POk L => L | _ => [] end) (fst (split_M s)).

Theorem every_statement_contributes chk cs s out :
  parse_model_M chk cs s = POk out ->
  (forall st, In st (fst (split_M s)) -> stmt_guard st) ->          (* one name on each left-hand side, not called as a function *)
  NoDup (emit_names (concat (stmt_symbols s))) ->                      (* no name is given an equation by two statements *)
  n_emitted out = length (fst (split_M s)).
Proof.
  unfold parse_model_M, stmt_symbols. destruct (split_M s) as [stmts serr] eqn:Es. cbn [fst].
  destruct (parse_statements chk cs stmts [] false) as [[by_eq pb]|pe|] eqn:Ep; [|discriminate|discriminate].
  destruct serr; [discriminate|]. destruct pb; [discriminate|].
  destruct (merge_symbols by_eq) as [o|] eqn:Em; cbn; [|discriminate]. intros H; inversion H; subst o.
  intros G ND.
  destruct (parse_statements_forall2 _ _ _ _ _ _ _ Ep) as (tail & Eb & F). cbn in Eb. subst tail.
  assert (MAP : map (fun st => match parse_equation_M st with POk L => L | _ => [] end) stmts = by_eq).
  { clear - F. induction F as [|st L sts Ls HL _ IH]; [reflexivity|]. cbn [map]. rewrite HL, IH. reflexivity. }
  rewrite MAP in ND.
  assert (ONE : Forall (fun L => n_emitted L = 1) by_eq /\ forall x, In x (concat by_eq) -> sname x <> None -> tidy x).
  { assert (GS : forall st, In st stmts -> stmt_guard st /\ is_blank st = false).
    { intros st Hst. split; [apply G, Hst|]. destruct (split_M_stmts _ _ _ _ Es Hst) as [_ B]. exact B. }
    clear - F GS. induction F as [|st L sts Ls HL _ IH].
    - split; [constructor|intros x []].
    - destruct (GS st (or_introl eq_refl)) as [Gst Bst].
      destruct (statement_emits_one st L Bst Gst HL) as [N T].
      destruct IH as [I1 I2]; [intros st' H'; apply GS; right; exact H'|].
      split; [constructor; assumption|]. cbn [concat]. intros x Hx. apply in_app_or in Hx as [Hx|Hx]; [apply T, Hx|apply I2, Hx]. }
  destruct ONE as [O1 O2].
  rewrite (merge_symbols_count by_eq out ND O2 Em), (n_emitted_concat_ones by_eq O1).
  symmetry. clear - F. induction F as [|st L sts Ls _ _ IH]; [reflexivity|]. cbn [length]. rewrite IH. reflexivity.
Qed.

(* ---------- lines -> chunks -> statements -> equations ---------- *)
Lemma parse_model_ok_split chk cs s out : parse_model_M chk cs s = POk out -> snd (split_M s) = None.
Proof.
  unfold parse_model_M. destruct (split_M s) as [stmts serr]. cbn [snd].
  destruct (parse_statements chk cs stmts [] false) as [[by_eq pb]|pe|]; [|discriminate|discriminate].
  destruct serr; [discriminate|reflexivity].
Qed.

(* For every input string, oracle and check_syntax setting: when the model is accepted, each statement names one
   variable on its left that it does not also call, and no name is given an equation twice (since 85765d5 an accepted
   model cannot end inside an open fence, so that guard is gone), then the comment-stripped lines of the script are exactly the chunks in order (nothing lies
   between or after them) and the built model has exactly one equation / verbatim block per non-blank chunk. *)
Theorem no_statement_discarded chk cs s out :
  parse_model_M chk cs s = POk out ->
  (forall st, In st (fst (split_M s)) -> stmt_guard st) ->
  NoDup (emit_names (concat (stmt_symbols s))) ->
  model_lines s = concat (model_chunks s) /\
  fst (split_M s) = map join_nl (filter nonblank_chunk (model_chunks s)) /\
  n_emitted out = length (filter nonblank_chunk (model_chunks s)).
Proof.
  intros H G ND.
  pose proof (every_statement_contributes chk cs s out H G ND) as N.
  pose proof (parse_model_ok_split _ _ _ _ H) as Hs.
  destruct (split_M s) as [ys oe] eqn:Es. cbn [fst snd] in *. subst oe.
  destruct (accepted_no_line_lost s ys Es) as (_ & _ & Hl & Hy).
  split; [exact Hl|]. split; [exact Hy|]. rewrite N, Hy at 1. apply map_length.
Qed.

(* ---------- 85765d5: an unclosed fence is never accepted ---------- *)
(* for every oracle and check_syntax setting: a script that ends inside an open fence is not accepted … *)
Theorem unclosed_fence_never_accepted chk cs s out : ends_in_open_fence s = true -> parse_model_M chk cs s <> POk out.
Proof.
  intros Hf H. pose proof (parse_model_ok_split _ _ _ _ H) as Hs. rewrite (unclosed_fence_is_parser_error s Hf) in Hs. discriminate.
Qed.
(* … and when the statements before the fence parse (and pass the syntax check or are recorded as problems) the
   exception is the ParserError of the splitter, raised before the problem-statement report and the merge *)
Theorem unclosed_fence_parser_error chk cs s r :
  ends_in_open_fence s = true -> parse_statements chk cs (fst (split_M s)) [] false = POk r ->
  parse_model_M chk cs s = PErr ParserError.
Proof.
  intros Hf Hp. pose proof (unclosed_fence_is_parser_error s Hf) as Hs. unfold parse_model_M.
  destruct (split_M s) as [stmts serr]. cbn [fst snd] in *. rewrite Hp, Hs. destruct r. reflexivity.
Qed.
