(* SplitChunks.v — the buffers that split_equations_iter's loop completes, blank ones included.
   `split_chunks st lines` lists, in order, every buffer the loop resets (`statement = []`) while reading
   `lines` from state `st`; it stops where the loop raises.  A chunk is the list of comment-stripped
   physical lines of one logical statement (or one run that turned out blank).  Definitions only; no fuel.
   SplitChunksFacts.v proves that the chunks partition the lines read (nothing is skipped between two
   statements), that the yielded statements are exactly the non-blank chunks, and what is left in the
   buffer at the end of the input. *)
From Coq Require Import String Ascii List Bool Arith.
Import ListNotations.
Require Import PyBase PyStr Split.
Open Scope string_scope.
Open Scope nat_scope.

(* the buffer completed at this line, if the loop resets its buffer here (same tests as split_step) *)
Definition step_chunk (st : sstate) (line : string) : option (list string) :=
  let fence := startswith "```" line in
  if fence && (match buffer st with [] => true | _ => false end) then None
  else
    match count_parens (unmatched st) line with
    | None => None
    | Some u => if (u =? 0) && (if fence then true else complete st) then Some (rev (line :: buffer st)) else None
    end.

Fixpoint split_chunks (st : sstate) (lines : list string) : list (list string) :=
  match lines with
  | [] => []
  | line :: rest =>
    match split_step st line with
    | StRaise _ => []
    | StCont st' | StYield _ st' =>
      match step_chunk st line with
      | Some ch => ch :: split_chunks st' rest
      | None => split_chunks st' rest
      end
    end
  end.

Definition nonblank_chunk (ch : list string) : bool := negb (is_blank (join_nl ch)).
Definition model_chunks (model : string) : list (list string) := split_chunks s0 (model_lines model).

(* the loop ends with an empty buffer: no fence is left open, no bracket is left open *)
Definition all_closed (model : string) : bool :=
  match final_state s0 (model_lines model) with
  | Some st => match buffer st with [] => true | _ => false end
  | None => false
  end.
(* the loop ends inside a fenced block that was never closed *)
Definition ends_in_open_fence (model : string) : bool :=
  match final_state s0 (model_lines model) with
  | Some st => negb (complete st)
  | None => false
  end.
