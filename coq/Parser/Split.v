(* Split.v — fsic.parser.split_equations_iter (fsic/parser.py:361-448) and the existence predicate that
   replaces `equation_re.search` (the match object is never used by the code).  Definitions only; no fuel.

   equation_re (DOTALL | MULTILINE | VERBOSE) has four alternatives, each anchored at a line start `^`
   (start of text or just after "\n") and ending at `$` (end of text or just before "\n"); the lookahead
   (?= \s* ) is always true:
     A1  [`]{3,} \n .*? [`]{3,} $
     A2  \( .*? = .*? \) $
     A3  \S+? \s* = \s* \( .*? \) $          (subsumed by A4)
     A4  \S+? \s* = \s* .*? $                (with DOTALL `.*? $` always succeeds: `$` matches at the end of the text)
   The generator is lazy: the consumer processes statement i before statement i+1 is split.  `split_M`
   therefore returns the statements yielded so far together with the exception (if any) that ends the
   iteration; consumers interleave exactly as the Python code does. *)
From Coq Require Import String Ascii List Bool Arith.
Import ListNotations.
Require Import PyBase PyStr.
Open Scope string_scope.
Open Scope nat_scope.

Definition strip_comments (line : string) : string :=
  match find_any "#" line with
  | Some (before, _) => py_rstrip before
  | None => line
  end.

(* bracket counter over one line; None = the counter went below zero (ParserError at that character) *)
Fixpoint count_parens (n : nat) (s : string) : option nat :=
  match s with
  | "" => Some n
  | String c r =>
    if Ascii.eqb c "(" then count_parens (S n) r
    else if Ascii.eqb c ")" then (match n with O => None | S m => count_parens m r end)
    else count_parens n r
  end.

(* `$` directly here: end of text or a newline follows *)
Definition at_eol (s : string) : bool := match s with "" => true | String c _ => Ascii.eqb c nl end.

(* some suffix of s starts with "```" followed by `$` *)
Fixpoint has_fence_close (s : string) : bool :=
  match s with
  | "" => false
  | String _ r => (match prefix_rest "```" s with Some y => at_eol y | None => false end) || has_fence_close r
  end.
(* some `)` of s is followed by `$` *)
Fixpoint has_close_paren_eol (s : string) : bool :=
  match s with
  | "" => false
  | String c r => (Ascii.eqb c ")" && at_eol r) || has_close_paren_eol r
  end.

Definition alt_fence (s : string) : bool :=                      (* A1 anchored at the head of s *)
  if startswith "```" s then
    let '(_, r) := span_while (fun c => Ascii.eqb c "`") s in
    match r with
    | String c body => if Ascii.eqb c nl then has_fence_close body else false
    | "" => false
    end
  else false.
Definition alt_lhs_bracket (s : string) : bool :=                (* A2 *)
  match s with
  | String c r => if Ascii.eqb c "(" then
                    match find_any "=" r with Some (_, after) => has_close_paren_eol after | None => false end
                  else false
  | "" => false
  end.
Definition alt_single (s : string) : bool :=                     (* A4 *)
  match s with
  | String c _ =>
    if is_space c then false
    else let '(run, rest) := span_while (fun c => negb (is_space c)) s in
         (match run with String _ tl => has_char "=" tl | "" => false end) || head_is "=" (skip_ws rest)
  | "" => false
  end.
Definition alt_here (s : string) : bool := alt_fence s || alt_lhs_bracket s || alt_single s.

(* equation_re.search(s) is not None *)
Fixpoint stmt_ok_from (at_line_start : bool) (s : string) : bool :=
  match s with
  | "" => false
  | String c r => (if at_line_start then alt_here s else false) || stmt_ok_from (Ascii.eqb c nl) r
  end.
Definition stmt_ok (s : string) : bool := stmt_ok_from true s.

(* loop state: unmatched_parentheses, complete_verbatim_block, buffer (most recent line first) *)
Record sstate : Type := mkS { unmatched : nat; complete : bool; buffer : list string }.
Definition s0 : sstate := mkS 0 true [].

(* what happens at one (comment-stripped) line *)
Inductive step : Type :=
| StCont (st : sstate)                   (* nothing yielded *)
| StYield (eq : string) (st : sstate)    (* a statement is yielded *)
| StRaise (e : exn).

Definition split_step (st : sstate) (line : string) : step :=
  let buf := line :: buffer st in
  let fence := startswith "```" line in
  if fence && (match buffer st with [] => true | _ => false end)
  then StCont (mkS (unmatched st) false buf)                                  (* opening fence: `continue` *)
  else
    let complete' := if fence then true else complete st in                   (* closing fence *)
    match count_parens (unmatched st) line with
    | None => StRaise ParserError                                             (* closing before opening bracket *)
    | Some u =>
      if (u =? 0) && complete' then
        let eq := join_nl (rev buf) in
        if is_blank eq then StCont (mkS u complete' [])
        else if stmt_ok eq then StYield eq (mkS u complete' [])
        else if stmt_ok (py_strip eq) then StRaise IndentationError
        else StRaise ParserError
      else StCont (mkS u complete' buf)
    end.

Fixpoint split_lines (st : sstate) (lines : list string) : list string * option exn :=
  match lines with
  | [] => ([], if negb (complete st) then Some ParserError            (* 85765d5: a fence that is never closed *)
               else if unmatched st =? 0 then None else Some ParserError)
  | line :: rest =>
    match split_step st line with
    | StCont st' => split_lines st' rest
    | StYield eq st' => let '(ys, e) := split_lines st' rest in (eq :: ys, e)
    | StRaise e => ([], Some e)
    end
  end.

Definition model_lines (model : string) : list string := map strip_comments (splitlines_aux "" model).
Definition split_M (model : string) : list string * option exn := split_lines s0 (model_lines model).

(* the state in which the loop ends (None if it raised): used to say "every fence is closed" *)
Fixpoint final_state (st : sstate) (lines : list string) : option sstate :=
  match lines with
  | [] => Some st
  | line :: rest =>
    match split_step st line with
    | StCont st' | StYield _ st' => final_state st' rest
    | StRaise _ => None
    end
  end.
