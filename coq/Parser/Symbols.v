(* Symbols.v — fsic.parser.Type, Term index values, Symbol and Symbol.combine (fsic/parser.py:194-355).
   Definitions only.  The integer values of the Type enum (used by `max(self.type, other.type)`) are
   looked up in the regenerated table Generated.type_order, so a reordering of the enum in the source
   changes what `combine` computes here (and breaks SymbolsFacts.type_order_matches). *)
From Coq Require Import String Ascii List ZArith Bool.
Import ListNotations.
Require Import PyBase Generated.
Open Scope string_scope.

(* ---- class Type(enum.IntEnum) ---- *)
Inductive ptype : Type :=
| TVariable | TExogenous | TEndogenous | TParameter | TError | TFunction | TKeyword | TVerbatim | TInvalid.

Definition all_types : list ptype :=
  [TVariable; TExogenous; TEndogenous; TParameter; TError; TFunction; TKeyword; TVerbatim; TInvalid].

Definition type_name (t : ptype) : string :=
  match t with
  | TVariable => "VARIABLE" | TExogenous => "EXOGENOUS" | TEndogenous => "ENDOGENOUS"
  | TParameter => "PARAMETER" | TError => "ERROR" | TFunction => "FUNCTION" | TKeyword => "KEYWORD"
  | TVerbatim => "VERBATIM" | TInvalid => "INVALID"
  end.

Definition type_eqb (a b : ptype) : bool :=
  match a, b with
  | TVariable, TVariable | TExogenous, TExogenous | TEndogenous, TEndogenous | TParameter, TParameter
  | TError, TError | TFunction, TFunction | TKeyword, TKeyword | TVerbatim, TVerbatim | TInvalid, TInvalid => true
  | _, _ => false
  end.

Fixpoint assoc_z (k : string) (l : list (string * Z)) : Z :=
  match l with
  | [] => 0%Z
  | (k', v) :: r => if String.eqb k k' then v else assoc_z k r
  end.
(* the IntEnum value, read from the regenerated table *)
Definition type_value (t : ptype) : Z := assoc_z (type_name t) type_order.
(* max(a, b) on the IntEnum: Python's max returns the first argument on a tie *)
Definition type_max (a b : ptype) : ptype := if (type_value a <? type_value b)%Z then b else a.

(* is the type one of (VARIABLE, EXOGENOUS, ENDOGENOUS)?  — the only types `combine` may mix *)
Definition is_variable_type (t : ptype) : bool :=
  match t with TVariable | TExogenous | TEndogenous => true | _ => false end.

(* ---- Term.index_ / Symbol.lags / Symbol.leads when not None: an int or a str ---- *)
Inductive pidx : Type := IInt (z : Z) | IStr (s : string).

Definition pidx_eqb (a b : pidx) : bool :=
  match a, b with
  | IInt x, IInt y => (x =? y)%Z
  | IStr x, IStr y => String.eqb x y
  | _, _ => false
  end.

(* ---- class Term(NamedTuple): name, type, index_ ---- *)
Record term : Type := mkTerm { tname : string; ttype : ptype; tindex : option pidx }.

(* ---- class Symbol(NamedTuple) ---- *)
Record symbol : Type := mkSymbol {
  sname : option string;        (* None for verbatim blocks *)
  stype : ptype;
  slags : option pidx;
  sleads : option pidx;
  sequation : option string;
  scode : option string }.

Definition opt_string_eqb (a b : option string) : bool :=
  match a, b with
  | None, None => true
  | Some x, Some y => String.eqb x y
  | _, _ => false
  end.
Definition opt_pidx_eqb (a b : option pidx) : bool :=
  match a, b with
  | None, None => true
  | Some x, Some y => pidx_eqb x y
  | _, _ => false
  end.
Definition symbol_eqb (a b : symbol) : bool :=
  opt_string_eqb (sname a) (sname b) && type_eqb (stype a) (stype b) &&
  opt_pidx_eqb (slags a) (slags b) && opt_pidx_eqb (sleads a) (sleads b) &&
  opt_string_eqb (sequation a) (sequation b) && opt_string_eqb (scode a) (scode b).

(* resolve_strings(old, new): two different texts -> ParserError ("defined twice") *)
Definition resolve_strings (old new : option string) : outcome (option string) :=
  match old, new with
  | Some o, Some n => if String.eqb o n then Ret (Some o) else Raise ParserError
  | None, Some n => Ret (Some n)
  | _, _ => Ret old
  end.

(* resolve_by_type_pair(this, that, function) with function(this, that, 0) = min / max of three *)
Definition resolve_by_type_pair (f : Z -> Z -> Z) (this that : option pidx) : outcome (option pidx) :=
  match this, that with
  | None, None => Ret None
  | Some (IInt a), Some (IInt b) => Ret (Some (IInt (f (f a b) 0%Z)))
  | Some (IStr _), Some (IStr _) => Ret (Some (IInt 0%Z))
  | Some (IInt a), Some (IStr _) => Ret (Some (IInt a))
  | Some (IStr _), Some (IInt b) => Ret (Some (IInt b))
  | _, _ => Raise TypeError                         (* (NoneType, int) etc.: "Unhandled pair of types" *)
  end.

Definition obind {A B} (a : outcome A) (f : A -> outcome B) : outcome B :=
  match a with Ret x => f x | Raise e => Raise e end.

(* Symbol.combine(self, other); the order of the checks is the order of the source:
   type check (SymbolError), lags, leads (TypeError), equation, code (ParserError) *)
Definition combine (self other : symbol) : outcome symbol :=
  obind (if type_eqb (stype self) (stype other) then Ret (stype self)
         else if is_variable_type (stype self) && is_variable_type (stype other)
              then Ret (type_max (stype self) (stype other))
              else Raise SymbolError) (fun ty =>
  obind (resolve_by_type_pair Z.min (slags self) (slags other)) (fun lg =>
  obind (resolve_by_type_pair Z.max (sleads self) (sleads other)) (fun ld =>
  obind (resolve_strings (sequation self) (sequation other)) (fun eq =>
  obind (resolve_strings (scode self) (scode other)) (fun cd =>
  Ret (mkSymbol (sname self) ty lg ld eq cd)))))).

(* ---- insertion-ordered dict keyed by str (Python dict semantics: assignment to an existing key keeps its place) ---- *)
Fixpoint dict_get {V} (k : string) (d : list (string * V)) : option V :=
  match d with
  | [] => None
  | (k', v) :: r => if String.eqb k k' then Some v else dict_get k r
  end.
Fixpoint dict_set {V} (k : string) (v : V) (d : list (string * V)) : list (string * V) :=
  match d with
  | [] => [(k, v)]
  | (k', v') :: r => if String.eqb k k' then (k', v) :: r else (k', v') :: dict_set k v r
  end.
Definition dict_values {V} (d : list (string * V)) : list V := map snd d.
Definition dict_keys {V} (d : list (string * V)) : list string := map fst d.

(* ---- result of the parser functions: a value, one of the exception classes of PyBase.exn, or
   `PUnmodelled` (the input needs a part of str.format this development does not model; the
   correspondence check skips such inputs and every theorem excludes them by an explicit guard) ---- *)
Inductive pres (A : Type) : Type := POk (a : A) | PErr (e : exn) | PUnmodelled.
Arguments POk {A} a.
Arguments PErr {A} e.
Arguments PUnmodelled {A}.
Definition pbind {A B} (a : pres A) (f : A -> pres B) : pres B :=
  match a with POk x => f x | PErr e => PErr e | PUnmodelled => PUnmodelled end.
Definition of_outcome {A} (o : outcome A) : pres A := match o with Ret x => POk x | Raise e => PErr e end.
