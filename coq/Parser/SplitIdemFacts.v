(* SplitIdemFacts.v — splitting is idempotent on what it yields: for EVERY script s and every statement y that
   split_equations_iter's model yields, splitting y again yields exactly [y] and raises nothing.
   parse_equation re-splits its argument and raises ParserError unless it finds exactly one statement
   (fsic/parser.py:551-563): inside parse_model that check can never fire — none of parse_model's ParserErrors
   comes from it.  The proof replays the loop: the buffered lines were all read without yielding from the initial
   state (trace_inv), str.splitlines undoes '\n'.join on lines that hold no line separator, and comment stripping
   is the identity on lines without "#". *)
From Coq Require Import String Ascii List Bool Arith Lia.
Import ListNotations.
Require Import Generated PyBase PyStr Lex LexFacts Split SplitFacts SplitChunks SplitChunksFacts.
Open Scope string_scope.
Open Scope nat_scope.

(* ---------- str.splitlines undoes '\n'.join ---------- *)
Definition nosepP (l : string) : Prop := forall c, is_linesep c = true -> has_char c l = false.

Lemma rev_str_app s : forall a b, rev_str (rev_str s a) b = rev_str a (s ++ b).
Proof. induction s as [|c s IH]; intros a b; cbn [rev_str append]; [reflexivity|]. rewrite IH. reflexivity. Qed.
Lemma rev_str_nil s : forall a, rev_str s a = "" -> s = "" /\ a = "".
Proof.
  induction s as [|c s IH]; intros a; cbn [rev_str]; [auto|]. intros H. destruct (IH _ H) as [_ E]. discriminate.
Qed.
Lemma nosepP_tail c l : nosepP (String c l) -> is_linesep c = false /\ nosepP l.
Proof.
  intros H. split.
  - destruct (is_linesep c) eqn:E; [|reflexivity]. specialize (H c E). cbn in H. rewrite Ascii.eqb_refl in H. discriminate.
  - intros d Hd. specialize (H d Hd). cbn in H. apply orb_false_iff in H as [_ H]. exact H.
Qed.
Lemma nosepP_nil : nosepP "".
Proof. intros c _. reflexivity. Qed.

Lemma splitlines_aux_run l : forall cur r, nosepP l -> splitlines_aux cur (l ++ r) = splitlines_aux (rev_str l cur) r.
Proof.
  induction l as [|c l IH]; intros cur r H; cbn [append rev_str]; [reflexivity|].
  destruct (nosepP_tail _ _ H) as [Hc Hl]. cbn [splitlines_aux]. rewrite Hc. apply IH, Hl.
Qed.

Fixpoint last_ne (ls : list string) : bool :=
  match ls with
  | [] => true
  | [x] => negb (String.eqb x "")
  | _ :: r => last_ne r
  end.
Lemma last_ne_snoc b x : last_ne (b ++ [x]) = negb (String.eqb x "").
Proof.
  induction b as [|y b IH]; [reflexivity|]. cbn [app]. destruct (b ++ [x])%list eqn:E; [destruct b; discriminate|].
  cbn [last_ne]. exact IH.
Qed.

Lemma splitlines_join ls : Forall nosepP ls -> last_ne ls = true -> splitlines_aux "" (join_nl ls) = ls.
Proof.
  induction ls as [|x r IH]; intros F L; [reflexivity|].
  inversion F as [|? ? Hx Fr]; subst.
  destruct r as [|y r'].
  - cbn [join_nl]. rewrite <- (app_nil_r_s x) at 1. rewrite (splitlines_aux_run x "" "" Hx). cbn [splitlines_aux].
    destruct (rev_str x "") eqn:E.
    + apply rev_str_nil in E as [-> _]. discriminate L.
    + rewrite <- E, rev_str_app. cbn [rev_str]. rewrite app_nil_r_s. reflexivity.
  - cbn [join_nl]. rewrite (splitlines_aux_run x "" _ Hx). unfold nl_s. cbn [append splitlines_aux].
    change (is_linesep nl) with true. change (Ascii.eqb nl cr) with false. cbv iota.
    rewrite rev_str_app. cbn [rev_str]. rewrite app_nil_r_s. f_equal. apply IH; [exact Fr|exact L].
Qed.

(* every line str.splitlines returns is free of line separators *)
Lemma nosepP_rev_str s a : nosepP s -> nosepP a -> nosepP (rev_str s a).
Proof. intros Hs Ha c Hc. rewrite has_char_rev_str, (Hs c Hc), (Ha c Hc). reflexivity. Qed.
Lemma nosepP_cons c s : is_linesep c = false -> nosepP s -> nosepP (String c s).
Proof.
  intros Hc Hs d Hd. cbn [has_char]. rewrite (Hs d Hd), orb_false_r.
  destruct (Ascii.eqb_spec c d) as [->|N]; [congruence|reflexivity].
Qed.
Lemma splitlines_aux_nosep s : forall cur, nosepP cur -> forall l, In l (splitlines_aux cur s) -> nosepP l.
Proof.
  induction s as [|c r IH]; intros cur Hcur l; cbn [splitlines_aux].
  - destruct cur; [intros []|]. intros [<-|[]]. apply nosepP_rev_str; [exact Hcur|exact nosepP_nil].
  - destruct (is_linesep c) eqn:Ec.
    + intros [<-|H]; [apply nosepP_rev_str; [exact Hcur|exact nosepP_nil]|].
      assert (R : In l (splitlines_aux "" r) -> nosepP l) by (apply IH, nosepP_nil).
      destruct (Ascii.eqb c cr); [|exact (R H)].
      destruct r as [|c2 r2]; [exact (R H)|].
      destruct (Ascii.eqb c2 nl) eqn:E2; [|exact (R H)].
      apply R. apply Ascii.eqb_eq in E2. subst c2. cbn [splitlines_aux].
      change (is_linesep nl) with true. cbv iota. right. change (Ascii.eqb nl cr) with false. cbv iota. exact H.
    + apply IH. apply nosepP_cons; assumption.
Qed.

(* ---------- good lines: what model_lines produces ---------- *)
Definition good (l : string) : Prop := nosepP l /\ has_char "#" l = false.

Lemma nosepP_strip_comments l : nosepP l -> nosepP (strip_comments l).
Proof.
  intros H. unfold strip_comments. destruct (find_any "#" l) as [[a b]|] eqn:E; [|exact H].
  intros c Hc. apply has_char_rstrip. pose proof (H c Hc) as Hl. rewrite (find_any_some _ _ _ _ E), has_char_app in Hl.
  apply orb_false_iff in Hl as [Ha _]. exact Ha.
Qed.
Lemma model_lines_good s l : In l (model_lines s) -> good l.
Proof.
  unfold model_lines. intros H. apply in_map_iff in H as (x & <- & Hx). split.
  - apply nosepP_strip_comments. eapply splitlines_aux_nosep; [exact nosepP_nil|exact Hx].
  - apply strip_comments_no_hash.
Qed.
Lemma map_strip_good ls : (forall l, In l ls -> good l) -> map strip_comments ls = ls.
Proof.
  induction ls as [|x r IH]; intros H; [reflexivity|]. cbn [map].
  rewrite (strip_comments_id x (proj2 (H x (or_introl eq_refl)))), IH; [reflexivity|]. intros l Hl. apply H. right. exact Hl.
Qed.

(* ---------- replaying the loop on the buffered lines ---------- *)
Fixpoint run_cont (st : sstate) (ls : list string) : option sstate :=
  match ls with
  | [] => Some st
  | l :: r => match split_step st l with StCont st' => run_cont st' r | _ => None end
  end.
Lemma run_cont_app a : forall st b,
  run_cont st (a ++ b)%list = match run_cont st a with Some st' => run_cont st' b | None => None end.
Proof.
  induction a as [|x a IH]; intros st b; cbn [app run_cont]; [reflexivity|].
  destruct (split_step st x); [apply IH|reflexivity|reflexivity].
Qed.
Lemma split_lines_run_cont a : forall st st' rest,
  run_cont st a = Some st' -> split_lines st (a ++ rest)%list = split_lines st' rest.
Proof.
  induction a as [|x a IH]; intros st st' rest; cbn [app run_cont split_lines].
  - intros H; inversion H; reflexivity.
  - destruct (split_step st x); [apply IH|discriminate|discriminate].
Qed.

(* the buffered lines were read from the initial state without yielding, and led to exactly this state *)
Definition trace_inv (st : sstate) : Prop := run_cont s0 (rev (buffer st)) = Some st.

Lemma reset_is_s0 st : st_inv st -> buffer st = [] -> st = s0.
Proof. intros [I _] Hb. destruct (I Hb) as [Hu Hc]. destruct st as [u c b]. cbn in *. subst. reflexivity. Qed.

Lemma split_step_trace st line st' :
  trace_inv st -> (split_step st line = StCont st' \/ exists eq, split_step st line = StYield eq st') -> trace_inv st'.
Proof.
  intros T H. destruct (split_step_inv st line st' H) as [I' _].
  pose proof (split_step_chunk st line) as S.
  destruct H as [H|(eq & H)]; rewrite H in S.
  - destruct (step_chunk st line) as [ch|].
    + destruct S as (_ & Hb & _). rewrite (reset_is_s0 st' I' Hb). reflexivity.
    + unfold trace_inv. rewrite S. cbn [rev]. rewrite run_cont_app, T. cbn [run_cont]. rewrite H. reflexivity.
  - destruct (step_chunk st line) as [ch|]; [|contradiction].
    destruct S as (_ & Hb & _). rewrite (reset_is_s0 st' I' Hb). reflexivity.
Qed.

(* a yield: splitting the yielded lines alone, from the initial state, yields the same statement and nothing else *)
Lemma yield_replay st line eq st' :
  trace_inv st -> split_step st line = StYield eq st' -> split_lines s0 (rev (line :: buffer st)) = ([eq], None).
Proof.
  intros T H. cbn [rev]. rewrite (split_lines_run_cont _ _ _ [line] T). cbn [split_lines]. rewrite H.
  destruct (split_step_yield _ _ _ _ H) as (_ & _ & _ & Hu & Hc). rewrite Hu, Hc. reflexivity.
Qed.

(* the last line of a yielded chunk is not empty *)
Lemma yield_last_nonempty st line eq st' :
  st_inv st -> split_step st line = StYield eq st' -> line <> "".
Proof.
  intros [_ I2] H ->. pose proof (split_step_chunk st "") as S. rewrite H in S.
  destruct (step_chunk st "") as [ch|] eqn:Ec; [|contradiction]. destruct S as (-> & _ & -> & Hb).
  destruct (buffer st) as [|y b] eqn:Eb.
  - cbn in Hb. discriminate.
  - unfold step_chunk in Ec. rewrite Eb in Ec. cbn [startswith prefix_rest andb count_parens] in Ec.
    destruct (I2 ltac:(discriminate)) as [Hu|Hc].
    + apply Nat.eqb_neq in Hu. rewrite Hu in Ec. discriminate.
    + rewrite Hc, andb_false_r in Ec. discriminate.
Qed.

Lemma split_lines_yield_idem lines : forall st ys oe,
  trace_inv st -> st_inv st -> (forall l, In l (buffer st) -> good l) -> (forall l, In l lines -> good l) ->
  split_lines st lines = (ys, oe) -> forall y, In y ys -> split_M y = ([y], None).
Proof.
  induction lines as [|line rest IH]; intros st ys oe T I Gb Gl; cbn [split_lines].
  - intros H; inversion H; subst. intros y [].
  - assert (Grest : forall l, In l rest -> good l) by (intros l Hl; apply Gl; right; exact Hl).
    assert (Gbuf : forall l, In l (line :: buffer st) -> good l).
    { intros l [<-|Hl]; [apply Gl; left; reflexivity|apply Gb, Hl]. }
    pose proof (split_step_chunk st line) as S.
    destruct (split_step st line) as [st'|eq st'|e] eqn:E.
    + destruct (split_step_inv st line st' (or_introl E)) as [I' _].
      pose proof (split_step_trace st line st' T (or_introl E)) as T'.
      apply (IH st'); try assumption.
      destruct (step_chunk st line) as [ch|]; [destruct S as (_ & -> & _); intros l []|rewrite S; exact Gbuf].
    + destruct (split_step_inv st line st' (or_intror (ex_intro _ eq E))) as [I' _].
      pose proof (split_step_trace st line st' T (or_intror (ex_intro _ eq E))) as T'.
      destruct (split_lines st' rest) as [ys' e'] eqn:E2. intros H; inversion H; subst.
      destruct (step_chunk st line) as [ch|]; [|contradiction]. destruct S as (-> & Hb & -> & _).
      intros y [<-|Hy].
      * (* the statement yielded here *)
        set (ch := rev (line :: buffer st)).
        assert (Gch : forall l, In l ch -> good l) by (intros l Hl; apply in_rev in Hl; apply Gbuf, Hl).
        unfold split_M, model_lines.
        rewrite splitlines_join.
        -- rewrite (map_strip_good ch Gch). exact (yield_replay st line _ st' T E).
        -- apply Forall_forall. intros l Hl. exact (proj1 (Gch l Hl)).
        -- unfold ch. cbn [rev]. rewrite last_ne_snoc.
           pose proof (yield_last_nonempty st line _ st' I E) as Hn.
           destruct (String.eqb_spec line ""); [contradiction|reflexivity].
      * eapply (IH st'); try eassumption. rewrite Hb. intros l [].
    + intros H; inversion H; subst. intros y [].
Qed.

(* for EVERY script: each yielded statement, split again, is exactly one statement — itself — and nothing is raised *)
Theorem split_idempotent s y : In y (fst (split_M s)) -> split_M y = ([y], None).
Proof.
  unfold split_M at 1. destruct (split_lines s0 (model_lines s)) as [ys oe] eqn:E. cbn [fst].
  destruct st_inv_s0 as [I0 _].
  assert (T0 : trace_inv s0) by reflexivity.
  apply (split_lines_yield_idem (model_lines s) s0 ys oe T0 I0); [intros l []|apply model_lines_good|exact E].
Qed.
