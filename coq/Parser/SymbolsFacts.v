(* SymbolsFacts.v — facts about Symbols.v: the enum table tie, and which exceptions Symbol.combine can
   raise (in particular: the TypeError branch "Unhandled pair of types" is unreachable on symbols whose
   lag/lead is None exactly for FUNCTION / KEYWORD / VERBATIM, which is all the parser ever builds). *)
From Coq Require Import String Ascii List Bool ZArith Lia.
Import ListNotations.
Require Import PyBase Generated Symbols.
Open Scope string_scope.

(* the Type enum of the source, member by member, is what the model's `type_value` reads *)
Lemma type_order_matches : map (fun t => (type_name t, type_value t)) all_types = type_order.
Proof. reflexivity. Qed.

Lemma type_eqb_eq a b : type_eqb a b = true <-> a = b.
Proof. destruct a, b; cbn; split; intros H; try reflexivity; try discriminate. Qed.
Lemma type_eqb_refl a : type_eqb a a = true.
Proof. destruct a; reflexivity. Qed.

(* promotion between VARIABLE / EXOGENOUS / ENDOGENOUS stays inside that set; ENDOGENOUS wins *)
Lemma type_max_variable a b :
  is_variable_type a = true -> is_variable_type b = true -> is_variable_type (type_max a b) = true.
Proof. unfold type_max. destruct (type_value a <? type_value b)%Z; auto. Qed.
Lemma type_max_cases a b : type_max a b = a \/ type_max a b = b.
Proof. unfold type_max. destruct (type_value a <? type_value b)%Z; auto. Qed.
Lemma type_max_endogenous_l b : is_variable_type b = true -> type_max TEndogenous b = TEndogenous.
Proof. destruct b; cbn; intros H; try discriminate; reflexivity. Qed.
Lemma type_max_endogenous_r a : is_variable_type a = true -> type_max a TEndogenous = TEndogenous.
Proof. destruct a; cbn; intros H; try discriminate; reflexivity. Qed.

(* ---- well-formed symbols: lags / leads are None exactly for FUNCTION, KEYWORD and VERBATIM ---- *)
Definition unindexed_type (t : ptype) : bool :=
  match t with TFunction | TKeyword | TVerbatim => true | _ => false end.
Definition is_none {A} (o : option A) : bool := match o with None => true | Some _ => false end.
Definition wf_symbol (s : symbol) : bool :=
  Bool.eqb (is_none (slags s)) (unindexed_type (stype s)) && Bool.eqb (is_none (sleads s)) (unindexed_type (stype s)).

Lemma variable_not_unindexed t : is_variable_type t = true -> unindexed_type t = false.
Proof. destruct t; cbn; intros H; try discriminate; reflexivity. Qed.

Lemma wf_symbol_inv s : wf_symbol s = true ->
  is_none (slags s) = unindexed_type (stype s) /\ is_none (sleads s) = unindexed_type (stype s).
Proof.
  unfold wf_symbol. intros H. apply andb_true_iff in H as [H1 H2].
  apply eqb_prop in H1, H2. auto.
Qed.

Lemma resolve_pair_some f a b : is_none a = false -> is_none b = false ->
  exists z, resolve_by_type_pair f a b = Ret (Some (IInt z)).
Proof.
  destruct a as [[x|x]|], b as [[y|y]|]; cbn; intros Ha Hb; try discriminate; eauto.
Qed.
Lemma resolve_pair_none f a b : is_none a = true -> is_none b = true -> resolve_by_type_pair f a b = Ret None.
Proof. destruct a, b; cbn; intros; try discriminate; reflexivity. Qed.

Lemma resolve_strings_err a b e : resolve_strings a b = Raise e -> e = ParserError.
Proof.
  destruct a as [x|], b as [y|]; cbn; try discriminate.
  destruct (String.eqb x y); [discriminate|]. intros H; inversion H; reflexivity.
Qed.

(* combine on well-formed symbols: only SymbolError (type clash) or ParserError (two different texts) *)
Lemma combine_wf_errors a b e :
  wf_symbol a = true -> wf_symbol b = true -> combine a b = Raise e -> e = SymbolError \/ e = ParserError.
Proof.
  intros Ha Hb. destruct (wf_symbol_inv a Ha) as [Ha1 Ha2]. destruct (wf_symbol_inv b Hb) as [Hb1 Hb2].
  unfold combine, obind.
  destruct (type_eqb (stype a) (stype b)) eqn:Et.
  - apply type_eqb_eq in Et. rewrite <- Et in Hb1, Hb2.
    destruct (unindexed_type (stype a)) eqn:Eu.
    + rewrite (resolve_pair_none Z.min _ _ Ha1 Hb1), (resolve_pair_none Z.max _ _ Ha2 Hb2).
      destruct (resolve_strings (sequation a) (sequation b)) eqn:E1.
      * destruct (resolve_strings (scode a) (scode b)) eqn:E2; [discriminate|].
        intros H; inversion H; subst. right. eapply resolve_strings_err; eauto.
      * intros H; inversion H; subst. right. eapply resolve_strings_err; eauto.
    + destruct (resolve_pair_some Z.min _ _ Ha1 Hb1) as [z1 ->]. destruct (resolve_pair_some Z.max _ _ Ha2 Hb2) as [z2 ->].
      destruct (resolve_strings (sequation a) (sequation b)) eqn:E1.
      * destruct (resolve_strings (scode a) (scode b)) eqn:E2; [discriminate|].
        intros H; inversion H; subst. right. eapply resolve_strings_err; eauto.
      * intros H; inversion H; subst. right. eapply resolve_strings_err; eauto.
  - destruct (is_variable_type (stype a) && is_variable_type (stype b)) eqn:Ev.
    + apply andb_true_iff in Ev as [Va Vb].
      rewrite (variable_not_unindexed _ Va) in Ha1, Ha2. rewrite (variable_not_unindexed _ Vb) in Hb1, Hb2.
      destruct (resolve_pair_some Z.min _ _ Ha1 Hb1) as [z1 ->]. destruct (resolve_pair_some Z.max _ _ Ha2 Hb2) as [z2 ->].
      destruct (resolve_strings (sequation a) (sequation b)) eqn:E1.
      * destruct (resolve_strings (scode a) (scode b)) eqn:E2; [discriminate|].
        intros H; inversion H; subst. right. eapply resolve_strings_err; eauto.
      * intros H; inversion H; subst. right. eapply resolve_strings_err; eauto.
    + intros H; inversion H; subst. left; reflexivity.
Qed.

(* … and the result is again well-formed, keeps the name of `self`, and has an equation iff one of the two had *)
Lemma combine_wf a b c :
  wf_symbol a = true -> wf_symbol b = true -> combine a b = Ret c ->
  wf_symbol c = true /\ sname c = sname a /\
  (stype c = stype a \/ (stype c = type_max (stype a) (stype b) /\ is_variable_type (stype a) = true /\ is_variable_type (stype b) = true)) /\
  (sequation c = sequation a \/ (sequation a = None /\ sequation c = sequation b)) /\
  (scode c = scode a \/ (scode a = None /\ scode c = scode b)).
Proof.
  intros Ha Hb. destruct (wf_symbol_inv a Ha) as [Ha1 Ha2]. destruct (wf_symbol_inv b Hb) as [Hb1 Hb2].
  unfold combine, obind.
  assert (RS : forall x y r, resolve_strings x y = Ret r -> r = x \/ (x = None /\ r = y)).
  { intros [x|] [y|] r; cbn; try (intros H; inversion H; auto; fail).
    destruct (String.eqb x y); [|discriminate]. intros H; inversion H; auto. }
  destruct (type_eqb (stype a) (stype b)) eqn:Et.
  - apply type_eqb_eq in Et. rewrite <- Et in Hb1, Hb2.
    destruct (unindexed_type (stype a)) eqn:Eu.
    + rewrite (resolve_pair_none Z.min _ _ Ha1 Hb1), (resolve_pair_none Z.max _ _ Ha2 Hb2).
      destruct (resolve_strings (sequation a) (sequation b)) eqn:E1; [|discriminate].
      destruct (resolve_strings (scode a) (scode b)) eqn:E2; [|discriminate].
      intros H; inversion H; subst; clear H. cbn. unfold wf_symbol; cbn. rewrite Eu. cbn.
      repeat split; auto.
    + destruct (resolve_pair_some Z.min _ _ Ha1 Hb1) as [z1 ->]. destruct (resolve_pair_some Z.max _ _ Ha2 Hb2) as [z2 ->].
      destruct (resolve_strings (sequation a) (sequation b)) eqn:E1; [|discriminate].
      destruct (resolve_strings (scode a) (scode b)) eqn:E2; [|discriminate].
      intros H; inversion H; subst; clear H. cbn. unfold wf_symbol; cbn. rewrite Eu. cbn.
      repeat split; auto.
  - destruct (is_variable_type (stype a) && is_variable_type (stype b)) eqn:Ev; [|discriminate].
    apply andb_true_iff in Ev as [Va Vb].
    rewrite (variable_not_unindexed _ Va) in Ha1, Ha2. rewrite (variable_not_unindexed _ Vb) in Hb1, Hb2.
    destruct (resolve_pair_some Z.min _ _ Ha1 Hb1) as [z1 ->]. destruct (resolve_pair_some Z.max _ _ Ha2 Hb2) as [z2 ->].
    destruct (resolve_strings (sequation a) (sequation b)) eqn:E1; [|discriminate].
    destruct (resolve_strings (scode a) (scode b)) eqn:E2; [|discriminate].
    intros H; inversion H; subst; clear H. cbn. unfold wf_symbol; cbn.
    rewrite (variable_not_unindexed _ (type_max_variable _ _ Va Vb)). cbn.
    repeat split; auto.
Qed.

(* without the well-formedness premise the TypeError branch IS reachable in the model (so the premise matters) *)
Example combine_typeerror_reachable :
  combine (mkSymbol (Some "f") TFunction None None None None) (mkSymbol (Some "f") TFunction (Some (IInt 0)) (Some (IInt 0)) None None)
  = Raise TypeError.
Proof. reflexivity. Qed.

(* dict facts *)
Lemma dict_values_set_in {V} k (v : V) d x : In x (dict_values (dict_set k v d)) -> x = v \/ In x (dict_values d).
Proof.
  unfold dict_values. induction d as [|[k' v'] d IH]; cbn.
  - intros [H|[]]; auto.
  - destruct (String.eqb k k'); cbn; intros [H|H]; auto. destruct (IH H); auto.
Qed.
Lemma dict_get_in {V} k (v : V) d : dict_get k d = Some v -> In v (dict_values d).
Proof.
  unfold dict_values. induction d as [|[k' v'] d IH]; cbn; [discriminate|].
  destruct (String.eqb k k'); intros H; [inversion H; auto|auto].
Qed.
