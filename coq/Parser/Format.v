(* Format.v — the fragment of `str.format` (positional arguments only, all of them `str`) that
   parse_equation's templates can reach (fsic/parser.py:618-626).  Definitions only.

   Since commits 6fcad37 / 51af71a every failure of `template.format(...)` (AttributeError, IndexError, KeyError,
   MemoryError, OverflowError, TypeError, ValueError) becomes ParserError, so the model only has to decide success / failure and, on
   success, the text:
     {{  }}          escapes
     {}              automatic field: next argument (IndexError when they run out; ValueError after a manual field)
     {digits}        manual field (ValueError after an automatic field; IndexError when out of range)
     lone } , unterminated { , {name…} with a non-numeric name (KeyError: there are no keyword arguments)  → failure
     {.attr} {[i]} {:spec} {!r} {0.attr} … and nested fields: success depends on the argument's value
                     → `FUnmodelled` when the field could be served (otherwise failure is certain)
   Validated against CPython's str.format on all 2.08 M (template, argument list) pairs over a 12-symbol
   alphabet up to length 6 (see harness/parser_common.py) and by the extracted driver on every K run. *)
From Coq Require Import String Ascii List Bool Arith NArith.
Import ListNotations.
Require Import PyStr.
Open Scope string_scope.

Inductive fmt_res : Type := FOk (s : string) | FFail | FUnmodelled.

Inductive ftok : Type :=
| FLit (c : ascii)
| FAuto                 (* {}            *)
| FManual (n : N)       (* {digits}      *)
| FAutoX                (* {.a} {[0]} {:…} {!r}: automatic numbering with attribute/index/spec/conversion *)
| FManualX (n : N)      (* {0.a} {0[0]} {0:…} …  *)
| FBad                  (* certain failure *)
| FUnk.                 (* nested replacement field whose outer field might be served *)

Definition is_field_delim (c : ascii) : bool :=
  Ascii.eqb c "." || Ascii.eqb c "[" || Ascii.eqb c ":" || Ascii.eqb c "!".
Fixpoint all_digits (s : string) : bool :=
  match s with "" => true | String c r => is_digit c && all_digits r end.
Definition digit_val (c : ascii) : N := (N_of_ascii c - 48)%N.
Fixpoint digits_to_N (acc : N) (s : string) : N :=
  match s with "" => acc | String c r => digits_to_N (acc * 10 + digit_val c)%N r end.

(* field text F (non-empty, brace-free), closed by `}` *)
Definition classify_field (F : string) : ftok :=
  let '(fp, rest) := span_while (fun c => negb (is_field_delim c)) F in
  match fp with
  | "" => FAutoX
  | _ => if all_digits fp then (match rest with "" => FManual (digits_to_N 0 fp) | _ => FManualX (digits_to_N 0 fp) end)
         else FBad
  end.
(* field text F (non-empty, brace-free) followed by a nested `{` *)
Definition classify_nested (F : string) : ftok :=
  let '(fp, _) := span_while (fun c => negb (is_field_delim c)) F in
  match fp with
  | "" => FUnk
  | _ => if all_digits fp then FUnk else FBad
  end.

Inductive fmode : Type := MText | MAfterL | MAfterR | MField (acc : string).   (* acc = field text so far, reversed *)

(* one pass, structural on the template; tokens after an FBad / FUnk are never looked at *)
Fixpoint ftokens (m : fmode) (t : string) : list ftok :=
  match t with
  | "" => match m with MText => [] | _ => [FBad] end
  | String c r =>
    match m with
    | MText => if Ascii.eqb c "{" then ftokens MAfterL r
               else if Ascii.eqb c "}" then ftokens MAfterR r
               else FLit c :: ftokens MText r
    | MAfterL => if Ascii.eqb c "{" then FLit c :: ftokens MText r
                 else if Ascii.eqb c "}" then FAuto :: ftokens MText r
                 else ftokens (MField (String c "")) r
    | MAfterR => if Ascii.eqb c "}" then FLit c :: ftokens MText r else [FBad]
    | MField acc => if Ascii.eqb c "}" then classify_field (rev_str acc "") :: ftokens MText r
                    else if Ascii.eqb c "{" then [classify_nested (rev_str acc "")]
                    else ftokens (MField (String c acc)) r
    end
  end.

Inductive numbering : Type := NNone | NAuto | NManual.

(* k = next automatic index *)
Fixpoint ffill (args : list string) (k : nat) (num : numbering) (toks : list ftok) : fmt_res :=
  match toks with
  | [] => FOk ""
  | FLit c :: r => match ffill args k num r with FOk s => FOk (String c s) | x => x end
  | FAuto :: r =>
    match num with
    | NManual => FFail
    | _ => match nth_error args k with
           | Some a => match ffill args (S k) NAuto r with FOk s => FOk (a ++ s) | x => x end
           | None => FFail
           end
    end
  | FManual n :: r =>
    match num with
    | NAuto => FFail
    | _ => if (n <? N.of_nat (length args))%N then
             match nth_error args (N.to_nat n) with
             | Some a => match ffill args k NManual r with FOk s => FOk (a ++ s) | x => x end
             | None => FFail
             end
           else FFail
    end
  | FAutoX :: _ =>
    match num with
    | NManual => FFail
    | _ => match nth_error args k with Some _ => FUnmodelled | None => FFail end
    end
  | FManualX n :: _ =>
    match num with
    | NAuto => FFail
    | _ => if (n <? N.of_nat (length args))%N then FUnmodelled else FFail
    end
  | FBad :: _ => FFail
  | FUnk :: _ => FUnmodelled
  end.

Definition py_format (tpl : string) (args : list string) : fmt_res := ffill args 0 NNone (ftokens MText tpl).
