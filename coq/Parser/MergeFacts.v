(* MergeFacts.v — the two symbol-table loops raise only SymbolError / ParserError and keep every
   symbol well-formed (so `combine`'s TypeError branch is never reached from the parser). *)
From Coq Require Import String Ascii List Bool ZArith Lia.
Import ListNotations.
Require Import PyBase Symbols SymbolsFacts Merge.
Open Scope string_scope.

Definition all_wf (d : list (string * symbol)) : Prop := forall x, In x (dict_values d) -> wf_symbol x = true.

(* a term as process_term_match builds it: index None exactly for FUNCTION / KEYWORD (VERBATIM terms never become symbols) *)
Definition wf_term (t : term) : bool :=
  match ttype t with
  | TVerbatim => true
  | ty => Bool.eqb (is_none (tindex t)) (unindexed_type ty)
  end.

Lemma all_wf_nil : all_wf [].
Proof. intros x []. Qed.
Lemma all_wf_set k v d : all_wf d -> wf_symbol v = true -> all_wf (dict_set k v d).
Proof. intros Hd Hv x Hx. destruct (dict_values_set_in _ _ _ _ Hx) as [->|H]; auto. Qed.

Lemma dict_combine_err name sym d e :
  all_wf d -> wf_symbol sym = true -> dict_combine name sym d = Raise e -> e = SymbolError \/ e = ParserError.
Proof.
  intros Hd Hs. unfold dict_combine.
  destruct (dict_get name d) as [old|] eqn:Eg.
  - destruct (combine old sym) eqn:Ec; [discriminate|]. intros H; inversion H; subst.
    eapply combine_wf_errors; [|exact Hs|exact Ec]. apply Hd. eapply dict_get_in; eauto.
  - destruct (combine sym sym) eqn:Ec; [discriminate|]. intros H; inversion H; subst.
    eapply combine_wf_errors; [exact Hs|exact Hs|exact Ec].
Qed.
Lemma dict_combine_wf name sym d d' :
  all_wf d -> wf_symbol sym = true -> dict_combine name sym d = Ret d' -> all_wf d'.
Proof.
  intros Hd Hs. unfold dict_combine.
  destruct (dict_get name d) as [old|] eqn:Eg.
  - destruct (combine old sym) eqn:Ec; [|discriminate]. intros H; inversion H; subst.
    apply all_wf_set; [exact Hd|]. eapply combine_wf; [|exact Hs|exact Ec]. apply Hd. eapply dict_get_in; eauto.
  - destruct (combine sym sym) eqn:Ec; [|discriminate]. intros H; inversion H; subst.
    apply all_wf_set; [exact Hd|]. eapply combine_wf; [exact Hs|exact Hs|exact Ec].
Qed.

(* the symbol the per-equation loop builds from a well-formed term is well-formed *)
Lemma term_symbol_wf t eq cd :
  wf_term t = true -> ttype t <> TVerbatim ->
  wf_symbol (mkSymbol (Some (tname t)) (ttype t) (tindex t) (tindex t) eq cd) = true.
Proof.
  unfold wf_term, wf_symbol. cbn [slags sleads stype]. intros H Hv.
  destruct (ttype t); try congruence; cbn in H |- *; rewrite H; reflexivity.
Qed.

Lemma equation_symbols_go_spec eqn code terms : forall symbols functions,
  all_wf symbols -> forallb wf_term terms = true ->
  match equation_symbols_go eqn code terms symbols functions with
  | Ret d => all_wf d
  | Raise e => e = SymbolError \/ e = ParserError
  end.
Proof.
  induction terms as [|t rest IH]; intros symbols functions Hd Ht; cbn [equation_symbols_go]; [exact Hd|].
  cbn [forallb] in Ht. apply andb_true_iff in Ht as [Ht Hr].
  assert (COMB : forall sym, wf_symbol sym = true ->
            match (match dict_combine (tname t) sym symbols with
                   | Ret d => equation_symbols_go eqn code rest d functions
                   | Raise e => Raise e end) with
            | Ret d => all_wf d | Raise e => e = SymbolError \/ e = ParserError end).
  { intros sym Hs. destruct (dict_combine (tname t) sym symbols) as [d|e] eqn:Ec.
    - apply IH; [|exact Hr]. eapply dict_combine_wf; eauto.
    - eapply dict_combine_err; eauto. }
  destruct (ttype t) eqn:Ety.
  all: try (apply COMB; rewrite <- Ety; apply term_symbol_wf; [exact Ht | congruence]).
  - (* VERBATIM *) apply IH; assumption.
Qed.

Lemma equation_symbols_err eqn code terms e :
  forallb wf_term terms = true -> equation_symbols eqn code terms = Raise e -> e = SymbolError \/ e = ParserError.
Proof.
  intros Ht. unfold equation_symbols.
  pose proof (equation_symbols_go_spec eqn code terms [] [] all_wf_nil Ht) as H.
  destruct (equation_symbols_go eqn code terms [] []); [discriminate|]. intros E; inversion E; subst. exact H.
Qed.
Lemma equation_symbols_wf eqn code terms syms :
  forallb wf_term terms = true -> equation_symbols eqn code terms = Ret syms -> forall x, In x syms -> wf_symbol x = true.
Proof.
  intros Ht. unfold equation_symbols.
  pose proof (equation_symbols_go_spec eqn code terms [] [] all_wf_nil Ht) as H.
  destruct (equation_symbols_go eqn code terms [] []); [|discriminate]. intros E; inversion E; subst. exact H.
Qed.

Lemma merge_go_spec syms : forall symbols verbatim,
  all_wf symbols -> (forall x, In x syms -> wf_symbol x = true) -> (forall x, In x verbatim -> wf_symbol x = true) ->
  match merge_go syms symbols verbatim with
  | Ret out => forall x, In x out -> wf_symbol x = true
  | Raise e => e = SymbolError \/ e = ParserError
  end.
Proof.
  induction syms as [|s rest IH]; intros symbols verbatim Hd Hs Hv; cbn [merge_go].
  - intros x Hx. apply in_app_or in Hx as [Hx|Hx]; [apply Hd, Hx | apply Hv; apply in_rev; exact Hx].
  - assert (Hs0 : wf_symbol s = true) by (apply Hs; left; reflexivity).
    assert (Hr : forall x, In x rest -> wf_symbol x = true) by (intros x Hx; apply Hs; right; exact Hx).
    destruct (sname s) as [name|].
    + destruct (dict_combine name s symbols) as [d|e] eqn:Ec.
      * apply IH; auto. eapply dict_combine_wf; eauto.
      * eapply dict_combine_err; eauto.
    + apply IH; auto. intros x [Hx|Hx]; [subst; exact Hs0 | apply Hv, Hx].
Qed.
Lemma merge_symbols_err by_eq e :
  (forall l x, In l by_eq -> In x l -> wf_symbol x = true) ->
  merge_symbols by_eq = Raise e -> e = SymbolError \/ e = ParserError.
Proof.
  intros H. unfold merge_symbols.
  pose proof (merge_go_spec (concat by_eq) [] [] all_wf_nil) as M.
  destruct (merge_go (concat by_eq) [] []); [discriminate|]. intros E; inversion E; subst.
  apply M; [|intros x []]. intros x Hx. apply in_concat in Hx as (l & Hl & Hx). eapply H; eauto.
Qed.
