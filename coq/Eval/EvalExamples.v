(* EvalExamples.v — concrete PrimFloat instances of the evaluation model: non-vacuity of the hypotheses of the C04
   theorems, the witness of the one refuted clause (finding #3), and the converse example showing that without the
   feasibility guard a lagged read WOULD wrap to the other end of the span. Closed computations checked by the kernel. *)
From Coq Require Import PrimFloat ZArith List Bool Lia.
Import ListNotations.
Require Import PyBase Solver SolverFacts SolverF Eval EvalFacts EvalFacts2 EvalF.
Open Scope Z_scope.

(* rows: 0 = Y (endogenous), 1 = X (exogenous).   Y[t] = 0.5 * Y[t-1] + X[t]   — one lag, no lead *)
Definition ex_prog : fprogram :=
  [SAssign 0%nat 0 (EBin OAdd (EBin OMul (ENum 0.5%float) (ERead 0%nat (-1))) (ERead 1%nat 0))].
Definition ex_d : mdesc := mkDesc [0%nat] [0%nat] 1%nat 0%nat.
Definition ex_v : vals float := [[1%float; 2%float; 3%float; 4%float]; [1%float; 1%float; 1%float; 1%float]].
Definition ex_s : fstate := mkState ex_v [Unsolved; Unsolved; Unsolved; Unsolved] [-1; -1; -1; -1] [].
Definition ex_o (off : Z) : fopts := mkOpts 0 3 0x1.b7cdfd9d7bdbbp-34%float off false ERaise true.

Example ex_lags_leads : prog_lags float ex_prog = 1%nat /\ prog_leads float ex_prog = 0%nat.
Proof. split; reflexivity. Qed.

(* one pass at t = 2: reads Y[1], X[2], writes Y[2] — all served where requested *)
Example ex_eval_pass_t2 :
  f_eval_pass [] false ex_prog 2 ex_v =
  (([[1%float; 2%float; 2%float; 4%float]; [1%float; 1%float; 1%float; 1%float]], None),
   [Acc false 0%nat 1 (Some 1%nat); Acc false 1%nat 2 (Some 2%nat); Acc true 0%nat 2 (Some 2%nat)]).
Proof. vm_compute. reflexivity. Qed.

(* the same period spelled negatively: indexes requested are negative, served at the same positions *)
Example ex_eval_pass_tm2 :
  snd (f_eval_pass [] false ex_prog (-2) ex_v) =
  [Acc false 0%nat (-3) (Some 1%nat); Acc false 1%nat (-2) (Some 2%nat); Acc true 0%nat (-2) (Some 2%nat)].
Proof. vm_compute. reflexivity. Qed.

(* CONVERSE EXAMPLE: the evaluation pass alone, at the infeasible period t = 0 < lags, reads Y[-1] and is SERVED
   THE LAST PERIOD (position 3) — served differs from requested; the access monitor flags it *)
Example ex_eval_pass_t0_wraps :
  snd (f_eval_pass [] false ex_prog 0 ex_v) =
  [Acc false 0%nat (-1) (Some 3%nat); Acc false 1%nat 0 (Some 0%nat); Acc true 0%nat 0 (Some 0%nat)]
  /\ log_ok 4 0 (snd (f_eval_pass [] false ex_prog 0 ex_v)) = false
  /\ fst (fst (f_eval_pass [] false ex_prog 0 ex_v)) = [[3%float; 2%float; 3%float; 4%float]; [1%float; 1%float; 1%float; 1%float]].
Proof. repeat split; vm_compute; reflexivity. Qed.

Lemma infeasible_eval_pass_wraps :
  exists (prog : fprogram) (n : nat) (t : Z) (p : nat) (v : vals float) (a : access),
    wf_vals n v /\ py_pos n t = Some p /\ (p < prog_lags float prog)%nat /\
    In a (snd (f_eval_pass [] false prog t v)) /\
    acc_req a = t + (-1) /\ acc_srv a = Some (n - 1)%nat /\ access_ok n t p a = false.
Proof.
  exists ex_prog, 4%nat, 0, 0%nat, ex_v, (Acc false 0%nat (-1) (Some 3%nat)).
  split; [intros i Hi; destruct i as [|[|i]]; [reflexivity|reflexivity|cbn in Hi; lia]|].
  split; [reflexivity|]. split; [cbn; lia|].
  split; [vm_compute; left; reflexivity|]. repeat split; reflexivity.
Qed.

(* ... whereas solve_t rejects that period (feasibility guard, fix eb62990): IndexError, nothing changes *)
Example ex_solve_t_infeasible :
  f_solve_t_P [] ex_prog ex_d (ex_o 0) 0 ex_s = (ex_s, Raise IndexError)
  /\ f_solve_t_P [] ex_prog ex_d (ex_o 0) (-4) ex_s = (ex_s, Raise IndexError).
Proof. split; vm_compute; reflexivity. Qed.

(* a feasible period: converges at pass 2, only Y[2] and status/iterations at 2 change *)
Example ex_solve_t_2 :
  f_solve_t_P [] ex_prog ex_d (ex_o 0) 2 ex_s =
  (mkState [[1%float; 2%float; 2%float; 4%float]; [1%float; 1%float; 1%float; 1%float]]
           [Unsolved; Unsolved; Solved; Unsolved] [-1; -1; 2; -1]
           [EvBefore 2; EvPass 2 1; EvPass 2 2; EvAfter 2 2], Ret true).
Proof. vm_compute. reflexivity. Qed.

(* the hypotheses of solve_t_P_touches_only_assigned_cells / monitored_solve_t_eq are satisfiable *)
Example ex_hyps_satisfiable :
  wf_vals (length (status ex_s)) (vals_of ex_s) /\ vars_ok float ex_prog (length (vals_of ex_s)) /\
  (prog_lags float ex_prog <= lags ex_d)%nat /\ (prog_leads float ex_prog <= leads ex_d)%nat /\
  py_pos (length (status ex_s)) 2 = Some 2%nat /\ feasible ex_d (length (status ex_s)) 2 = true.
Proof.
  split; [intros i Hi; destruct i as [|[|i]]; [reflexivity|reflexivity|cbn in Hi; lia]|].
  split.
  { intros x k H. cbn in H. destruct H as [H|[H|[H|[]]]]; inversion H; subst; cbn; lia. }
  repeat split; cbn; lia.
Qed.

Example ex_monitored_same :
  f_solve_t_monitored [] 4%nat ex_prog ex_d (ex_o 0) 2 ex_s = f_solve_t_P [] ex_prog ex_d (ex_o 0) 2 ex_s.
Proof. vm_compute. reflexivity. Qed.

(* the monitor is not vacuous: with the instance-level lags wrongly set to 0 (guard disabled) it fires at t = 0 *)
Example ex_monitor_fires_without_guard :
  f_solve_t_monitored [] 4%nat ex_prog (mkDesc [0%nat] [0%nat] 0%nat 0%nat) (ex_o 0) 0 ex_s
  = (mkState [[3%float; 2%float; 3%float; 4%float]; [1%float; 1%float; 1%float; 1%float]]
             [ErrorSt; Unsolved; Unsolved; Unsolved] [1; -1; -1; -1] [EvBefore 0; EvPass 0 1],
     Raise (SolutionError (Some tag_monitor))).
Proof. vm_compute. reflexivity. Qed.

(* solve() over the default range 1..3 *)
Example ex_solve_default :
  default_positions ex_d 4 = [1; 2; 3] /\
  snd (f_solve_seq [] ex_prog ex_d (ex_o 0) (default_positions ex_d 4) ex_s) = Ret [true; true; true] /\
  status (fst (f_solve_seq [] ex_prog ex_d (ex_o 0) (default_positions ex_d 4) ex_s)) = [Unsolved; Solved; Solved; Solved].
Proof. repeat split; vm_compute; reflexivity. Qed.

(* ---------------- finding #3 (still present): the offset copy precedes the pre-existing-NaN rejection -------- *)
Definition ex3_s : fstate :=
  mkState [[1%float; nan; 3%float; 4%float]; [1%float; 1%float; 1%float; 1%float]]
          [Unsolved; Unsolved; Unsolved; Unsolved] [-1; -1; -1; -1] [].

Example ex3_offset_copy_then_rejected :
  f_solve_t_P [] ex_prog ex_d (ex_o (-1)) 2 ex3_s =
  (mkState [[1%float; nan; nan; 4%float]; [1%float; 1%float; 1%float; 1%float]]
           [Unsolved; Unsolved; Unsolved; Unsolved] [-1; -1; -1; -1] [], Raise (SolutionError None)).
Proof. vm_compute. reflexivity. Qed.

(* "a call rejected up front for pre-existing non-finite check values changes nothing" is FALSE of the code when an
   offset is given: rejected before any hook or pass ran, yet Y[2] = 3.0 has been overwritten by NaN *)
Lemma rejected_preexisting_after_offset_refuted :
  exists (prog : fprogram) d o t s,
    errors o = ERaise /\ offset o <> 0 /\
    snd (f_solve_t_P [] prog d o t s) = Raise (SolutionError None) /\
    log (fst (f_solve_t_P [] prog d o t s)) = log s /\
    nth_error (nth 0 (vals_of s) []) 2 = Some 3%float /\
    nth_error (nth 0 (vals_of (fst (f_solve_t_P [] prog d o t s))) []) 2 = Some nan.
Proof.
  exists ex_prog, ex_d, (ex_o (-1)), 2, ex3_s. rewrite ex3_offset_copy_then_rejected.
  repeat split; try reflexivity. cbn. lia.
Qed.

(* with offset = 0 the same pre-existing NaN at t is rejected with nothing changed (instance of the guarded theorem) *)
Example ex3_no_offset_no_change :
  f_solve_t_P [] ex_prog ex_d (ex_o 0) 1 ex3_s = (ex3_s, Raise (SolutionError None)).
Proof. vm_compute. reflexivity. Qed.

(* the warning rule: 1/0 under errors='raise' + catch_first_error raises before the store; otherwise inf is stored *)
Definition exw_prog : fprogram := [SAssign 0%nat 0 (EBin ODiv (ENum 1%float) (ERead 1%nat 0))].
Example exw_catch :
  f_eval_pass [] true exw_prog 1 [[5%float; 5%float]; [0%float; 0%float]] =
  (([[5%float; 5%float]; [0%float; 0%float]], Some tag_warning), [Acc false 1%nat 1 (Some 1%nat)])
  /\ fst (f_eval_pass [] false exw_prog 1 [[5%float; 5%float]; [0%float; 0%float]]) =
     ([[5%float; infinity]; [0%float; 0%float]], None).
Proof. split; vm_compute; reflexivity. Qed.
