(* EvalFortranFrame.v — the C04 frame clause on the SECOND engine, for periods the Fortran engine does solve:
   FortranEngine.solve_t over the compiled subroutine solve_t (model Fortran/FSolve.v), for EVERY equations block `evf`
   that meets the frame condition (changes no cell outside W, keeps the array lengths): values change only inside W and
   in the endogenous rows of period p itself (offset copy on either side of the language boundary, the zeroing of
   non-finite values under errors='replace'); status / iterations change at p only.  Negative spellings of t included:
   the compiled code's own index normalisation lands on the same column. *)
From Coq Require Import ZArith List Bool Lia ZifyBool.
Import ListNotations.
Require Import PyBase Solver SolverFacts FSem FSolve Eval EvalFacts EvalFortran.
Open Scope Z_scope.

Section FortranFrame.
  Variable num : Type.
  Variables (sub : num -> num -> num) (absf : num -> num) (ltb : num -> num -> bool)
            (isfin : num -> bool) (zero : num).
  Variable evf : Z -> vals num -> vals num.

  Notation fread := (fread num zero).
  Notation fwrite := (fwrite num).
  Notation t_copy := (t_copy num zero).
  Notation t_zero := (t_zero num isfin zero).
  Notation t_evaluate := (t_evaluate num evf).
  Notation t_loop := (t_loop num sub absf ltb isfin zero evf).
  Notation t_solve_t := (t_solve_t num sub absf ltb isfin zero evf).
  Notation w_solve_t := (w_solve_t num sub absf ltb isfin zero evf).

  Variable fm : fmod.
  Variable sh : list nat.            (* array lengths of the values matrix: one entry per variable *)
  Variable idx : Z.                  (* one-based column of the period being solved *)
  Variable W : nat -> nat -> Prop.   (* what the equations block may write *)

  Let pcol : nat := Z.to_nat (idx - 1).
  (* the frame of the compiled code: W, and the module's endogenous rows at the period itself *)
  Definition WF (i j : nat) : Prop := W i j \/ (In (Z.of_nat i + 1) (fm_endo fm) /\ j = pcol).

  Hypothesis Hcol : 1 <= idx <= Z.of_nat (hd 0%nat sh).
  Hypothesis Hrows : forall r, In r (fm_endo fm) -> 1 <= r <= Z.of_nat (length sh).
  Hypothesis Hevf : forall v, shape v = sh -> agree_outside W v (evf idx v).

  Lemma ncols_sh (v : vals num) : shape v = sh -> ncols_of num v = Z.of_nat (hd 0%nat sh).
  Proof. intros <-. unfold ncols_of, shape. destruct v; reflexivity. Qed.
  Lemma nrows_sh (v : vals num) : shape v = sh -> nrows_of num v = Z.of_nat (length sh).
  Proof. intros <-. unfold nrows_of. rewrite shape_length. reflexivity. Qed.

  Lemma in_range_endo (v : vals num) r : shape v = sh -> In r (fm_endo fm) -> in_range num v r idx = true.
  Proof.
    intros Hs Hr. unfold in_range. rewrite (ncols_sh v Hs), (nrows_sh v Hs). specialize (Hrows r Hr). lia.
  Qed.

  Lemma fwrite_agree (v : vals num) r x :
    shape v = sh -> In r (fm_endo fm) -> agree_outside WF v (fwrite v r idx x).
  Proof.
    intros Hs Hr. unfold FSem.fwrite. rewrite (in_range_endo v r Hs Hr).
    apply set_cell_agree. right. split; [|reflexivity].
    specialize (Hrows r Hr). replace (Z.of_nat (Z.to_nat (r - 1)) + 1) with r by lia. exact Hr.
  Qed.

  Lemma agree_shape (Wx : nat -> nat -> Prop) (v v' : vals num) : agree_outside Wx v v' -> shape v = sh -> shape v' = sh.
  Proof. intros [S _] H. congruence. Qed.

  Lemma copy_fold_agree loc : forall l0 (v : vals num),
    (forall r, In r l0 -> In r (fm_endo fm)) -> shape v = sh ->
    agree_outside WF v (fold_left (fun v r => fwrite v r idx (fread v r loc)) l0 v).
  Proof.
    induction l0 as [|r l0 IH]; intros v Hsub Hs; cbn [fold_left]; [apply agree_refl|].
    pose proof (fwrite_agree v r (fread v r loc) Hs (Hsub r (or_introl eq_refl))) as A.
    eapply agree_trans; [exact A|]. apply IH; [intros r' Hr'; apply Hsub; right; exact Hr'|].
    exact (agree_shape _ _ _ A Hs).
  Qed.
  Lemma t_copy_agree (v : vals num) loc : shape v = sh -> agree_outside WF v (t_copy fm v idx loc).
  Proof. intros Hs. unfold FSolve.t_copy. apply copy_fold_agree; auto. Qed.

  Lemma zero_fold_agree : forall l0 (v : vals num),
    (forall r, In r l0 -> In r (fm_endo fm)) -> shape v = sh ->
    agree_outside WF v (fold_left (fun v r => if isfin (fread v r idx) then v else fwrite v r idx zero) l0 v).
  Proof.
    induction l0 as [|r l0 IH]; intros v Hsub Hs; cbn [fold_left]; [apply agree_refl|].
    assert (Hsub' : forall r', In r' l0 -> In r' (fm_endo fm)) by (intros r' Hr'; apply Hsub; right; exact Hr').
    destruct (isfin (fread v r idx)); [apply IH; assumption|].
    pose proof (fwrite_agree v r zero Hs (Hsub r (or_introl eq_refl))) as A.
    eapply agree_trans; [exact A|]. apply IH; [exact Hsub'|exact (agree_shape _ _ _ A Hs)].
  Qed.
  Lemma t_zero_agree (v : vals num) : shape v = sh -> agree_outside WF v (t_zero fm v idx).
  Proof. intros Hs. unfold FSolve.t_zero. apply zero_fold_agree; auto. Qed.

  Lemma t_index_idem_sh (v : vals num) : t_index (ncols_of num v) idx = idx.
  Proof. unfold t_index. destruct (idx <? 1) eqn:E; lia. Qed.

  Lemma t_evaluate_agree (v : vals num) : shape v = sh -> agree_outside WF v (fst (t_evaluate fm v idx)).
  Proof.
    intros Hs. unfold FSolve.t_evaluate. rewrite t_index_idem_sh.
    destruct (t_guard fm (ncols_of num v) idx =? 0); cbn [fst]; [|apply agree_refl].
    eapply agree_mono; [|apply Hevf; exact Hs]. intros i j H. left. exact H.
  Qed.

  Lemma t_loop_agree ec mi ma tl cv : forall n k (v : vals num) cur code,
    shape v = sh -> agree_outside WF v (fo_vals (t_loop fm ec mi ma tl cv idx n k v cur code)).
  Proof.
    induction n as [|n IH]; intros k v cur code Hs; cbn [FSolve.t_loop]; [apply agree_refl|].
    pose proof (t_evaluate_agree v Hs) as A.
    destruct (t_evaluate fm v idx) as [v' c'] eqn:E. cbn [fst] in A.
    pose proof (agree_shape _ _ _ A Hs) as Hs'.
    assert (R : forall k' cur' code', agree_outside WF v (fo_vals (t_loop fm ec mi ma tl cv idx n k' v' cur' code'))).
    { intros. eapply agree_trans; [exact A|]. apply IH. exact Hs'. }
    assert (RZ : forall k' cur' code', agree_outside WF v (fo_vals (t_loop fm ec mi ma tl cv idx n k' (t_zero fm v' idx) cur' code'))).
    { intros. pose proof (t_zero_agree v' Hs') as Z0.
      eapply agree_trans; [exact A|]. eapply agree_trans; [exact Z0|]. apply IH. exact (agree_shape _ _ _ Z0 Hs'). }
    destruct (negb (c' =? 0)); [exact A|].
    assert (J : agree_outside WF v
                  (fo_vals (if k <? mi then t_loop fm ec mi ma tl cv idx n (k + 1) v' (col_of num zero v' cv idx) c'
                            else if conv num sub absf ltb tl (col_of num zero v' cv idx) cur then mkFout v' true k c'
                            else t_loop fm ec mi ma tl cv idx n (k + 1) v' (col_of num zero v' cv idx) c'))).
    { destruct (k <? mi); [apply R|]. destruct (conv num sub absf ltb tl (col_of num zero v' cv idx) cur); [exact A|apply R]. }
    destruct (negb (all_finite num isfin (col_of num zero v' (fm_endo fm) idx))); [|exact J].
    destruct (ec =? c_ec_raise); [exact A|]. destruct (ec =? c_ec_skip); [exact A|].
    destruct (ec =? c_ec_ignore); [apply R|].
    destruct (ec =? c_ec_replace); [|exact J].
    destruct (k <? ma); [apply RZ|apply R].
  Qed.

  (* the compiled subroutine as a whole, called with the one-based (possibly wrapped) index t1 that normalises to idx *)
  Lemma t_solve_t_agree (v : vals num) t1 mi ma tl off cv ec :
    shape v = sh -> t_index (ncols_of num v) t1 = idx ->
    agree_outside WF v (fo_vals (t_solve_t fm v t1 mi ma tl off cv ec)).
  Proof.
    intros Hs Hi. unfold FSolve.t_solve_t. rewrite Hi.
    destruct (negb (t_guard fm (ncols_of num v) idx =? 0)); [apply agree_refl|].
    destruct (off =? 0).
    - destruct ((ec =? c_ec_raise) && negb (all_finite num isfin (col_of num zero v cv idx))); [apply agree_refl|].
      apply t_loop_agree. exact Hs.
    - destruct (idx + off <? 1); [apply agree_refl|]. destruct (ncols_of num v <? idx + off); [apply agree_refl|].
      pose proof (t_copy_agree v (idx + off) Hs) as C.
      destruct ((ec =? c_ec_raise) && negb (all_finite num isfin (col_of num zero (t_copy fm v idx (idx + off)) cv idx))); [exact C|].
      eapply agree_trans; [exact C|]. apply t_loop_agree. exact (agree_shape _ _ _ C Hs).
  Qed.
End FortranFrame.

Section FortranFrameWrapper.
  Variable num : Type.
  Variables (sub : num -> num -> num) (absf : num -> num) (ltb : num -> num -> bool)
            (isfin : num -> bool) (zero : num).
  Variable evf : Z -> vals num -> vals num.
  Notation w_solve_t := (w_solve_t num sub absf ltb isfin zero evf).

  Lemma stampz_sf (s : mstate num) v p x k : sf_frame p s (stampz num s v p x k).
  Proof. eapply sf_frame_upd; reflexivity. Qed.
  Lemma setvals_sf (s : mstate num) v p : sf_frame p s (setvals num s v).
  Proof. apply sf_frame_same; reflexivity. Qed.

  (* THE FRAME THEOREM OF THE FORTRAN ENGINE.  For every equations block that writes only inside W, every option set,
     both spellings of t, feasible or not: FortranEngine.solve_t changes no value cell outside W and the endogenous rows
     (the instance's list, used by the wrapper's offset copy, and the module's list, used by the compiled code) of
     period p; status and iterations change at p only; the event log not at all. *)
  Theorem fortran_solve_t_frame (fm : fmod) d o t s p (W : nat -> nat -> Prop) :
    py_pos (length (status s)) t = Some p ->
    hd 0%nat (shape (vals_of s)) = length (status s) ->
    (forall r, In r (fm_endo fm) -> 1 <= r <= Z.of_nat (length (vals_of s))) ->
    (forall v, shape v = shape (vals_of s) -> agree_outside W v (evf (Z.of_nat p + 1) v)) ->
    let s' := fst (w_solve_t fm d o t s) in
    agree_outside (fun i j => W i j \/ ((In i (endo d) \/ In (Z.of_nat i + 1) (fm_endo fm)) /\ j = p)) (vals_of s) (vals_of s') /\
    sf_frame p s s' /\ log s' = log s.
  Proof.
    intros Hp Hcols Hrows Hevf. cbv zeta. unfold FSolve.w_solve_t.
    set (WW := fun i j => W i j \/ ((In i (endo d) \/ In (Z.of_nat i + 1) (fm_endo fm)) /\ j = p)).
    assert (Same : agree_outside WW (vals_of s) (vals_of s) /\ sf_frame p s s /\ log s = log s).
    { split; [apply agree_refl|]. split; [apply sf_frame_same; reflexivity|reflexivity]. }
    destruct (max_iter o <? min_iter o); [exact Same|].
    destruct (w_ec (errors o)) as [ec|]; [|exact Same]. rewrite Hp.
    assert (Hlt : (p < length (status s))%nat) by (apply py_pos_inv in Hp; lia).
    destruct (negb (feasible d (length (status s)) p)); [exact Same|].
    match goal with |- context [match ?pre with inl _ => _ | inr _ => _ end] => destruct pre as [v0|e] eqn:Epre end; [|exact Same].
    assert (Hv0 : agree_outside WW (vals_of s) v0).
    { destruct (offset o =? 0); [inversion Epre; subst; apply agree_refl|].
      destruct (Z.of_nat p + offset o <? 0); [discriminate|].
      destruct (Z.of_nat (length (status s)) <=? Z.of_nat p + offset o); [discriminate|].
      inversion Epre; subst. eapply agree_mono; [|apply copy_endo_agree].
      intros i j [Hi Hj]. right. split; [left; exact Hi|exact Hj]. }
    assert (Hs0 : shape v0 = shape (vals_of s)) by (destruct Hv0 as [S _]; exact S).
    destruct (is_raise (errors o) && negb (all_finite num isfin (get_check num zero d v0 p))).
    { cbn [fst setvals vals_of log]. split; [exact Hv0|]. split; [apply setvals_sf|reflexivity]. }
    (* the compiled call *)
    assert (Hidx : t_index (ncols_of num v0) (t + 1) = Z.of_nat p + 1).
    { replace (ncols_of num v0) with (Z.of_nat (length (status s))).
      - apply f_index_pos. exact Hp.
      - rewrite <- Hcols, <- Hs0. unfold ncols_of, shape. destruct v0; reflexivity. }
    pose proof (t_solve_t_agree num sub absf ltb isfin zero evf fm (shape (vals_of s)) (Z.of_nat p + 1) W
                  ltac:(rewrite Hcols; lia)
                  ltac:(intros r Hr; rewrite shape_length; apply Hrows; exact Hr)
                  Hevf v0 (t + 1) (min_iter o) (max_iter o) (tol o) (offset o) (cv_of d) ec Hs0 Hidx) as A.
    set (r := FSolve.t_solve_t num sub absf ltb isfin zero evf fm v0 (t + 1) (min_iter o) (max_iter o) (tol o) (offset o) (cv_of d) ec) in *.
    assert (Hr : agree_outside WW (vals_of s) (fo_vals r)).
    { eapply agree_trans; [exact Hv0|]. eapply agree_mono; [|exact A].
      intros i j [Hw|[Hi Hj]]; [left; exact Hw|]. right. split; [right; exact Hi|].
      rewrite Hj. replace (Z.of_nat p + 1 - 1) with (Z.of_nat p) by lia. apply Nat2Z.id. }
    cbv zeta.
    destruct (fo_code r =? w_t_ok).
    { destruct (st_eqb (if fo_conv r then Solved else Failed) Failed && fail_raise o); cbn [fst stampz vals_of log];
        (split; [exact Hr|]); (split; [apply stampz_sf|reflexivity]). }
    destruct ((fo_code r =? w_t_raise) && is_raise (errors o)).
    { cbn [fst stampz vals_of log]. split; [exact Hr|]. split; [apply stampz_sf|reflexivity]. }
    destruct ((fo_code r =? w_t_skip) && is_skip (errors o)).
    { cbn [fst stampz vals_of log]. split; [exact Hr|]. split; [apply stampz_sf|reflexivity]. }
    destruct (existsb (Z.eqb (fo_code r)) w_t_index);
      cbn [fst setvals vals_of log]; (split; [exact Hr|]); (split; [apply setvals_sf|reflexivity]).
  Qed.
End FortranFrameWrapper.

(* ---- every generated {equations} block meets the frame premise: the compiled statements of FSem.f_pass write only
   solved_values(number of the left-hand variable, index) — for every program whose left-hand rows exist ---- *)
Section FortranParsedFrame.
  Variable num : Type.
  Variables (add sub mul div : num -> num -> num) (neg absf : num -> num) (ltb : num -> num -> bool).
  Variable of_int : Z -> num.
  Variables (fexp flog : num -> num) (fpow : num -> num -> num).
  Variable round4 : num -> num.
  Variables (exp4 log4 : num -> num) (pow4 : num -> num -> num).
  Variables (zero one : num).
  Notation f_pass := (f_pass num add sub mul div neg absf ltb of_int fexp flog fpow round4 exp4 log4 pow4 zero one).

  (* cells the block may write for the one-based column idx *)
  Definition f_written (prog : list (eqn num)) (idx : Z) (i j : nat) : Prop :=
    (exists e, In (i, e) prog) /\ j = Z.to_nat (idx - 1).

  Theorem f_pass_frame (sh : list nat) (idx : Z) : forall (prog : list (eqn num)) (v : vals num),
    1 <= idx <= Z.of_nat (hd 0%nat sh) ->
    (forall i e, In (i, e) prog -> (i < length sh)%nat) ->
    shape v = sh -> agree_outside (f_written prog idx) v (f_pass prog idx v).
  Proof.
    induction prog as [|[i e] r IH]; intros v Hcol Hrows Hs; cbn [FSem.f_pass]; [apply agree_refl|].
    assert (Hr' : forall i' e', In (i', e') r -> (i' < length sh)%nat) by (intros i' e' H; apply (Hrows i' e'); right; exact H).
    assert (Mono : forall v1 v2 : vals num, agree_outside (f_written r idx) v1 v2 -> agree_outside (f_written ((i, e) :: r) idx) v1 v2).
    { intros v1 v2. apply agree_mono. intros i' j' [(e' & He') Hj]. split; [exists e'; right; exact He'|exact Hj]. }
    destruct (f_eval num add sub mul div neg absf ltb of_int fexp flog fpow round4 exp4 log4 pow4 one
                (rd_f num zero v idx) (f_regroup num e)) as [x|].
    - assert (A : agree_outside (f_written ((i, e) :: r) idx) v (fwrite num v (Z.of_nat i + 1) idx (to8 num of_int x))).
      { unfold FSem.fwrite.
        assert (R : in_range num v (Z.of_nat i + 1) idx = true).
        { unfold in_range, nrows_of, ncols_of. pose proof (Hrows i e (or_introl eq_refl)) as Hi.
          replace (length v) with (length sh) by (rewrite <- Hs; apply shape_length).
          replace (length (hd [] v)) with (hd 0%nat sh) by (rewrite <- Hs; destruct v; reflexivity). lia. }
        rewrite R. apply set_cell_agree. split; [exists e; left; f_equal; lia|reflexivity]. }
      eapply agree_trans; [exact A|]. apply Mono. apply IH; [exact Hcol|exact Hr'|].
      destruct A as [S _]. congruence.
    - apply Mono. apply IH; assumption.
  Qed.
End FortranParsedFrame.

(* ---- the two composed: FortranEngine.solve_t of ANY generated program touches only period p ---- *)
Section FortranParsedSolveT.
  Variable num : Type.
  Variables (add sub mul div : num -> num -> num) (neg absf : num -> num) (ltb : num -> num -> bool).
  Variable of_int : Z -> num.
  Variables (fexp flog : num -> num) (fpow : num -> num -> num).
  Variable round4 : num -> num.
  Variables (exp4 log4 : num -> num) (pow4 : num -> num -> num).
  Variables (zero one : num).
  Variable isfin : num -> bool.
  Notation f_pass := (f_pass num add sub mul div neg absf ltb of_int fexp flog fpow round4 exp4 log4 pow4 zero one).

  (* for every program (left-hand rows inside the matrix), every option set, both spellings of t, feasible or not:
     the Fortran engine changes no value outside column p — and inside it only rows that are a left-hand side or
     endogenous —, status / iterations at p only, no hook event *)
  Theorem fortran_parsed_solve_t_touches_only_t (prog : list (eqn num)) (fm : fmod) d o t s p :
    py_pos (length (status s)) t = Some p ->
    hd 0%nat (shape (vals_of s)) = length (status s) ->
    (forall r, In r (fm_endo fm) -> 1 <= r <= Z.of_nat (length (vals_of s))) ->
    (forall i e, In (i, e) prog -> (i < length (vals_of s))%nat) ->
    let s' := fst (w_solve_t num sub absf ltb isfin zero (f_pass prog) fm d o t s) in
    agree_outside (fun i j => ((exists e, In (i, e) prog) \/ In i (endo d) \/ In (Z.of_nat i + 1) (fm_endo fm)) /\ j = p)
                  (vals_of s) (vals_of s') /\
    sf_frame p s s' /\ log s' = log s.
  Proof.
    intros Hp Hcols Hrows Hlhs. cbv zeta.
    assert (Hlt : (p < length (status s))%nat) by (apply py_pos_inv in Hp; lia).
    destruct (fortran_solve_t_frame num sub absf ltb isfin zero (f_pass prog) fm d o t s p
                (f_written num prog (Z.of_nat p + 1)) Hp Hcols Hrows) as (A & B & C).
    - intros v Hs. apply (f_pass_frame num add sub mul div neg absf ltb of_int fexp flog fpow round4 exp4 log4 pow4 zero one
                            (shape (vals_of s))); [rewrite Hcols; lia| |exact Hs].
      intros i e Hin. rewrite shape_length. exact (Hlhs i e Hin).
    - split; [|split; [exact B|exact C]]. eapply agree_mono; [|exact A].
      intros i j [[He Hj]|[Hi Hj]].
      + split; [left; exact He|]. rewrite Hj. replace (Z.of_nat p + 1 - 1) with (Z.of_nat p) by lia. apply Nat2Z.id.
      + split; [right; exact Hi|exact Hj].
  Qed.
End FortranParsedSolveT.

(* ---- FortranEngine.solve(): the compiled loop over the requested periods + the wrapper's result loop ---- *)
Section FortranSolveFrame.
  Variable num : Type.
  Variables (sub : num -> num -> num) (absf : num -> num) (ltb : num -> num -> bool)
            (isfin : num -> bool) (zero : num).
  Variable evf : Z -> vals num -> vals num.
  Notation t_solve_t := (t_solve_t num sub absf ltb isfin zero evf).
  Notation t_solve_loop := (t_solve_loop num sub absf ltb isfin zero evf).
  Notation w_results := (w_results num).
  Notation w_solve := (w_solve num sub absf ltb isfin zero evf).

  Variable fm : fmod.
  Variable sh : list nat.
  Variable W : Z -> nat -> nat -> Prop.       (* what the equations block may write when called for column idx *)
  Hypothesis Hrows : forall r, In r (fm_endo fm) -> 1 <= r <= Z.of_nat (length sh).
  Hypothesis Hevf : forall idx v, 1 <= idx <= Z.of_nat (hd 0%nat sh) -> shape v = sh -> agree_outside (W idx) v (evf idx v).

  Definition WFs (ts : list Z) (i j : nat) : Prop := exists idx, In idx ts /\ WF fm idx (W idx) i j.

  Lemma t_solve_loop_agree mi ma tl off cv fc ec : forall (ts : list Z) (v : vals num),
    (forall idx, In idx ts -> 1 <= idx <= Z.of_nat (hd 0%nat sh)) -> shape v = sh ->
    agree_outside (WFs ts) v (fst (t_solve_loop fm v ts mi ma tl off cv fc ec)).
  Proof.
    induction ts as [|t r IH]; intros v Hin Hs; cbn [FSolve.t_solve_loop]; [apply agree_refl|].
    assert (Hi : t_index (ncols_of num v) t = t).
    { unfold t_index. specialize (Hin t (or_introl eq_refl)). destruct (t <? 1) eqn:E; lia. }
    pose proof (t_solve_t_agree num sub absf ltb isfin zero evf fm sh t (W t) (Hin t (or_introl eq_refl)) Hrows
                  (fun v0 => Hevf t v0 (Hin t (or_introl eq_refl))) v t mi ma tl off cv ec Hs Hi) as A.
    set (o := t_solve_t fm v t mi ma tl off cv ec) in *.
    assert (A' : agree_outside (WFs (t :: r)) v (fo_vals o)).
    { eapply agree_mono; [|exact A]. intros i j H. exists t. split; [left; reflexivity|exact H]. }
    match goal with |- context [if ?stop then (fo_vals o, _) else _] => destruct stop end; cbn [fst]; [exact A'|].
    assert (Hs' : shape (fo_vals o) = sh) by (destruct A as [S _]; congruence).
    specialize (IH (fo_vals o) (fun idx H => Hin idx (or_intror H)) Hs').
    destruct (t_solve_loop fm (fo_vals o) r mi ma tl off cv fc ec) as [v' l]. cbn [fst] in *.
    eapply agree_trans; [exact A'|]. eapply agree_mono; [|exact IH].
    intros i j (idx & Hidx & H). exists idx. split; [right; exact Hidx|exact H].
  Qed.

  (* the wrapper's result loop never touches the values and stamps status / iterations at the listed positions only *)
  Lemma w_results_frame o fr : forall ps rs (s : mstate num) acc,
    let s' := fst (w_results o fr ps rs s acc) in
    vals_of s' = vals_of s /\ log s' = log s /\
    length (status s') = length (status s) /\ length (iters s') = length (iters s) /\
    (forall q, ~ In q ps -> nth_error (status s') q = nth_error (status s) q /\ nth_error (iters s') q = nth_error (iters s) q).
  Proof.
    induction ps as [|p ps IH]; intros rs s acc; cbv zeta; cbn [FSolve.w_results].
    { destruct rs; cbn [fst]; repeat split; reflexivity. }
    destruct rs as [|[[cvg it] c] rs]; [cbn [fst]; repeat split; reflexivity|].
    assert (Same : vals_of s = vals_of s /\ log s = log s /\ length (status s) = length (status s) /\
                   length (iters s) = length (iters s) /\
                   (forall q, ~ In q (p :: ps) -> nth_error (status s) q = nth_error (status s) q /\
                                                   nth_error (iters s) q = nth_error (iters s) q))
      by (repeat split; reflexivity).
    assert (Stamp : forall x, let s1 := stampz num s (vals_of s) p x it in
              vals_of s1 = vals_of s /\ log s1 = log s /\ length (status s1) = length (status s) /\
              length (iters s1) = length (iters s) /\
              (forall q, ~ In q (p :: ps) -> nth_error (status s1) q = nth_error (status s) q /\
                                              nth_error (iters s1) q = nth_error (iters s) q)).
    { intros x. cbv zeta. unfold stampz. cbn [vals_of log status iters]. rewrite !upd_length.
      repeat split; try reflexivity; apply nth_error_upd_neq; intros ->; apply H; left; reflexivity. }
    assert (Step : forall x acc', let s2 := fst (w_results o fr ps rs (stampz num s (vals_of s) p x it) acc') in
              vals_of s2 = vals_of s /\ log s2 = log s /\ length (status s2) = length (status s) /\
              length (iters s2) = length (iters s) /\
              (forall q, ~ In q (p :: ps) -> nth_error (status s2) q = nth_error (status s) q /\
                                              nth_error (iters s2) q = nth_error (iters s) q)).
    { intros x acc'. cbv zeta.
      destruct (IH rs (stampz num s (vals_of s) p x it) acc') as (V & Lg & L1 & L2 & Q).
      destruct (Stamp x) as (V0 & Lg0 & L10 & L20 & Q0).
      split; [congruence|]. split; [congruence|]. split; [congruence|]. split; [congruence|].
      intros q Hq. destruct (Q q (fun H => Hq (or_intror H))) as [E1 E2]. destruct (Q0 q Hq) as [E3 E4]. split; congruence. }
    destruct cvg; [apply Step|].
    destruct (c =? w_s_ok); [destruct fr; [apply Stamp|apply Step]|].
    destruct ((c =? w_s_raise) && is_raise (errors o)); [apply Stamp|].
    destruct ((c =? w_s_pre) && is_raise (errors o)); [exact Same|].
    destruct (c =? w_s_offpre); [exact Same|]. destruct (c =? w_s_offpost); [exact Same|].
    destruct ((c =? w_s_skip) && is_skip (errors o)); [apply Step|].
    destruct (existsb (Z.eqb c) w_s_index); exact Same.
  Qed.

  (* THE FRAME THEOREM OF FortranEngine.solve(): over the positions ps (all inside the span) the call changes values
     only where one of the visited columns may be written, status / iterations at visited positions only, no event *)
  Theorem fortran_solve_frame d o fl (ps : list nat) (s : mstate num) :
    shape (vals_of s) = sh ->
    (forall p, In p ps -> (p < hd 0%nat sh)%nat) ->
    let s' := fst (w_solve fm d o fl ps s) in
    agree_outside (WFs (map (fun p => Z.of_nat p + 1) ps)) (vals_of s) (vals_of s') /\
    log s' = log s /\ length (status s') = length (status s) /\ length (iters s') = length (iters s) /\
    (forall q, ~ In q ps -> nth_error (status s') q = nth_error (status s) q /\ nth_error (iters s') q = nth_error (iters s) q).
  Proof.
    intros Hs Hps. cbv zeta. unfold FSolve.w_solve.
    assert (Same : agree_outside (WFs (map (fun p => Z.of_nat p + 1) ps)) (vals_of s) (vals_of s) /\
                   log s = log s /\ length (status s) = length (status s) /\ length (iters s) = length (iters s) /\
                   (forall q, ~ In q ps -> nth_error (status s) q = nth_error (status s) q /\ nth_error (iters s) q = nth_error (iters s) q)).
    { split; [apply agree_refl|]. repeat split; reflexivity. }
    destruct (max_iter o <? min_iter o); [exact Same|].
    destruct (w_fc fl) as [fc|]; [|exact Same]. destruct (w_ec (errors o)) as [ec|]; [|exact Same].
    pose proof (t_solve_loop_agree (min_iter o) (max_iter o) (tol o) (offset o) (cv_of d) fc ec
                  (map (fun p => Z.of_nat p + 1) ps) (vals_of s)) as A.
    destruct (t_solve_loop fm (vals_of s) (map (fun p => Z.of_nat p + 1) ps) (min_iter o) (max_iter o) (tol o) (offset o) (cv_of d) fc ec)
      as [v' rs]. cbn [fst] in A.
    destruct (w_results_frame o (match fl with FRaise => true | _ => false end) ps rs (setvals num s v') []) as (V & Lg & L1 & L2 & Q).
    cbn [setvals vals_of log status iters] in V, Lg, L1, L2, Q.
    split; [rewrite V; apply A; [|exact Hs]|].
    - intros idx Hin. apply in_map_iff in Hin as (p & <- & Hp). specialize (Hps p Hp). lia.
    - split; [exact Lg|]. split; [exact L1|]. split; [exact L2|exact Q].
  Qed.
End FortranSolveFrame.

Section FortranParsedSolve.
  Variable num : Type.
  Variables (add sub mul div : num -> num -> num) (neg absf : num -> num) (ltb : num -> num -> bool).
  Variable of_int : Z -> num.
  Variables (fexp flog : num -> num) (fpow : num -> num -> num).
  Variable round4 : num -> num.
  Variables (exp4 log4 : num -> num) (pow4 : num -> num -> num).
  Variables (zero one : num).
  Variable isfin : num -> bool.
  Notation f_pass := (f_pass num add sub mul div neg absf ltb of_int fexp flog fpow round4 exp4 log4 pow4 zero one).

  (* FortranEngine.solve() of ANY generated program over the positions ps (inside the span), every option set: values
     change only in the visited columns, and there only in left-hand-side / endogenous rows; status / iterations change
     at visited positions only; no hook event *)
  Theorem fortran_parsed_solve_touches_only_visited (prog : list (eqn num)) (fm : fmod) d o fl (ps : list nat) (s : mstate num) :
    (forall r, In r (fm_endo fm) -> 1 <= r <= Z.of_nat (length (vals_of s))) ->
    (forall i e, In (i, e) prog -> (i < length (vals_of s))%nat) ->
    (forall p, In p ps -> (p < hd 0%nat (shape (vals_of s)))%nat) ->
    let s' := fst (w_solve num sub absf ltb isfin zero (f_pass prog) fm d o fl ps s) in
    agree_outside (fun i j => In j ps /\ ((exists e, In (i, e) prog) \/ In (Z.of_nat i + 1) (fm_endo fm))) (vals_of s) (vals_of s') /\
    log s' = log s /\ length (status s') = length (status s) /\ length (iters s') = length (iters s) /\
    (forall q, ~ In q ps -> nth_error (status s') q = nth_error (status s) q /\ nth_error (iters s') q = nth_error (iters s) q).
  Proof.
    intros Hrows Hlhs Hps. cbv zeta.
    assert (Hr : forall r, In r (fm_endo fm) -> 1 <= r <= Z.of_nat (length (shape (vals_of s))))
      by (intros r H; rewrite shape_length; apply Hrows; exact H).
    assert (Hev : forall idx (v : vals num), 1 <= idx <= Z.of_nat (hd 0%nat (shape (vals_of s))) -> shape v = shape (vals_of s) ->
                  agree_outside (f_written num prog idx) v (f_pass prog idx v)).
    { intros idx v Hidx Hs.
      apply (f_pass_frame num add sub mul div neg absf ltb of_int fexp flog fpow round4 exp4 log4 pow4 zero one
               (shape (vals_of s))); [exact Hidx| |exact Hs].
      intros i e Hin. rewrite shape_length. exact (Hlhs i e Hin). }
    destruct (fortran_solve_frame num sub absf ltb isfin zero (f_pass prog) fm (shape (vals_of s))
                (fun idx => f_written num prog idx) Hr Hev d o fl ps s eq_refl Hps) as (A & Rest).
    split; [|exact Rest]. eapply agree_mono; [|exact A].
    intros i j (idx & Hin & H). apply in_map_iff in Hin as (p & <- & Hp).
    unfold WF, f_written in H. replace (Z.of_nat p + 1 - 1) with (Z.of_nat p) in H by lia. rewrite Nat2Z.id in H.
    destruct H as [[He ->]|[Hi ->]]; (split; [exact Hp|]); [left; exact He|right; exact Hi].
  Qed.
End FortranParsedSolve.
