(* EvalFortranFrame.v — the C04 frame clause on the SECOND engine, for periods the Fortran engine does solve:
   FortranEngine.solve_t over the compiled subroutine solve_t (model Fortran/FSolve.v), for EVERY equations block `evf`
   that meets the frame condition (changes no cell outside W, keeps the array lengths): values change only inside W and
   in the endogenous rows of period p itself (offset copy on either side of the language boundary, the zeroing of
   non-finite values under errors='replace'); status / iterations change at p only.  Negative spellings of t included:
   the compiled code's own index normalisation lands on the same column. *)
From Coq Require Import ZArith List Bool Lia ZifyBool.
Import ListNotations.
Require Import PyBase Solver SolverFacts FSem FSolve Eval EvalFacts EvalFortran.
Open Scope Z_scope.

Section FortranFrame.
  Variable num : Type.
  Variables (sub : num -> num -> num) (absf : num -> num) (ltb : num -> num -> bool)
            (isfin : num -> bool) (zero : num).
  Variable evf : Z -> vals num -> vals num.

  Notation fread := (fread num zero).
  Notation fwrite := (fwrite num).
  Notation t_copy := (t_copy num zero).
  Notation t_zero := (t_zero num isfin zero).
  Notation t_evaluate := (t_evaluate num evf).
  Notation t_loop := (t_loop num sub absf ltb isfin zero evf).
  Notation t_solve_t := (t_solve_t num sub absf ltb isfin zero evf).
  Notation w_solve_t := (w_solve_t num sub absf ltb isfin zero evf).

  Variable fm : fmod.
  Variable sh : list nat.            (* array lengths of the values matrix: one entry per variable *)
  Variable idx : Z.                  (* one-based column of the period being solved *)
  Variable W : nat -> nat -> Prop.   (* what the equations block may write *)

  Let pcol : nat := Z.to_nat (idx - 1).
  (* the frame of the compiled code: W, and the module's endogenous rows at the period itself *)
  Definition WF (i j : nat) : Prop := W i j \/ (In (Z.of_nat i + 1) (fm_endo fm) /\ j = pcol).

  Hypothesis Hcol : 1 <= idx <= Z.of_nat (hd 0%nat sh).
  Hypothesis Hrows : forall r, In r (fm_endo fm) -> 1 <= r <= Z.of_nat (length sh).
  Hypothesis Hevf : forall v, shape v = sh -> agree_outside W v (evf idx v).

  Lemma ncols_sh (v : vals num) : shape v = sh -> ncols_of num v = Z.of_nat (hd 0%nat sh).
  Proof. intros <-. unfold ncols_of, shape. destruct v; reflexivity. Qed.
  Lemma nrows_sh (v : vals num) : shape v = sh -> nrows_of num v = Z.of_nat (length sh).
  Proof. intros <-. unfold nrows_of. rewrite shape_length. reflexivity. Qed.

  Lemma in_range_endo (v : vals num) r : shape v = sh -> In r (fm_endo fm) -> in_range num v r idx = true.
  Proof.
    intros Hs Hr. unfold in_range. rewrite (ncols_sh v Hs), (nrows_sh v Hs). specialize (Hrows r Hr). lia.
  Qed.

  Lemma fwrite_agree (v : vals num) r x :
    shape v = sh -> In r (fm_endo fm) -> agree_outside WF v (fwrite v r idx x).
  Proof.
    intros Hs Hr. unfold FSem.fwrite. rewrite (in_range_endo v r Hs Hr).
    apply set_cell_agree. right. split; [|reflexivity].
    specialize (Hrows r Hr). replace (Z.of_nat (Z.to_nat (r - 1)) + 1) with r by lia. exact Hr.
  Qed.

  Lemma agree_shape (Wx : nat -> nat -> Prop) (v v' : vals num) : agree_outside Wx v v' -> shape v = sh -> shape v' = sh.
  Proof. intros [S _] H. congruence. Qed.

  Lemma copy_fold_agree loc : forall l0 (v : vals num),
    (forall r, In r l0 -> In r (fm_endo fm)) -> shape v = sh ->
    agree_outside WF v (fold_left (fun v r => fwrite v r idx (fread v r loc)) l0 v).
  Proof.
    induction l0 as [|r l0 IH]; intros v Hsub Hs; cbn [fold_left]; [apply agree_refl|].
    pose proof (fwrite_agree v r (fread v r loc) Hs (Hsub r (or_introl eq_refl))) as A.
    eapply agree_trans; [exact A|]. apply IH; [intros r' Hr'; apply Hsub; right; exact Hr'|].
    exact (agree_shape _ _ _ A Hs).
  Qed.
  Lemma t_copy_agree (v : vals num) loc : shape v = sh -> agree_outside WF v (t_copy fm v idx loc).
  Proof. intros Hs. unfold FSolve.t_copy. apply copy_fold_agree; auto. Qed.

  Lemma zero_fold_agree : forall l0 (v : vals num),
    (forall r, In r l0 -> In r (fm_endo fm)) -> shape v = sh ->
    agree_outside WF v (fold_left (fun v r => if isfin (fread v r idx) then v else fwrite v r idx zero) l0 v).
  Proof.
    induction l0 as [|r l0 IH]; intros v Hsub Hs; cbn [fold_left]; [apply agree_refl|].
    assert (Hsub' : forall r', In r' l0 -> In r' (fm_endo fm)) by (intros r' Hr'; apply Hsub; right; exact Hr').
    destruct (isfin (fread v r idx)); [apply IH; assumption|].
    pose proof (fwrite_agree v r zero Hs (Hsub r (or_introl eq_refl))) as A.
    eapply agree_trans; [exact A|]. apply IH; [exact Hsub'|exact (agree_shape _ _ _ A Hs)].
  Qed.
  Lemma t_zero_agree (v : vals num) : shape v = sh -> agree_outside WF v (t_zero fm v idx).
  Proof. intros Hs. unfold FSolve.t_zero. apply zero_fold_agree; auto. Qed.

  Lemma t_index_idem_sh (v : vals num) : t_index (ncols_of num v) idx = idx.
  Proof. unfold t_index. destruct (idx <? 1) eqn:E; lia. Qed.

  Lemma t_evaluate_agree (v : vals num) : shape v = sh -> agree_outside WF v (fst (t_evaluate fm v idx)).
  Proof.
    intros Hs. unfold FSolve.t_evaluate. rewrite t_index_idem_sh.
    destruct (t_guard fm (ncols_of num v) idx =? 0); cbn [fst]; [|apply agree_refl].
    eapply agree_mono; [|apply Hevf; exact Hs]. intros i j H. left. exact H.
  Qed.

  Lemma t_loop_agree ec mi ma tl cv : forall n k (v : vals num) cur code,
    shape v = sh -> agree_outside WF v (fo_vals (t_loop fm ec mi ma tl cv idx n k v cur code)).
  Proof.
    induction n as [|n IH]; intros k v cur code Hs; cbn [FSolve.t_loop]; [apply agree_refl|].
    pose proof (t_evaluate_agree v Hs) as A.
    destruct (t_evaluate fm v idx) as [v' c'] eqn:E. cbn [fst] in A.
    pose proof (agree_shape _ _ _ A Hs) as Hs'.
    assert (R : forall k' cur' code', agree_outside WF v (fo_vals (t_loop fm ec mi ma tl cv idx n k' v' cur' code'))).
    { intros. eapply agree_trans; [exact A|]. apply IH. exact Hs'. }
    assert (RZ : forall k' cur' code', agree_outside WF v (fo_vals (t_loop fm ec mi ma tl cv idx n k' (t_zero fm v' idx) cur' code'))).
    { intros. pose proof (t_zero_agree v' Hs') as Z0.
      eapply agree_trans; [exact A|]. eapply agree_trans; [exact Z0|]. apply IH. exact (agree_shape _ _ _ Z0 Hs'). }
    destruct (negb (c' =? 0)); [exact A|].
    assert (J : agree_outside WF v
                  (fo_vals (if k <? mi then t_loop fm ec mi ma tl cv idx n (k + 1) v' (col_of num zero v' cv idx) c'
                            else if conv num sub absf ltb tl (col_of num zero v' cv idx) cur then mkFout v' true k c'
                            else t_loop fm ec mi ma tl cv idx n (k + 1) v' (col_of num zero v' cv idx) c'))).
    { destruct (k <? mi); [apply R|]. destruct (conv num sub absf ltb tl (col_of num zero v' cv idx) cur); [exact A|apply R]. }
    destruct (negb (all_finite num isfin (col_of num zero v' (fm_endo fm) idx))); [|exact J].
    destruct (ec =? c_ec_raise); [exact A|]. destruct (ec =? c_ec_skip); [exact A|].
    destruct (ec =? c_ec_ignore); [apply R|].
    destruct (ec =? c_ec_replace); [|exact J].
    destruct (k <? ma); [apply RZ|apply R].
  Qed.

  (* the compiled subroutine as a whole, called with the one-based (possibly wrapped) index t1 that normalises to idx *)
  Lemma t_solve_t_agree (v : vals num) t1 mi ma tl off cv ec :
    shape v = sh -> t_index (ncols_of num v) t1 = idx ->
    agree_outside WF v (fo_vals (t_solve_t fm v t1 mi ma tl off cv ec)).
  Proof.
    intros Hs Hi. unfold FSolve.t_solve_t. rewrite Hi.
    destruct (negb (t_guard fm (ncols_of num v) idx =? 0)); [apply agree_refl|].
    destruct (off =? 0).
    - destruct ((ec =? c_ec_raise) && negb (all_finite num isfin (col_of num zero v cv idx))); [apply agree_refl|].
      apply t_loop_agree. exact Hs.
    - destruct (idx + off <? 1); [apply agree_refl|]. destruct (ncols_of num v <? idx + off); [apply agree_refl|].
      pose proof (t_copy_agree v (idx + off) Hs) as C.
      destruct ((ec =? c_ec_raise) && negb (all_finite num isfin (col_of num zero (t_copy fm v idx (idx + off)) cv idx))); [exact C|].
      eapply agree_trans; [exact C|]. apply t_loop_agree. exact (agree_shape _ _ _ C Hs).
  Qed.
End FortranFrame.

Section FortranFrameWrapper.
  Variable num : Type.
  Variables (sub : num -> num -> num) (absf : num -> num) (ltb : num -> num -> bool)
            (isfin : num -> bool) (zero : num).
  Variable evf : Z -> vals num -> vals num.
  Notation w_solve_t := (w_solve_t num sub absf ltb isfin zero evf).

  Lemma stampz_sf (s : mstate num) v p x k : sf_frame p s (stampz num s v p x k).
  Proof. eapply sf_frame_upd; reflexivity. Qed.
  Lemma setvals_sf (s : mstate num) v p : sf_frame p s (setvals num s v).
  Proof. apply sf_frame_same; reflexivity. Qed.

  (* THE FRAME THEOREM OF THE FORTRAN ENGINE.  For every equations block that writes only inside W, every option set,
     both spellings of t, feasible or not: FortranEngine.solve_t changes no value cell outside W and the endogenous rows
     (the instance's list, used by the wrapper's offset copy, and the module's list, used by the compiled code) of
     period p; status and iterations change at p only; the event log not at all. *)
  Theorem fortran_solve_t_frame (fm : fmod) d o t s p (W : nat -> nat -> Prop) :
    py_pos (length (status s)) t = Some p ->
    hd 0%nat (shape (vals_of s)) = length (status s) ->
    (forall r, In r (fm_endo fm) -> 1 <= r <= Z.of_nat (length (vals_of s))) ->
    (forall v, shape v = shape (vals_of s) -> agree_outside W v (evf (Z.of_nat p + 1) v)) ->
    let s' := fst (w_solve_t fm d o t s) in
    agree_outside (fun i j => W i j \/ ((In i (endo d) \/ In (Z.of_nat i + 1) (fm_endo fm)) /\ j = p)) (vals_of s) (vals_of s') /\
    sf_frame p s s' /\ log s' = log s.
  Proof.
    intros Hp Hcols Hrows Hevf. cbv zeta. unfold FSolve.w_solve_t.
    set (WW := fun i j => W i j \/ ((In i (endo d) \/ In (Z.of_nat i + 1) (fm_endo fm)) /\ j = p)).
    assert (Same : agree_outside WW (vals_of s) (vals_of s) /\ sf_frame p s s /\ log s = log s).
    { split; [apply agree_refl|]. split; [apply sf_frame_same; reflexivity|reflexivity]. }
    destruct (max_iter o <? min_iter o); [exact Same|].
    destruct (w_ec (errors o)) as [ec|]; [|exact Same]. rewrite Hp.
    assert (Hlt : (p < length (status s))%nat) by (apply py_pos_inv in Hp; lia).
    match goal with |- context [match ?pre with inl _ => _ | inr _ => _ end] => destruct pre as [v0|e] eqn:Epre end; [|exact Same].
    assert (Hv0 : agree_outside WW (vals_of s) v0).
    { destruct (offset o =? 0); [inversion Epre; subst; apply agree_refl|].
      destruct (Z.of_nat p + offset o <? 0); [discriminate|].
      destruct (Z.of_nat (length (status s)) <=? Z.of_nat p + offset o); [discriminate|].
      inversion Epre; subst. eapply agree_mono; [|apply copy_endo_agree].
      intros i j [Hi Hj]. right. split; [left; exact Hi|exact Hj]. }
    assert (Hs0 : shape v0 = shape (vals_of s)) by (destruct Hv0 as [S _]; exact S).
    destruct (is_raise (errors o) && negb (all_finite num isfin (get_check num zero d v0 p))).
    { cbn [fst setvals vals_of log]. split; [exact Hv0|]. split; [apply setvals_sf|reflexivity]. }
    (* the compiled call *)
    assert (Hidx : t_index (ncols_of num v0) (t + 1) = Z.of_nat p + 1).
    { replace (ncols_of num v0) with (Z.of_nat (length (status s))).
      - apply f_index_pos. exact Hp.
      - rewrite <- Hcols, <- Hs0. unfold ncols_of, shape. destruct v0; reflexivity. }
    pose proof (t_solve_t_agree num sub absf ltb isfin zero evf fm (shape (vals_of s)) (Z.of_nat p + 1) W
                  ltac:(rewrite Hcols; lia)
                  ltac:(intros r Hr; rewrite shape_length; apply Hrows; exact Hr)
                  Hevf v0 (t + 1) (min_iter o) (max_iter o) (tol o) (offset o) (cv_of d) ec Hs0 Hidx) as A.
    set (r := FSolve.t_solve_t num sub absf ltb isfin zero evf fm v0 (t + 1) (min_iter o) (max_iter o) (tol o) (offset o) (cv_of d) ec) in *.
    assert (Hr : agree_outside WW (vals_of s) (fo_vals r)).
    { eapply agree_trans; [exact Hv0|]. eapply agree_mono; [|exact A].
      intros i j [Hw|[Hi Hj]]; [left; exact Hw|]. right. split; [right; exact Hi|].
      rewrite Hj. replace (Z.of_nat p + 1 - 1) with (Z.of_nat p) by lia. apply Nat2Z.id. }
    cbv zeta.
    destruct (fo_code r =? w_t_ok).
    { destruct (st_eqb (if fo_conv r then Solved else Failed) Failed && fail_raise o); cbn [fst stampz vals_of log];
        (split; [exact Hr|]); (split; [apply stampz_sf|reflexivity]). }
    destruct ((fo_code r =? w_t_raise) && is_raise (errors o)).
    { cbn [fst stampz vals_of log]. split; [exact Hr|]. split; [apply stampz_sf|reflexivity]. }
    destruct ((fo_code r =? w_t_skip) && is_skip (errors o)).
    { cbn [fst stampz vals_of log]. split; [exact Hr|]. split; [apply stampz_sf|reflexivity]. }
    cbn [fst setvals vals_of log]. split; [exact Hr|]. split; [apply setvals_sf|reflexivity].
  Qed.
End FortranFrameWrapper.

(* ---- every generated {equations} block meets the frame premise: the compiled statements of FSem.f_pass write only
   solved_values(number of the left-hand variable, index) — for every program whose left-hand rows exist ---- *)
Section FortranParsedFrame.
  Variable num : Type.
  Variables (add sub mul div : num -> num -> num) (neg absf : num -> num) (ltb : num -> num -> bool).
  Variable of_int : Z -> num.
  Variables (fexp flog : num -> num) (fpow : num -> num -> num).
  Variable round4 : num -> num.
  Variables (exp4 log4 : num -> num) (pow4 : num -> num -> num).
  Variables (zero one : num).
  Notation f_pass := (f_pass num add sub mul div neg absf ltb of_int fexp flog fpow round4 exp4 log4 pow4 zero one).

  (* cells the block may write for the one-based column idx *)
  Definition f_written (prog : list (eqn num)) (idx : Z) (i j : nat) : Prop :=
    (exists e, In (i, e) prog) /\ j = Z.to_nat (idx - 1).

  Theorem f_pass_frame (sh : list nat) (idx : Z) : forall (prog : list (eqn num)) (v : vals num),
    1 <= idx <= Z.of_nat (hd 0%nat sh) ->
    (forall i e, In (i, e) prog -> (i < length sh)%nat) ->
    shape v = sh -> agree_outside (f_written prog idx) v (f_pass prog idx v).
  Proof.
    induction prog as [|[i e] r IH]; intros v Hcol Hrows Hs; cbn [FSem.f_pass]; [apply agree_refl|].
    assert (Hr' : forall i' e', In (i', e') r -> (i' < length sh)%nat) by (intros i' e' H; apply (Hrows i' e'); right; exact H).
    assert (Mono : forall v1 v2 : vals num, agree_outside (f_written r idx) v1 v2 -> agree_outside (f_written ((i, e) :: r) idx) v1 v2).
    { intros v1 v2. apply agree_mono. intros i' j' [(e' & He') Hj]. split; [exists e'; right; exact He'|exact Hj]. }
    destruct (f_eval num add sub mul div neg absf ltb of_int fexp flog fpow round4 exp4 log4 pow4 one
                (rd_f num zero v idx) (f_regroup num e)) as [x|].
    - assert (A : agree_outside (f_written ((i, e) :: r) idx) v (fwrite num v (Z.of_nat i + 1) idx (to8 num of_int x))).
      { unfold FSem.fwrite.
        assert (R : in_range num v (Z.of_nat i + 1) idx = true).
        { unfold in_range, nrows_of, ncols_of. pose proof (Hrows i e (or_introl eq_refl)) as Hi.
          replace (length v) with (length sh) by (rewrite <- Hs; apply shape_length).
          replace (length (hd [] v)) with (hd 0%nat sh) by (rewrite <- Hs; destruct v; reflexivity). lia. }
        rewrite R. apply set_cell_agree. split; [exists e; left; f_equal; lia|reflexivity]. }
      eapply agree_trans; [exact A|]. apply Mono. apply IH; [exact Hcol|exact Hr'|].
      destruct A as [S _]. congruence.
    - apply Mono. apply IH; assumption.
  Qed.
End FortranParsedFrame.
