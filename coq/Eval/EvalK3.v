(* EvalK3.v — K for linkers over parser-built submodels: Linker.linker_solve_t_M (builder of C08) instantiated with the
   generated evaluation pass of each submodel (EvalLinker.lsev: as BaseLinker.evaluate_t runs it, warnings never raised) and
   `pass` linker hooks, on binary64, compared with the real BaseLinker.solve_t: values, status and iterations of the core and
   of every submodel, and the outcome.  Definitions only. *)
From Coq Require Import PrimFloat ZArith List Bool.
Import ListNotations.
Require Import PyBase Solver SolverF Linker Eval EvalF EvalLinker EvalK2.
Open Scope Z_scope.

Fixpoint prog_of (ps : list (nat * fprogram)) (j : nat) : fprogram :=
  match ps with [] => [] | (i, p) :: r => if Nat.eqb i j then p else prog_of r j end.

Definition F_lsev (tb : otable) (ps : list (nat * fprogram)) : sid -> hook float :=
  lsev float PrimFloat.add PrimFloat.sub PrimFloat.mul PrimFloat.div (olookup tb pow_id) PrimFloat.opp PrimFloat.abs
       PrimFloat.ltb PrimFloat.leb PrimFloat.eqb fzero (fun f x => olookup tb f x fzero) (olookup tb) fflagged (prog_of ps).

Definition F_linker_solve_t (tb : otable) (ps : list (nat * fprogram)) :=
  linker_solve_t_M float PrimFloat.sub PrimFloat.abs PrimFloat.ltb fzero (F_lsev tb ps)
                   (lpass float) (lpass float) (lpass float) (lpass float).

(* values, status, iterations (the private hook-event logs are not observed on this engine) *)
Definition comp_eqb3 (a b : comp float) : bool :=
  list_eqb (list_eqb feq_bits) (vals_of (c_st a)) (vals_of (c_st b))
  && list_eqb st_eqb (status (c_st a)) (status (c_st b)) && list_eqb Z.eqb (iters (c_st a)) (iters (c_st b)).
Definition lstate_eqb3 (a b : lstate float) : bool :=
  comp_eqb3 (l_core a) (l_core b)
  && list_eqb (fun x y => Nat.eqb (fst x) (fst y) && comp_eqb3 (snd x) (snd y)) (l_subs a) (l_subs b).
Definition lout_eqb3 (a b : lout) : bool :=
  match a, b with
  | LRet x, LRet y => Bool.eqb x y
  | LRaise (LExn x), LRaise (LExn y) => exn_eqb x y
  | LRaise (LUser x), LRaise (LUser y) => Z.eqb x y
  | _, _ => false
  end.

Record lkcase := mkLK {
  lk_tab : otable; lk_progs : list (nat * fprogram); lk_sel : option (list nat); lk_opts : fopts; lk_t : Z;
  lk_state : lstate float; lkx_state : lstate float; lkx_out : lout }.

Definition check_lkcase (c : lkcase) : bool :=
  let '(s', r) := F_linker_solve_t (lk_tab c) (lk_progs c) (lk_sel c) (lk_opts c) (lk_t c) (lk_state c) in
  lstate_eqb3 s' (lkx_state c) && lout_eqb3 r (lkx_out c).

Inductive kcase4 : Type := K3 (c : kcase3) | KLk (c : lkcase).
Definition check_kcase4 (c : kcase4) : bool :=
  match c with K3 c => check_kcase3 c | KLk c => check_lkcase c end.

(* ---- label entry points on every supported span type: solve_period(label) and solve(start=, end=) with the lookup model
   Solver/SolveAllSpan.locate_span (list / tuple / range -> SpList, NumPy array -> SpArray, pandas Index -> SpIndex) ---- *)
Require Import SolveAll SolveAllSpan EvalSolveAll EvalSolveSpan.

Definition kind_of (k : nat) : spankind := match k with O => SpList | S O => SpArray | _ => SpIndex end.

Definition F_solve_period_P (tb : otable) (k : nat) (span : list Z) :=
  solve_period_P float PrimFloat.add PrimFloat.sub PrimFloat.mul PrimFloat.div (olookup tb pow_id) PrimFloat.opp PrimFloat.abs
                 PrimFloat.ltb PrimFloat.leb PrimFloat.eqb fzero (fun f x => olookup tb f x fzero) (olookup tb) fflagged fisfin
                 Z (locate_span (kind_of k) span).
Definition F_solve_P_kind (tb : otable) (k : nat) (span : list Z) :=
  solve_P float PrimFloat.add PrimFloat.sub PrimFloat.mul PrimFloat.div (olookup tb pow_id) PrimFloat.opp PrimFloat.abs
          PrimFloat.ltb PrimFloat.leb PrimFloat.eqb fzero (fun f x => olookup tb f x fzero) (olookup tb) fflagged fisfin
          Z (locate_span (kind_of k) span).

Record spcase := mkSP {
  sp_tab : otable; sp_prog : fprogram; sp_desc : mdesc; sp_opts : fopts; sp_kind : nat; sp_span : list Z; sp_lab : Z;
  sp_state : fstate; spx_state : fstate; spx_out : outcome bool }.
Definition check_spcase (c : spcase) : bool :=
  let '(s', r) := F_solve_period_P (sp_tab c) (sp_kind c) (sp_span c) (sp_prog c) (sp_desc c) (sp_opts c) (sp_lab c) (sp_state c) in
  state_eqb s' (spx_state c) && out_eqb r (spx_out c) && hyp_ok (sp_prog c) (sp_desc c).

(* solve() on a span of the given kind with explicit labels (e_n of the embedded ecase is ignored) *)
Record ekcase := mkEK { ek_kind : nat; ek_span : list Z; ek_e : ecase }.
Definition check_ekcase (c : ekcase) : bool :=
  let e := ek_e c in
  let '(s', r) := F_solve_P_kind (e_tab e) (ek_kind c) (ek_span c) (e_prog e) (e_desc e) (e_opts e) (ek_span c) (e_start e) (e_end e) (e_state e) in
  state_eqb s' (ex_state e) && out3_eqb (visits_out r) (ex_out e) && hyp_ok (e_prog e) (e_desc e).

Inductive kcase5 : Type := K4 (c : kcase4) | KSP (c : spcase) | KEK (c : ekcase).
Definition check_kcase5 (c : kcase5) : bool :=
  match c with K4 c => check_kcase4 c | KSP c => check_spcase c | KEK c => check_ekcase c end.
