(* EvalFacts.v — theorems about the evaluation model (Eval.v) and its composition with the
   solver model (Solver.v): for every number type, every arithmetic, every program. *)
From Coq Require Import ZArith List Bool Lia.
Import ListNotations.
Require Import PyBase Solver SolverFacts Eval.
Open Scope Z_scope.

(* ------------------------------------------------------------------------------------------ *)
(* Part 1: stores — shape, "equal outside a set of cells"                                      *)
(* ------------------------------------------------------------------------------------------ *)
Section Stores.
  Variable num : Type.
  Notation vals := (vals num).

  Definition shape (v : vals) : list nat := map (@length num) v.
  (* cells (i, q) outside W hold the same thing (or are both absent) *)
  Definition cells_eq_outside (W : nat -> nat -> Prop) (v v' : vals) : Prop :=
    forall i q, ~ W i q -> nth_error (nth i v' []) q = nth_error (nth i v []) q.
  Definition agree_outside (W : nat -> nat -> Prop) (v v' : vals) : Prop :=
    shape v' = shape v /\ cells_eq_outside W v v'.
  (* every variable has n periods *)
  Definition wf_vals (n : nat) (v : vals) : Prop := forall i, (i < length v)%nat -> length (nth i v []) = n.

  Lemma shape_length v : length (shape v) = length v.
  Proof. apply map_length. Qed.

  Lemma shape_nth v i : nth i (shape v) 0%nat = length (nth i v []).
  Proof. unfold shape. change 0%nat with (@length num []). apply map_nth. Qed.

  Lemma shape_eq_length v v' : shape v' = shape v -> length v' = length v.
  Proof. intros H. rewrite <- (shape_length v), <- (shape_length v'), H. reflexivity. Qed.

  Lemma shape_eq_row v v' i : shape v' = shape v -> length (nth i v' []) = length (nth i v []).
  Proof. intros H. rewrite <- !shape_nth, H. reflexivity. Qed.

  Lemma wf_vals_shape n v v' : shape v' = shape v -> wf_vals n v -> wf_vals n v'.
  Proof.
    intros H Hw i Hi. rewrite (shape_eq_row v v' i H). apply Hw. rewrite <- (shape_eq_length v v' H). exact Hi.
  Qed.

  Lemma agree_refl W v : agree_outside W v v.
  Proof. split; [reflexivity|intros i q _; reflexivity]. Qed.

  Lemma agree_trans W v1 v2 v3 : agree_outside W v1 v2 -> agree_outside W v2 v3 -> agree_outside W v1 v3.
  Proof.
    intros [S1 C1] [S2 C2]. split; [congruence|]. intros i q H. rewrite (C2 i q H). apply C1; exact H.
  Qed.

  Lemma agree_mono (W W' : nat -> nat -> Prop) v v' :
    (forall i q, W i q -> W' i q) -> agree_outside W v v' -> agree_outside W' v v'.
  Proof. intros HW [S C]. split; [exact S|]. intros i q H. apply C. intros HWi. apply H, HW, HWi. Qed.

  Lemma nth_error_ext' {A} (l l' : list A) : (forall q, nth_error l q = nth_error l' q) -> l = l'.
  Proof.
    revert l'; induction l as [|a l IH]; intros [|b l'] H; auto.
    - specialize (H 0%nat); discriminate.
    - specialize (H 0%nat); discriminate.
    - pose proof (H 0%nat) as H0. inversion H0; subst. f_equal. apply IH. intros q. apply (H (S q)).
  Qed.

  (* a whole row outside W is identical *)
  Lemma agree_row_eq W v v' i : agree_outside W v v' -> (forall q, ~ W i q) -> nth i v' [] = nth i v [].
  Proof.
    intros [S C] H. apply nth_error_ext'. intros q. apply C, H.
  Qed.

  Lemma upd_nth_same {A} i (l : list A) d : upd i (nth i l d) l = l.
  Proof. revert i; induction l as [|a l IH]; intros [|i]; simpl; auto. f_equal. apply IH. Qed.

  Lemma nth_upd_row (i j : nat) (r : list num) (v : vals) :
    nth j (upd i r v) [] = if (Nat.eqb i j && (i <? length v)%nat) then r else nth j v [].
  Proof.
    revert i j; induction v as [|a v IH]; intros i j.
    - replace (i <? length (@nil (list num)))%nat with false by (symmetry; apply Nat.ltb_ge; cbn; lia).
      rewrite andb_false_r. destruct i; reflexivity.
    - destruct i as [|i], j as [|j]; cbn [upd nth Nat.eqb andb]; try reflexivity.
      rewrite IH. replace (S i <? length (a :: v))%nat with (i <? length v)%nat; [reflexivity|].
      cbn [length]. destruct (i <? length v)%nat eqn:E; symmetry.
      + apply Nat.ltb_lt in E. apply Nat.ltb_lt. lia.
      + apply Nat.ltb_ge in E. apply Nat.ltb_ge. lia.
  Qed.

  Lemma shape_upd_row (v : vals) i (r : list num) :
    length r = length (nth i v []) -> shape (upd i r v) = shape v.
  Proof.
    unfold shape. revert i. induction v as [|a v IH]; intros [|i] H; simpl in *; auto.
    - congruence.
    - f_equal. apply IH. exact H.
  Qed.

  Lemma shape_set_cell (v : vals) i p (x : num) : shape (set_cell num v i p x) = shape v.
  Proof. unfold set_cell. apply shape_upd_row. apply upd_length. Qed.

  (* set_cell changes at most the cell (i, p) *)
  Lemma set_cell_other (v : vals) i p (x : num) j q :
    (j, q) <> (i, p) -> nth_error (nth j (set_cell num v i p x) []) q = nth_error (nth j v []) q.
  Proof.
    intros Hne. unfold set_cell. rewrite nth_upd_row.
    destruct (Nat.eqb i j && (i <? length v)%nat) eqn:E; [|reflexivity].
    apply andb_true_iff in E as [E _]. apply Nat.eqb_eq in E. subst j.
    apply nth_error_upd_neq. intros ->. apply Hne. reflexivity.
  Qed.

  Lemma set_cell_agree (W : nat -> nat -> Prop) (v : vals) i p (x : num) :
    W i p -> agree_outside W v (set_cell num v i p x).
  Proof.
    intros HW. split; [apply shape_set_cell|]. intros j q Hn. apply set_cell_other.
    intros Heq. inversion Heq; subst. apply Hn, HW.
  Qed.

  (* the offset block of solve_t: copies of the endogenous cells of another period into period p *)
  Lemma copy_endo_agree zero (d : mdesc) (v : vals) p q :
    agree_outside (fun i j => In i (endo d) /\ j = p) v (copy_endo num zero d v p q).
  Proof.
    unfold copy_endo. generalize (endo d) as l. intros l.
    assert (G : forall l0 v0, (forall i, In i l0 -> In i l) ->
              agree_outside (fun i j => In i l /\ j = p) v0
                (fold_left (fun v1 i => set_cell num v1 i p (cell num zero v1 i q)) l0 v0)).
    { induction l0 as [|a l0 IH]; intros v0 Hs; cbn [fold_left]; [apply agree_refl|].
      eapply agree_trans; [|apply IH; intros i Hi; apply Hs; right; exact Hi].
      apply set_cell_agree. split; [apply Hs; left; reflexivity|reflexivity]. }
    apply G. auto.
  Qed.
End Stores.

Arguments shape {num}. Arguments cells_eq_outside {num}. Arguments agree_outside {num}. Arguments wf_vals {num}.

(* ------------------------------------------------------------------------------------------ *)
(* Part 2: the solver touches only what its oracles touch — for EVERY oracle                   *)
(* ------------------------------------------------------------------------------------------ *)
Section SolverFrame.
  Variable num : Type.
  Variables (sub : num -> num -> num) (absf : num -> num) (ltb : num -> num -> bool)
            (isfin : num -> bool) (zero : num).

  (* the frame condition on an oracle (evaluation pass or hook) called for period t on stores of shape sh:
     it preserves the shape and leaves every cell outside W as it was *)
  Definition hook_frame (sh : list nat) (W : nat -> nat -> Prop) (h : hook num) (t : Z) : Prop :=
    forall em cf k v, shape v = sh -> agree_outside W v (fst (h t em cf k v)).

  Definition lres_vals (r : lres num) : vals num :=
    match r with LDone v _ _ _ => v | LRaise v _ _ _ => v end.

  (* status / iterations: same length, and untouched at every position other than p *)
  Definition sf_frame (p : nat) (s s' : mstate num) : Prop :=
    length (status s') = length (status s) /\ length (iters s') = length (iters s) /\
    forall q, q <> p -> nth_error (status s') q = nth_error (status s) q /\
                        nth_error (iters s') q = nth_error (iters s) q.

  Lemma sf_frame_same p s s' : status s' = status s -> iters s' = iters s -> sf_frame p s s'.
  Proof. intros H1 H2. unfold sf_frame. rewrite H1, H2. repeat split; reflexivity. Qed.

  Lemma sf_frame_upd p s s' x k :
    status s' = upd p x (status s) -> iters s' = upd p k (iters s) -> sf_frame p s s'.
  Proof.
    intros H1 H2. unfold sf_frame. rewrite H1, H2, !upd_length. repeat split; try reflexivity;
      apply nth_error_upd_neq; auto.
  Qed.

  Section WithOracles.
    Variables (ev before after : hook num).
    Notation loop := (loop num sub absf ltb isfin zero ev after).
    Notation solve_t_M := (solve_t_M num sub absf ltb isfin zero ev before after).

    Lemma loop_frame sh W d o t p :
      hook_frame sh W ev t -> hook_frame sh W after t ->
      forall n k v cur lg, shape v = sh -> agree_outside W v (lres_vals (loop d o t p n k v cur lg)).
    Proof.
      intros Hev Haft. induction n as [|n IH]; intros k v cur lg Hsh; cbn [Solver.loop].
      - apply agree_refl.
      - pose proof (Hev (errors o) (catch_first o) k v Hsh) as Hv'.
        destruct (ev t (errors o) (catch_first o) k v) as [v' r] eqn:E. cbn [fst] in Hv'.
        assert (Hsh' : shape v' = sh) by (destruct Hv' as [S _]; congruence).
        assert (Hrec : forall cur' lg', agree_outside W v (lres_vals (loop d o t p n (S k) v' cur' lg'))).
        { intros cur' lg'. eapply agree_trans; [exact Hv'|]. apply IH. exact Hsh'. }
        destruct r as [c|]; [exact Hv'|].
        destruct (negb (all_finite num isfin cur)); [apply Hrec|].
        destruct (negb (all_finite num isfin (get_check num zero d v' p))).
        + destruct (errors o); try exact Hv'; destruct n; try exact Hv'; apply Hrec.
        + destruct (Z.of_nat k <? min_iter o); [apply Hrec|].
          destruct (conv num sub absf ltb (tol o) (get_check num zero d v' p) cur); [|apply Hrec].
          pose proof (Haft (errors o) (catch_first o) k v' Hsh') as Hx.
          destruct (after t (errors o) (catch_first o) k v') as [v'' [c|]]; cbn [fst] in Hx; cbn [lres_vals];
            (eapply agree_trans; [exact Hv'|exact Hx]).
    Qed.

    Lemma finish_vals o s p r : vals_of (fst (finish num o s p r)) = lres_vals r.
    Proof.
      destruct r as [v x k lg|v wr e lg]; cbn [Solver.finish lres_vals].
      - destruct (st_eqb x Failed && fail_raise o); reflexivity.
      - destruct wr as [[x k]|]; reflexivity.
    Qed.

    Lemma finish_sf o s p r : sf_frame p s (fst (finish num o s p r)).
    Proof.
      destruct r as [v x k lg|v wr e lg]; cbn [Solver.finish].
      - destruct (st_eqb x Failed && fail_raise o); cbn [fst]; eapply sf_frame_upd; reflexivity.
      - destruct wr as [[x k]|]; cbn [fst]; [eapply sf_frame_upd; reflexivity|apply sf_frame_same; reflexivity].
    Qed.

    (* a period outside the span altogether: nothing changes *)
    Theorem solve_t_out_of_span_no_change d o t s :
      py_pos (length (status s)) t = None -> fst (solve_t_M d o t s) = s.
    Proof.
      intros Hp. unfold Solver.solve_t_M. destruct (max_iter o <? min_iter o); [reflexivity|]. rewrite Hp. reflexivity.
    Qed.

    (* THE FRAME THEOREM of solve_t, for all options, stores and oracles meeting the frame condition:
       values change only inside W (what the oracles may touch) and — when an offset is given — in the
       endogenous cells of period p; status and iterations change at p only. *)
    Theorem solve_t_frame d o t s p W :
      py_pos (length (status s)) t = Some p ->
      hook_frame (shape (vals_of s)) W ev t ->
      hook_frame (shape (vals_of s)) W before t ->
      hook_frame (shape (vals_of s)) W after t ->
      let s' := fst (solve_t_M d o t s) in
      agree_outside (fun i q => W i q \/ (offset o <> 0 /\ In i (endo d) /\ q = p)) (vals_of s) (vals_of s') /\
      sf_frame p s s'.
    Proof.
      intros Hp Hev Hbef Haft. cbv zeta. unfold Solver.solve_t_M.
      destruct (max_iter o <? min_iter o); [split; [apply agree_refl|apply sf_frame_same; reflexivity]|].
      rewrite Hp.
      destruct (negb (feasible d (length (status s)) p)); [split; [apply agree_refl|apply sf_frame_same; reflexivity]|].
      set (W' := fun i q => W i q \/ (offset o <> 0 /\ In i (endo d) /\ q = p)).
      assert (HWW' : forall i q, W i q -> W' i q) by (intros i q H; left; exact H).
      match goal with |- context [match ?pre with inl _ => _ | inr _ => _ end] => destruct pre as [v0|e] eqn:Epre end.
      2:{ split; [apply agree_refl|apply sf_frame_same; reflexivity]. }
      assert (Hv0 : agree_outside W' (vals_of s) v0).
      { destruct (offset o =? 0) eqn:Eo.
        - inversion Epre; subst. apply agree_refl.
        - destruct (Z.of_nat p + offset o <? 0); [discriminate|].
          destruct (Z.of_nat (length (status s)) <=? Z.of_nat p + offset o); [discriminate|].
          inversion Epre; subst. eapply agree_mono; [|apply copy_endo_agree].
          intros i q [Hi Hq]. right. split; [lia|split; assumption]. }
      assert (Hsh0 : shape v0 = shape (vals_of s)) by (destruct Hv0 as [S _]; exact S).
      destruct (is_raise (errors o) && negb (all_finite num isfin (get_check num zero d v0 p))).
      { cbn [fst with_vals vals_of]. split; [exact Hv0|apply sf_frame_same; reflexivity]. }
      pose proof (Hbef (errors o) (catch_first o) 0%nat v0 Hsh0) as Hv1.
      destruct (before t (errors o) (catch_first o) 0%nat v0) as [v1 [c|]]; cbn [fst] in Hv1.
      { cbn [fst with_vals vals_of]. split; [|apply sf_frame_same; reflexivity].
        eapply agree_trans; [exact Hv0|]. eapply agree_mono; [exact HWW'|exact Hv1]. }
      assert (Hsh1 : shape v1 = shape (vals_of s)) by (destruct Hv1 as [S _]; congruence).
      split; [|apply finish_sf].
      rewrite finish_vals.
      eapply agree_trans; [exact Hv0|]. eapply agree_trans; [eapply agree_mono; [exact HWW'|exact Hv1]|].
      eapply agree_mono; [exact HWW'|]. apply (loop_frame _ W d o t p Hev Haft). exact Hsh1.
    Qed.

    (* ---- calls rejected up front change nothing at all ---- *)
    Theorem infeasible_period_rejected d o t s p :
      min_iter o <= max_iter o ->
      py_pos (length (status s)) t = Some p -> feasible d (length (status s)) p = false ->
      solve_t_M d o t s = (s, Raise IndexError).
    Proof.
      intros Hmm Hp Hf. unfold Solver.solve_t_M. replace (max_iter o <? min_iter o) with false by lia.
      rewrite Hp, Hf. reflexivity.
    Qed.

    Theorem preexisting_nonfinite_no_change d o t s p :
      min_iter o <= max_iter o ->
      py_pos (length (status s)) t = Some p -> feasible d (length (status s)) p = true ->
      offset o = 0 -> errors o = ERaise ->
      all_finite num isfin (get_check num zero d (vals_of s) p) = false ->
      solve_t_M d o t s = (s, Raise (SolutionError None)).
    Proof.
      intros Hmm Hp Hf Hoff He Hnf. unfold Solver.solve_t_M.
      replace (max_iter o <? min_iter o) with false by lia. rewrite Hp, Hf, Hoff. cbn [negb Z.eqb].
      rewrite He, Hnf. cbn [is_raise negb andb]. unfold with_vals. destruct s; reflexivity.
    Qed.

    (* finding #3: with a non-zero in-span offset the copy precedes the rejection — what the call leaves behind *)
    Theorem preexisting_nonfinite_after_offset d o t s p :
      min_iter o <= max_iter o ->
      py_pos (length (status s)) t = Some p -> feasible d (length (status s)) p = true ->
      offset o <> 0 -> 0 <= Z.of_nat p + offset o < Z.of_nat (length (status s)) ->
      errors o = ERaise ->
      let v0 := copy_endo num zero d (vals_of s) p (Z.to_nat (Z.of_nat p + offset o)) in
      all_finite num isfin (get_check num zero d v0 p) = false ->
      solve_t_M d o t s = (mkState v0 (status s) (iters s) (log s), Raise (SolutionError None)).
    Proof.
      intros Hmm Hp Hf Hoff Hin He v0 Hnf. unfold Solver.solve_t_M.
      replace (max_iter o <? min_iter o) with false by lia. rewrite Hp, Hf. cbn [negb].
      replace (offset o =? 0) with false by lia.
      replace (Z.of_nat p + offset o <? 0) with false by lia.
      replace (Z.of_nat (length (status s)) <=? Z.of_nat p + offset o) with false by lia.
      fold v0. rewrite He, Hnf. reflexivity.
    Qed.
  End WithOracles.

  (* two evaluation oracles that agree on every store of the shape at hand give the same loop *)
  Lemma loop_ext (ev1 ev2 after : hook num) sh d o t p :
    (forall em cf k v, shape v = sh -> ev1 t em cf k v = ev2 t em cf k v) ->
    (forall em cf k v, shape v = sh -> shape (fst (ev2 t em cf k v)) = sh) ->
    forall n k v cur lg, shape v = sh ->
      Solver.loop num sub absf ltb isfin zero ev1 after d o t p n k v cur lg =
      Solver.loop num sub absf ltb isfin zero ev2 after d o t p n k v cur lg.
  Proof.
    intros Hext Hsh2. induction n as [|n IH]; intros k v cur lg Hsh; cbn [Solver.loop]; [reflexivity|].
    rewrite (Hext _ _ _ _ Hsh). pose proof (Hsh2 (errors o) (catch_first o) k v Hsh) as Hs'.
    destruct (ev2 t (errors o) (catch_first o) k v) as [v' [c|]]; [reflexivity|]. cbn [fst] in Hs'.
    assert (R : forall cur' lg', Solver.loop num sub absf ltb isfin zero ev1 after d o t p n (S k) v' cur' lg' =
                                 Solver.loop num sub absf ltb isfin zero ev2 after d o t p n (S k) v' cur' lg')
      by (intros; apply IH; exact Hs').
    destruct (negb (all_finite num isfin cur)); [apply R|].
    destruct (negb (all_finite num isfin (get_check num zero d v' p))).
    - destruct (errors o); try reflexivity; destruct n; try reflexivity; apply R.
    - destruct (Z.of_nat k <? min_iter o); [apply R|].
      destruct (conv num sub absf ltb (tol o) (get_check num zero d v' p) cur); [reflexivity|apply R].
  Qed.

  Lemma solve_t_ext (ev1 ev2 before after : hook num) d o t s :
    (forall em cf k v, shape v = shape (vals_of s) -> ev1 t em cf k v = ev2 t em cf k v) ->
    (forall em cf k v, shape v = shape (vals_of s) -> shape (fst (ev2 t em cf k v)) = shape (vals_of s)) ->
    (forall em cf k v, shape v = shape (vals_of s) -> shape (fst (before t em cf k v)) = shape (vals_of s)) ->
    Solver.solve_t_M num sub absf ltb isfin zero ev1 before after d o t s =
    Solver.solve_t_M num sub absf ltb isfin zero ev2 before after d o t s.
  Proof.
    intros Hext Hsh2 Hshb. unfold Solver.solve_t_M.
    destruct (max_iter o <? min_iter o); [reflexivity|].
    destruct (py_pos (length (status s)) t) as [p|]; [|reflexivity].
    destruct (negb (feasible d (length (status s)) p)); [reflexivity|].
    match goal with |- context [match ?pre with inl _ => _ | inr _ => _ end] => destruct pre as [v0|e] eqn:Epre end; [|reflexivity].
    assert (Hsh0 : shape v0 = shape (vals_of s)).
    { destruct (offset o =? 0); [inversion Epre; reflexivity|].
      destruct (Z.of_nat p + offset o <? 0); [discriminate|].
      destruct (Z.of_nat (length (status s)) <=? Z.of_nat p + offset o); [discriminate|].
      inversion Epre; subst. apply (copy_endo_agree num zero d (vals_of s) p). }
    destruct (is_raise (errors o) && negb (all_finite num isfin (get_check num zero d v0 p))); [reflexivity|].
    pose proof (Hshb (errors o) (catch_first o) 0%nat v0 Hsh0) as Hs1.
    destruct (before t (errors o) (catch_first o) 0%nat v0) as [v1 [c|]]; [reflexivity|]. cbn [fst] in Hs1.
    f_equal. apply (loop_ext ev1 ev2 after (shape (vals_of s))); assumption.
  Qed.
End SolverFrame.

Arguments hook_frame {num}. Arguments sf_frame {num}. Arguments lres_vals {num}.

(* ------------------------------------------------------------------------------------------ *)
(* Part 3: Python index arithmetic                                                             *)
(* ------------------------------------------------------------------------------------------ *)
Lemma py_pos_zero_len i : py_pos 0 i = None.
Proof.
  unfold py_pos. cbn [Z.of_nat Z.opp]. destruct (i <? 0) eqn:E1; [reflexivity|].
  replace (0 <=? i) with true by lia. reflexivity.
Qed.

Lemma py_pos_inv n t p : py_pos n t = Some p ->
  (Z.of_nat p < Z.of_nat n) /\ ((0 <= t /\ t = Z.of_nat p) \/ (t < 0 /\ t = Z.of_nat p - Z.of_nat n)).
Proof.
  unfold py_pos. destruct ((t <? - Z.of_nat n) || (Z.of_nat n <=? t)) eqn:E; [discriminate|].
  apply orb_false_iff in E as [E1 E2]. intros H; inversion H; subst; clear H.
  destruct (t <? 0) eqn:E3; lia.
Qed.

(* an index at distance k from t is served at distance k from p, provided p + k is inside the span:
   no sign change can happen on the way (this is the arithmetic heart of "reads never wrap") *)
Lemma py_pos_shift n t p k :
  py_pos n t = Some p -> 0 <= Z.of_nat p + k < Z.of_nat n ->
  py_pos n (t + k) = Some (Z.to_nat (Z.of_nat p + k)).
Proof.
  intros Hp Hk. apply py_pos_inv in Hp as [Hlt [[H0 Ht]|[H0 Ht]]].
  - rewrite py_pos_nonneg by lia. f_equal. lia.
  - rewrite py_pos_neg by lia. f_equal. lia.
Qed.

(* ... and outside it the index either wraps to the other end of the span or is out of range *)
Lemma py_pos_wraps_below n t p k :
  py_pos n t = Some p -> 0 <= t -> - Z.of_nat n <= Z.of_nat p + k < 0 ->
  py_pos n (t + k) = Some (Z.to_nat (Z.of_nat p + k + Z.of_nat n)).
Proof.
  intros Hp Ht Hk. apply py_pos_inv in Hp as [Hlt [[H0 Ht']|[H0 Ht']]]; [|lia].
  rewrite py_pos_neg by lia. f_equal. lia.
Qed.

Lemma py_pos_wraps_above n t p k :
  py_pos n t = Some p -> t < 0 -> Z.of_nat n <= Z.of_nat p + k < 2 * Z.of_nat n ->
  py_pos n (t + k) = Some (Z.to_nat (Z.of_nat p + k - Z.of_nat n)).
Proof.
  intros Hp Ht Hk. apply py_pos_inv in Hp as [Hlt [[H0 Ht']|[H0 Ht']]]; [lia|].
  rewrite py_pos_nonneg by lia. f_equal. lia.
Qed.

(* ---- 3.1 lags / leads of a program bound every offset in it ---- *)
Lemma fold_max_nonneg (f : nat * Z -> Z) ts : 0 <= fold_right (fun xk m => Z.max (f xk) m) 0 ts.
Proof. induction ts as [|a ts IH]; cbn [fold_right]; lia. Qed.
Lemma fold_max_ge (f : nat * Z -> Z) ts xk : In xk ts -> f xk <= fold_right (fun xk m => Z.max (f xk) m) 0 ts.
Proof. induction ts as [|a ts IH]; cbn [fold_right In]; [tauto|]. intros [->|H]; [lia|]. specialize (IH H). lia. Qed.

Lemma terms_lags_bound ts x k : In (x, k) ts -> - k <= Z.of_nat (terms_lags ts).
Proof.
  intros H. unfold terms_lags. rewrite Z2Nat.id by apply fold_max_nonneg.
  apply (fold_max_ge (fun xk => - snd xk) ts (x, k) H).
Qed.
Lemma terms_leads_bound ts x k : In (x, k) ts -> k <= Z.of_nat (terms_leads ts).
Proof.
  intros H. unfold terms_leads. rewrite Z2Nat.id by apply fold_max_nonneg.
  apply (fold_max_ge (fun xk => snd xk) ts (x, k) H).
Qed.


(* ------------------------------------------------------------------------------------------ *)
(* Part 4: the evaluation pass                                                                 *)
(* ------------------------------------------------------------------------------------------ *)
Section EvalFacts.
  Variable num : Type.
  Variables (add sub mul div pow : num -> num -> num) (neg absf : num -> num).
  Variables (ltb leb eqb : num -> num -> bool).
  Variable zero : num.
  Variable fun1 : nat -> num -> num.
  Variable fun2 : nat -> num -> num -> num.
  Variable flagged : list num -> num -> bool.
  Variable isfin : num -> bool.

  Notation eval_expr := (eval_expr num add sub mul div pow neg absf ltb leb eqb zero fun1 fun2 flagged).
  Notation exec_stmt := (exec_stmt num add sub mul div pow neg absf ltb leb eqb zero fun1 fun2 flagged).
  Notation eval_pass := (eval_pass num add sub mul div pow neg absf ltb leb eqb zero fun1 fun2 flagged).
  Notation ev_of := (ev_of num add sub mul div pow neg absf ltb leb eqb zero fun1 fun2 flagged).
  Notation ev_monitored := (ev_monitored num add sub mul div pow neg absf ltb leb eqb zero fun1 fun2 flagged).
  Notation solve_t_P := (solve_t_P num add sub mul div pow neg absf ltb leb eqb zero fun1 fun2 flagged isfin).
  Notation solve_t_monitored := (solve_t_monitored num add sub mul div pow neg absf ltb leb eqb zero fun1 fun2 flagged isfin).
  Notation solve_seq_M := (solve_seq_M num add sub mul div pow neg absf ltb leb eqb zero fun1 fun2 flagged isfin).
  Notation expr := (expr num).
  Notation program := (program num).

  (* the log entry of an access to term (x, k) when the arrays have the lengths listed in sh *)
  Definition entry (sh : list nat) (t : Z) (w : bool) (xk : nat * Z) : access :=
    Acc w (fst xk) (t + snd xk) (py_pos (nth (fst xk) sh 0%nat) (t + snd xk)).

  (* ---- 4.1 the access log of an expression: exactly reads of its syntactic terms, at t + k ---- *)
  Lemma eval_expr_log_P (P : access -> Prop) catch t v (e : expr) :
    (forall xk, In xk (expr_reads num e) -> P (entry (shape v) t false xk)) ->
    Forall P (snd (eval_expr catch t v e)).
  Proof.
    induction e as [x|x k|a IHa|a IHa|o a IHa b IHb|a IHa b IHb|a IHa b IHb|o l IHl r IHr a IHa b IHb|f a IHa|f a IHa b IHb];
      intros H; cbn [Eval.eval_expr]; cbn [expr_reads] in H.
    - constructor.
    - specialize (H (x, k) (or_introl eq_refl)). unfold entry in H. cbn [fst snd] in H. rewrite shape_nth in H.
      unfold read, row. destruct (py_pos (length (nth x v [])) (t + k)); cbn [snd]; constructor; auto.
    - specialize (IHa H). destruct (eval_expr catch t v a) as [[y|c] la]; exact IHa.
    - specialize (IHa H). destruct (eval_expr catch t v a) as [[y|c] la]; exact IHa.
    - assert (Ha := IHa (fun xk Hx => H xk (in_or_app _ _ _ (or_introl Hx)))).
      assert (Hb := IHb (fun xk Hx => H xk (in_or_app _ _ _ (or_intror Hx)))).
      destruct (eval_expr catch t v a) as [[x|c] la]; [|exact Ha].
      destruct (eval_expr catch t v b) as [[y|c] lb]; cbn [snd] in *; apply Forall_app; split; assumption.
    - assert (Ha := IHa (fun xk Hx => H xk (in_or_app _ _ _ (or_introl Hx)))).
      assert (Hb := IHb (fun xk Hx => H xk (in_or_app _ _ _ (or_intror Hx)))).
      destruct (eval_expr catch t v a) as [[x|c] la]; [|exact Ha].
      destruct (eval_expr catch t v b) as [[y|c] lb]; cbn [snd] in *; apply Forall_app; split; assumption.
    - assert (Ha := IHa (fun xk Hx => H xk (in_or_app _ _ _ (or_introl Hx)))).
      assert (Hb := IHb (fun xk Hx => H xk (in_or_app _ _ _ (or_intror Hx)))).
      destruct (eval_expr catch t v a) as [[x|c] la]; [|exact Ha].
      destruct (eval_expr catch t v b) as [[y|c] lb]; cbn [snd] in *; apply Forall_app; split; assumption.
    - assert (Hl := IHl (fun xk Hx => H xk (in_or_app _ _ _ (or_introl Hx)))).
      assert (Hr := IHr (fun xk Hx => H xk (in_or_app _ _ _ (or_intror (in_or_app _ _ _ (or_introl Hx)))))).
      assert (Ha := IHa (fun xk Hx => H xk (in_or_app _ _ _ (or_intror (in_or_app _ _ _ (or_intror (in_or_app _ _ _ (or_introl Hx)))))))).
      assert (Hb := IHb (fun xk Hx => H xk (in_or_app _ _ _ (or_intror (in_or_app _ _ _ (or_intror (in_or_app _ _ _ (or_intror Hx)))))))).
      destruct (eval_expr catch t v l) as [[x|c] ll]; [|exact Hl].
      destruct (eval_expr catch t v r) as [[y|c] lr]; cbn [snd] in *; [|apply Forall_app; split; assumption].
      destruct (cmp_sem num ltb leb eqb o x y); cbv iota.
      + destruct (eval_expr catch t v a) as [res lx]; cbn [snd] in *. repeat (apply Forall_app; split); assumption.
      + destruct (eval_expr catch t v b) as [res lx]; cbn [snd] in *. repeat (apply Forall_app; split); assumption.
    - specialize (IHa H). destruct (eval_expr catch t v a) as [[y|c] la]; exact IHa.
    - assert (Ha := IHa (fun xk Hx => H xk (in_or_app _ _ _ (or_introl Hx)))).
      assert (Hb := IHb (fun xk Hx => H xk (in_or_app _ _ _ (or_intror Hx)))).
      destruct (eval_expr catch t v a) as [[x|c] la]; [|exact Ha].
      destruct (eval_expr catch t v b) as [[y|c] lb]; cbn [snd] in *; apply Forall_app; split; assumption.
  Qed.

  (* an expression can raise only two things: a numeric warning turned into an error (tag 1), or
     IndexError (tag 2) — and then its log ends with an access that was not served *)
  Lemma eval_expr_exc catch t v (e : expr) c lg :
    eval_expr catch t v e = (EExc c, lg) ->
    c = tag_warning \/ (c = tag_index /\ exists a, In a lg /\ acc_srv a = None).
  Proof.
    revert c lg.
    induction e as [x|x k|a IHa|a IHa|o a IHa b IHb|a IHa b IHb|a IHa b IHb|o l IHl r IHr a IHa b IHb|f a IHa|f a IHa b IHb];
      intros c lg; cbn [Eval.eval_expr].
    - discriminate.
    - unfold read. destruct (py_pos (length (row num v x)) (t + k)); intros H; inversion H; subst.
      right. split; [reflexivity|]. eexists; split; [left; reflexivity|reflexivity].
    - destruct (eval_expr catch t v a) as [[y|c'] la]; intros H; inversion H; subst. apply IHa; reflexivity.
    - destruct (eval_expr catch t v a) as [[y|c'] la]; intros H; inversion H; subst. apply IHa; reflexivity.
    - destruct (eval_expr catch t v a) as [[x|c'] la]; [|intros H; inversion H; subst; apply IHa; reflexivity].
      destruct (eval_expr catch t v b) as [[y|c'] lb]; intros H.
      + unfold guard_op in H. destruct (catch && flagged [x; y] (binop_sem num add sub mul div pow o x y)); inversion H; subst. left; reflexivity.
      + inversion H; subst. destruct (IHb _ lb eq_refl) as [->|[-> (a0 & Hin & Hs)]]; [left; reflexivity|].
        right. split; [reflexivity|]. exists a0. split; [apply in_or_app; right; exact Hin|exact Hs].
    - destruct (eval_expr catch t v a) as [[x|c'] la]; [|intros H; inversion H; subst; apply IHa; reflexivity].
      destruct (eval_expr catch t v b) as [[y|c'] lb]; intros H; inversion H; subst.
      destruct (IHb _ lb eq_refl) as [->|[-> (a0 & Hin & Hs)]]; [left; reflexivity|].
      right. split; [reflexivity|]. exists a0. split; [apply in_or_app; right; exact Hin|exact Hs].
    - destruct (eval_expr catch t v a) as [[x|c'] la]; [|intros H; inversion H; subst; apply IHa; reflexivity].
      destruct (eval_expr catch t v b) as [[y|c'] lb]; intros H; inversion H; subst.
      destruct (IHb _ lb eq_refl) as [->|[-> (a0 & Hin & Hs)]]; [left; reflexivity|].
      right. split; [reflexivity|]. exists a0. split; [apply in_or_app; right; exact Hin|exact Hs].
    - destruct (eval_expr catch t v l) as [[x|c'] ll]; [|intros H; inversion H; subst; apply IHl; reflexivity].
      destruct (eval_expr catch t v r) as [[y|c'] lr].
      + assert (G : forall e0, (forall c0 lg0, eval_expr catch t v e0 = (EExc c0, lg0) ->
                     c0 = tag_warning \/ (c0 = tag_index /\ exists a1, In a1 lg0 /\ acc_srv a1 = None)) ->
                   (let '(res, lx) := eval_expr catch t v e0 in (res, ll ++ lr ++ lx)) = (EExc c, lg) ->
                   c = tag_warning \/ (c = tag_index /\ exists a1, In a1 lg /\ acc_srv a1 = None)).
        { intros e0 IH0 H. destruct (eval_expr catch t v e0) as [res lx]. inversion H; subst.
          destruct (IH0 _ lx eq_refl) as [->|[-> (a0 & Hin & Hs)]]; [left; reflexivity|].
          right. split; [reflexivity|]. exists a0. split; [|exact Hs].
          apply in_or_app; right; apply in_or_app; right; exact Hin. }
        destruct (cmp_sem num ltb leb eqb o x y); cbv iota; [apply (G a IHa)|apply (G b IHb)].
      + intros H; inversion H; subst.
        destruct (IHr _ lr eq_refl) as [->|[-> (a0 & Hin & Hs)]]; [left; reflexivity|].
        right. split; [reflexivity|]. exists a0. split; [apply in_or_app; right; exact Hin|exact Hs].
    - destruct (eval_expr catch t v a) as [[x|c'] la]; intros H.
      + unfold guard_op in H. destruct (catch && flagged [x] (fun1 f x)); inversion H; subst. left; reflexivity.
      + inversion H; subst. apply IHa; reflexivity.
    - destruct (eval_expr catch t v a) as [[x|c'] la]; [|intros H; inversion H; subst; apply IHa; reflexivity].
      destruct (eval_expr catch t v b) as [[y|c'] lb]; intros H.
      + unfold guard_op in H. destruct (catch && flagged [x; y] (fun2 f x y)); inversion H; subst. left; reflexivity.
      + inversion H; subst. destruct (IHb _ lb eq_refl) as [->|[-> (a0 & Hin & Hs)]]; [left; reflexivity|].
        right. split; [reflexivity|]. exists a0. split; [apply in_or_app; right; exact Hin|exact Hs].
  Qed.

  (* ---- 4.2 one statement ---- *)
  Lemma exec_stmt_agree catch t v y k (e : expr) :
    agree_outside (fun i q => i = y /\ py_pos (nth y (shape v) 0%nat) (t + k) = Some q)
                  v (fst (fst (exec_stmt catch t v (SAssign y k e)))).
  Proof.
    cbn [Eval.exec_stmt]. rewrite shape_nth. unfold row.
    destruct (eval_expr catch t v e) as [[x|c] le]; [|apply agree_refl].
    destruct (py_pos (length (nth y v [])) (t + k)) as [q|] eqn:E; cbn [fst]; [|apply agree_refl].
    apply set_cell_agree. split; reflexivity.
  Qed.

  Lemma exec_stmt_log_P (P : access -> Prop) catch t v y k (e : expr) :
    (forall xk, In xk (expr_reads num e) -> P (entry (shape v) t false xk)) ->
    P (entry (shape v) t true (y, k)) ->
    Forall P (snd (exec_stmt catch t v (SAssign y k e))).
  Proof.
    intros Hr Hw. cbn [Eval.exec_stmt]. pose proof (eval_expr_log_P P catch t v e Hr) as He.
    unfold entry in Hw. cbn [fst snd] in Hw. rewrite shape_nth in Hw. unfold row.
    destruct (eval_expr catch t v e) as [[x|c] le]; cbn [snd] in *; [|exact He].
    destruct (py_pos (length (nth y v [])) (t + k)); cbn [snd]; apply Forall_app; split; auto.
  Qed.

  Lemma exec_stmt_exc catch t v s v' c lg :
    exec_stmt catch t v s = ((v', Some c), lg) ->
    v' = v /\ (c = tag_warning \/ (c = tag_index /\ exists a, In a lg /\ acc_srv a = None)).
  Proof.
    destruct s as [y k e]. cbn [Eval.exec_stmt].
    destruct (eval_expr catch t v e) as [[x|c'] le] eqn:Ee.
    - destruct (py_pos (length (row num v y)) (t + k)); intros H; inversion H; subst.
      split; [reflexivity|]. right. split; [reflexivity|].
      eexists; split; [apply in_or_app; right; left; reflexivity|reflexivity].
    - intros H; inversion H; subst. split; [reflexivity|]. eapply eval_expr_exc; exact Ee.
  Qed.

  (* ---- 4.3 the whole pass ---- *)
  (* cells a pass for period t may write: (y, position served for index t + k) for the left-hand terms (y, k) *)
  Definition written (prog : program) (sh : list nat) (t : Z) (i q : nat) : Prop :=
    exists k, In (i, k) (prog_lhs num prog) /\ py_pos (nth i sh 0%nat) (t + k) = Some q.

  Theorem eval_pass_agree catch t : forall (prog : program) v,
    agree_outside (written prog (shape v) t) v (fst (fst (eval_pass catch prog t v))).
  Proof.
    induction prog as [|s rest IH]; intros v; cbn [Eval.eval_pass]; [apply agree_refl|].
    destruct s as [y k e].
    pose proof (exec_stmt_agree catch t v y k e) as H1.
    destruct (exec_stmt catch t v (SAssign y k e)) as [[v' [c|]] l1]; cbn [fst] in *.
    - eapply agree_mono; [|exact H1]. intros i q [-> Hq]. exists k. split; [left; reflexivity|exact Hq].
    - specialize (IH v'). destruct H1 as [S1 C1].
      destruct (eval_pass catch rest t v') as [r l2]. cbn [fst] in *.
      eapply agree_trans.
      + eapply agree_mono; [|split; [exact S1|exact C1]]. intros i q [-> Hq]. exists k. split; [left; reflexivity|exact Hq].
      + rewrite S1 in IH. eapply agree_mono; [|exact IH].
        intros i q (k' & Hin & Hq). exists k'. split; [right; exact Hin|exact Hq].
  Qed.

  Theorem eval_pass_log_P (P : access -> Prop) catch t : forall (prog : program) v,
    (forall xk, In xk (prog_reads num prog) -> P (entry (shape v) t false xk)) ->
    (forall xk, In xk (prog_lhs num prog) -> P (entry (shape v) t true xk)) ->
    Forall P (snd (eval_pass catch prog t v)).
  Proof.
    induction prog as [|s rest IH]; intros v Hr Hw; cbn [Eval.eval_pass]; [constructor|].
    destruct s as [y k e].
    pose proof (exec_stmt_log_P P catch t v y k e
                  (fun xk Hx => Hr xk (in_or_app _ _ _ (or_introl Hx))) (Hw (y, k) (or_introl eq_refl))) as H1.
    pose proof (exec_stmt_agree catch t v y k e) as [S1 _].
    destruct (exec_stmt catch t v (SAssign y k e)) as [[v' [c|]] l1]; cbn [fst snd] in *; [exact H1|].
    specialize (IH v'). rewrite S1 in IH.
    assert (H2 : Forall P (snd (eval_pass catch rest t v'))).
    { apply IH; [intros xk Hx; apply Hr; apply in_or_app; right; exact Hx|intros xk Hx; apply Hw; right; exact Hx]. }
    destruct (eval_pass catch rest t v') as [r l2]. cbn [snd] in *. apply Forall_app; split; assumption.
  Qed.

  Theorem eval_pass_exc catch t : forall (prog : program) v v' c lg,
    eval_pass catch prog t v = ((v', Some c), lg) ->
    c = tag_warning \/ (c = tag_index /\ exists a, In a lg /\ acc_srv a = None).
  Proof.
    induction prog as [|s rest IH]; intros v v' c lg; cbn [Eval.eval_pass]; [discriminate|].
    destruct (exec_stmt catch t v s) as [[v1 [c1|]] l1] eqn:E1.
    - intros H; inversion H; subst. eapply exec_stmt_exc; exact E1.
    - destruct (eval_pass catch rest t v1) as [[v2 r2] l2] eqn:E2. intros H; inversion H; subst.
      destruct (IH v1 v' c l2 E2) as [->|[-> (a0 & Hin & Hs)]]; [left; reflexivity|].
      right. split; [reflexivity|]. exists a0. split; [apply in_or_app; right; exact Hin|exact Hs].
  Qed.

  (* Gauss-Seidel: a pass over p1 ++ p2 is the pass over p1 followed, on the store it leaves, by the pass over p2 *)
  Theorem eval_pass_app catch t : forall (p1 p2 : program) v,
    eval_pass catch (p1 ++ p2) t v =
    match eval_pass catch p1 t v with
    | ((v1, None), l1) => let '(r, l2) := eval_pass catch p2 t v1 in (r, l1 ++ l2)
    | r => r
    end.
  Proof.
    induction p1 as [|s p1 IH]; intros p2 v; cbn [app Eval.eval_pass].
    - destruct (eval_pass catch p2 t v) as [r l2]. reflexivity.
    - destruct (exec_stmt catch t v s) as [[v' [c|]] l1]; [reflexivity|].
      rewrite IH. destruct (eval_pass catch p1 t v') as [[v1 [c|]] l1']; [reflexivity|].
      destruct (eval_pass catch p2 t v1) as [r l2]. rewrite app_assoc. reflexivity.
  Qed.

  (* ---- 4.5 reads never wrap: in a period with room for the lags and leads every access is served
          inside the span at exactly p + k ---- *)
  Definition vars_ok (prog : program) (m : nat) : Prop := forall x k, In (x, k) (prog_terms num prog) -> (x < m)%nat.

  Theorem eval_pass_accesses_in_span catch (prog : program) n t p v :
    wf_vals n v -> vars_ok prog (length v) ->
    py_pos n t = Some p -> (prog_lags num prog <= p)%nat -> (p + prog_leads num prog < n)%nat ->
    Forall (fun a => exists x k, In (x, k) (prog_terms num prog) /\
                       acc_var a = x /\ acc_req a = t + k /\
                       acc_srv a = Some (Z.to_nat (Z.of_nat p + k)) /\ 0 <= Z.of_nat p + k < Z.of_nat n)
           (snd (eval_pass catch prog t v)).
  Proof.
    intros Hwf Hvars Hp Hlag Hlead.
    assert (G : forall w xk, In xk (prog_terms num prog) ->
              exists x k, In (x, k) (prog_terms num prog) /\
                acc_var (entry (shape v) t w xk) = x /\ acc_req (entry (shape v) t w xk) = t + k /\
                acc_srv (entry (shape v) t w xk) = Some (Z.to_nat (Z.of_nat p + k)) /\ 0 <= Z.of_nat p + k < Z.of_nat n).
    { intros w [x k] Hin. exists x, k. unfold entry. cbn [fst snd acc_var acc_req acc_srv].
      pose proof (terms_lags_bound _ _ _ Hin) as B1. pose proof (terms_leads_bound _ _ _ Hin) as B2.
      fold (prog_lags num prog) in B1. fold (prog_leads num prog) in B2.
      assert (Hk : 0 <= Z.of_nat p + k < Z.of_nat n) by lia.
      rewrite shape_nth, (Hwf x (Hvars x k Hin)).
      repeat split; try lia; auto. apply py_pos_shift; assumption. }
    apply eval_pass_log_P.
    - intros xk Hx. apply G. unfold prog_terms. apply in_or_app; right; exact Hx.
    - intros xk Hx. apply G. unfold prog_terms. apply in_or_app; left; exact Hx.
  Qed.

  Corollary eval_pass_log_ok catch (prog : program) n t p v :
    wf_vals n v -> vars_ok prog (length v) ->
    py_pos n t = Some p -> (prog_lags num prog <= p)%nat -> (p + prog_leads num prog < n)%nat ->
    log_ok n t (snd (eval_pass catch prog t v)) = true.
  Proof.
    intros Hwf Hvars Hp Hlag Hlead. unfold log_ok. rewrite Hp. apply forallb_forall. intros a Ha.
    pose proof (eval_pass_accesses_in_span catch prog n t p v Hwf Hvars Hp Hlag Hlead) as HF.
    rewrite Forall_forall in HF. destruct (HF a Ha) as (x & k & _ & _ & Hreq & Hsrv & Hk).
    unfold access_ok. rewrite Hsrv, Hreq. apply andb_true_iff. split; [apply Nat.ltb_lt; lia|]. apply Z.eqb_eq. lia.
  Qed.

  (* ... hence such a pass never raises IndexError: the only exception left is a numeric warning *)
  Corollary eval_pass_no_index_error catch (prog : program) n t p v v' c lg :
    wf_vals n v -> vars_ok prog (length v) ->
    py_pos n t = Some p -> (prog_lags num prog <= p)%nat -> (p + prog_leads num prog < n)%nat ->
    eval_pass catch prog t v = ((v', Some c), lg) -> c = tag_warning.
  Proof.
    intros Hwf Hvars Hp Hlag Hlead E.
    destruct (eval_pass_exc catch t prog v v' c lg E) as [->|[-> (a & Hin & Hs)]]; [reflexivity|].
    pose proof (eval_pass_accesses_in_span catch prog n t p v Hwf Hvars Hp Hlag Hlead) as HF.
    rewrite E in HF. cbn [snd] in HF. rewrite Forall_forall in HF.
    destruct (HF a Hin) as (x & k & _ & _ & _ & Hsrv & _). congruence.
  Qed.

  (* ---- 4.6 composition with the solver ---- *)
  Lemma hook_pass_frame sh W t : hook_frame sh W (hook_pass num) t.
  Proof. intros em cf k v _. apply agree_refl. Qed.

  (* parsed_ev_frame: EVERY program meets the frame premise of solve_t_frame *)
  Theorem parsed_ev_frame (prog : program) sh t : hook_frame sh (written prog sh t) (ev_of prog) t.
  Proof.
    intros em cf k v Hsh. unfold Eval.ev_of. rewrite <- Hsh. apply eval_pass_agree.
  Qed.
End EvalFacts.
