(* EvalExamples2.v — instances for the entry-point statements (solve() through iter_periods) and non-vacuity of their
   hypotheses.  Closed computations on binary64. *)
From Coq Require Import PrimFloat ZArith List Bool Lia.
Import ListNotations.
Require Import PyBase Solver SolverF SolveAll Eval EvalFacts EvalF EvalExamples EvalSolveAll EvalK2.
Require Fsic.Solver.SolveAllFacts.
Open Scope Z_scope.

(* a span of four labelled periods; Y[t] = 0.5 * Y[t-1] + X[t] (one lag): the default range is positions 1 .. 3 *)
Definition ex_span : list Z := [10; 11; 12; 13].

Example ex_entry_locate_ok : SolveAllFacts.locate_ok Z (locate_index ex_span) ex_span.
Proof.
  apply SolveAllFacts.locate_index_ok. unfold ex_span.
  repeat constructor; cbn [In]; intuition discriminate.
Qed.

Example ex_entry_default :
  visits_out (snd (F_solve_P [] ex_span ex_prog ex_d (ex_o 0) ex_span None None ex_s))
    = Ret ([true; true; true], [1; 2; 3], [11; 12; 13]) /\
  status (fst (F_solve_P [] ex_span ex_prog ex_d (ex_o 0) ex_span None None ex_s)) = [Unsolved; Solved; Solved; Solved] /\
  nth 1 (vals_of (fst (F_solve_P [] ex_span ex_prog ex_d (ex_o 0) ex_span None None ex_s))) [] = nth 1 (vals_of ex_s) [].
Proof. repeat split; vm_compute; reflexivity. Qed.

(* an explicit start at the first period (no room for the lag): rejected as a whole, nothing changes *)
Example ex_entry_infeasible_start :
  F_solve_P [] ex_span ex_prog ex_d (ex_o 0) ex_span (Some 10) None ex_s = (ex_s, Raise IndexError).
Proof. vm_compute. reflexivity. Qed.

(* the hypotheses of solve_P_default_range_frame / solve_infeasible_start_rejected are satisfiable *)
Example ex_entry_hyps :
  min_iter (ex_o 0) <= max_iter (ex_o 0) /\ length (status ex_s) = length ex_span /\
  (lags ex_d + leads ex_d < length ex_span)%nat /\
  nth_error ex_span 0 = Some 10 /\ SolveAllFacts.resolves_end Z ex_d ex_span None 3 /\
  feasible ex_d (length ex_span) 0 = false.
Proof. repeat split; cbn; lia. Qed.

(* ex_prog is an ordinary program: every left-hand side is unindexed *)
Example ex_ordinary : forall i k, In (i, k) (prog_lhs float ex_prog) -> k = 0.
Proof. intros i k H. cbn in H. destruct H as [H|[]]. inversion H. reflexivity. Qed.

(* ---- the Fortran-engine frame theorem: its hypotheses are satisfiable (identity equations block, W empty), and a
   feasible period spelled negatively is solved in place ---- *)
Require Fsic.Fortran.FSolve.
Require Import EvalFortran.

Example exF_frame_hyps :
  py_pos (length (status exF_s)) (-2) = Some 2%nat /\ hd 0%nat (shape (vals_of exF_s)) = length (status exF_s) /\
  (forall r, In r (FSolve.fm_endo exF_fm) -> 1 <= r <= Z.of_nat (length (vals_of exF_s))) /\
  (forall v : vals float, shape v = shape (vals_of exF_s) -> agree_outside (fun _ _ => False) v ((fun (_ : Z) (w : vals float) => w) 3 v)).
Proof.
  split; [reflexivity|]. split; [reflexivity|]. split.
  - intros r [<-|[]]. cbn. lia.
  - intros v _. apply agree_refl.
Qed.

Example exF_feasible_negative_t :
  exF_solve_t exF_fm exF_d (exF_o 0) (-2) exF_s =
  (mkState (vals_of exF_s) [Unsolved; Unsolved; Solved; Unsolved] [-1; -1; 1; -1] [], Ret true).
Proof. vm_compute. reflexivity. Qed.

(* hypotheses of fortran_parsed_solve_t_touches_only_t: Y = X as a Fortran-side program over the same 4-period state *)
Require Fsic.Fortran.FSem.
Example exF_parsed_hyps :
  let prog : list (FSem.eqn float) := [(0%nat, FSem.EVar 1%nat 0)] in
  py_pos (length (status exF_s)) (-2) = Some 2%nat /\ hd 0%nat (shape (vals_of exF_s)) = length (status exF_s) /\
  (forall r, In r (FSolve.fm_endo exF_fm) -> 1 <= r <= Z.of_nat (length (vals_of exF_s))) /\
  (forall i e, In (i, e) prog -> (i < length (vals_of exF_s))%nat).
Proof.
  cbv zeta. split; [reflexivity|]. split; [reflexivity|]. split.
  - intros r [<-|[]]. cbn. lia.
  - intros i e [H|[]]. inversion H; subst. cbn. lia.
Qed.

Example exF_parsed_solve_hyps : forall p, In p [1; 2; 3]%nat -> (p < hd 0%nat (shape (vals_of exF_s)))%nat.
Proof. intros p [<-|[<-|[<-|[]]]]; cbn; lia. Qed.

(* ---------------- the premise prog_lags <= lags d is necessary: user-lowered instance attribute `lags` ----------------
   model.lags = 0 on the one-lag model: the guard of solve_t follows the instance attribute, so period 0 is SERVED, the
   read Y[t-1] is served the LAST period (Y[0] := 0.5 * Y[3] + X[0] = 3.0) and the period is stamped solved *)
Definition ex_d_lowered : mdesc := mkDesc [0%nat] [0%nat] 0%nat 0%nat.

Example ex_lowered_lags_served_wrapped :
  f_solve_t_P [] ex_prog ex_d_lowered (ex_o 0) 0 ex_s =
  (mkState [[3%float; 2%float; 3%float; 4%float]; [1%float; 1%float; 1%float; 1%float]]
           [Solved; Unsolved; Unsolved; Unsolved] [2; -1; -1; -1] [EvBefore 0; EvPass 0 1; EvPass 0 2; EvAfter 0 2], Ret true).
Proof. vm_compute. reflexivity. Qed.

Lemma lowered_instance_lags_refuted :
  exists (prog : fprogram) d o t s p (a : access),
    (lags d < prog_lags float prog)%nat /\
    py_pos (length (status s)) t = Some p /\ (p < prog_lags float prog)%nat /\
    snd (f_solve_t_P [] prog d o t s) = Ret true /\
    In a (snd (f_eval_pass [] true prog t (vals_of s))) /\ acc_req a = t + (-1) /\
    acc_srv a = Some (length (status s) - 1)%nat /\
    nth_error (nth 0 (vals_of s) []) 0 = Some 1%float /\
    nth_error (nth 0 (vals_of (fst (f_solve_t_P [] prog d o t s))) []) 0 = Some 3%float.
Proof.
  exists ex_prog, ex_d_lowered, (ex_o 0), 0, ex_s, 0%nat, (Acc false 0%nat (-1) (Some 3%nat)).
  rewrite ex_lowered_lags_served_wrapped.
  split; [cbn; lia|]. split; [reflexivity|]. split; [cbn; lia|]. split; [reflexivity|].
  split; [vm_compute; left; reflexivity|]. repeat split; reflexivity.
Qed.

Example ex_span_nodup : NoDup ex_span.
Proof. unfold ex_span. repeat constructor; cbn [In]; intuition discriminate. Qed.
