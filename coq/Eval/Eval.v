(* Eval.v — executable model of the code that fsic.parser generates for a parser-built model
   (the body of `_evaluate`, fsic/parser.py:252-271 `Term.code` + 1030-1087 `build_model_definition`)
   and of its execution by CPython / NumPy over the model's value arrays.

   Definitions only.  Generic in the number type and in every arithmetic operation: no theorem
   about this file uses a fact of arithmetic.

   One statement of the generated code is        self._Y[t+k] = <expr>
   and an expression is built from               self._X[t+k]   literals   + - * / **   unary -
                                                 abs(.)  max(.,.)  min(.,.)   np.exp / np.log / other calls
                                                 a if l <op> r else b
   (`and` / `or` / `not` in a condition are expressed by nested conditionals, which evaluate the
   same sub-expressions in the same order — Python short-circuits — and select the same branch.)

   Every array access goes through Python index semantics (PyBase.py_pos): a negative index
   WRAPS, an index outside [-n, n) raises IndexError.  Every access is recorded in an access log
   (read/write, variable, index requested, position served), which is what property C04 is about. *)
From Coq Require Import ZArith List Bool.
Import ListNotations.
Require Import PyBase Solver.
Open Scope Z_scope.

Inductive binop : Type := OAdd | OSub | OMul | ODiv | OPow.
Inductive cmpop : Type := CLt | CLe | CEq | CNe | CGt | CGe.

(* one array access: write?, variable (row number), index requested (t+k as Python computed it),
   position served (None = IndexError) *)
Inductive access : Type := Acc (w : bool) (x : nat) (req : Z) (srv : option nat).

Definition acc_write (a : access) : bool := let 'Acc w _ _ _ := a in w.
Definition acc_var (a : access) : nat := let 'Acc _ x _ _ := a in x.
Definition acc_req (a : access) : Z := let 'Acc _ _ r _ := a in r.
Definition acc_srv (a : access) : option nat := let 'Acc _ _ _ s := a in s.

(* tags of the exceptions an evaluation pass can raise (same numbering as harness/scripted.py) *)
Definition tag_warning : Z := 1.      (* a NumPy RuntimeWarning turned into an exception by the 'error' filter *)
Definition tag_index : Z := 2.        (* IndexError *)

Section Eval.
  Variable num : Type.

  Inductive expr : Type :=
  | ENum (x : num)                            (* numeric literal *)
  | ERead (x : nat) (k : Z)                   (* self._X[t+k]   (k = 0: self._X[t]) *)
  | ENeg (a : expr)                           (* -a *)
  | EAbs (a : expr)                           (* abs(a) *)
  | EBin (o : binop) (a b : expr)             (* a + b, a - b, a * b, a / b, a ** b *)
  | EMax (a b : expr)                         (* max(a, b) : b if b > a else a *)
  | EMin (a b : expr)                         (* min(a, b) : b if b < a else a *)
  | EIf (o : cmpop) (l r : expr) (a b : expr) (* a if l <o> r else b *)
  | ECall1 (f : nat) (a : expr)               (* f(a): 0 = np.exp, 1 = np.log, others opaque *)
  | ECall2 (f : nat) (a b : expr).            (* f(a, b), opaque *)

  Inductive stmt : Type := SAssign (y : nat) (k : Z) (e : expr).     (* self._Y[t+k] = e *)
  Definition program := list stmt.

  (* ---- arithmetic: all of it abstract ---- *)
  Variables (add sub mul div pow : num -> num -> num) (neg absf : num -> num).
  Variables (ltb leb eqb : num -> num -> bool).
  Variable zero : num.
  Variable fun1 : nat -> num -> num.
  Variable fun2 : nat -> num -> num -> num.
  (* does NumPy issue a floating-point RuntimeWarning for an operation with these inputs and this result? *)
  Variable flagged : list num -> num -> bool.

  Definition binop_sem (o : binop) : num -> num -> num :=
    match o with OAdd => add | OSub => sub | OMul => mul | ODiv => div | OPow => pow end.
  Definition cmp_sem (o : cmpop) (x y : num) : bool :=
    match o with
    | CLt => ltb x y | CLe => leb x y | CEq => eqb x y | CNe => negb (eqb x y)
    | CGt => ltb y x | CGe => leb y x
    end.

  Inductive eres : Type := EVal (x : num) | EExc (c : Z).

  (* an operation result r computed from inputs ins: under the 'error' filter (catch) a flagged
     operation raises before anything is stored; otherwise the warning is recorded and ignored *)
  Definition guard_op (catch : bool) (ins : list num) (r : num) : eres :=
    if catch && flagged ins r then EExc tag_warning else EVal r.

  Definition row (v : vals num) (x : nat) : list num := nth x v [].

  (* self._X[i] *)
  Definition read (v : vals num) (x : nat) (i : Z) : eres * list access :=
    match py_pos (length (row v x)) i with
    | Some q => (EVal (nth q (row v x) zero), [Acc false x i (Some q)])
    | None => (EExc tag_index, [Acc false x i None])
    end.

  Fixpoint eval_expr (catch : bool) (t : Z) (v : vals num) (e : expr) : eres * list access :=
    match e with
    | ENum x => (EVal x, [])
    | ERead x k => read v x (t + k)
    | ENeg a =>
        match eval_expr catch t v a with
        | (EVal x, la) => (EVal (neg x), la)
        | r => r
        end
    | EAbs a =>
        match eval_expr catch t v a with
        | (EVal x, la) => (EVal (absf x), la)
        | r => r
        end
    | EBin o a b =>
        match eval_expr catch t v a with
        | (EVal x, la) =>
            match eval_expr catch t v b with
            | (EVal y, lb) => (guard_op catch [x; y] (binop_sem o x y), la ++ lb)
            | (EExc c, lb) => (EExc c, la ++ lb)
            end
        | r => r
        end
    | EMax a b =>
        match eval_expr catch t v a with
        | (EVal x, la) =>
            match eval_expr catch t v b with
            | (EVal y, lb) => (EVal (if ltb x y then y else x), la ++ lb)
            | (EExc c, lb) => (EExc c, la ++ lb)
            end
        | r => r
        end
    | EMin a b =>
        match eval_expr catch t v a with
        | (EVal x, la) =>
            match eval_expr catch t v b with
            | (EVal y, lb) => (EVal (if ltb y x then y else x), la ++ lb)
            | (EExc c, lb) => (EExc c, la ++ lb)
            end
        | r => r
        end
    | EIf o l r a b =>
        match eval_expr catch t v l with
        | (EVal x, ll) =>
            match eval_expr catch t v r with
            | (EVal y, lr) =>
                (* only the selected branch is evaluated *)
                let '(res, lx) := eval_expr catch t v (if cmp_sem o x y then a else b) in
                (res, ll ++ lr ++ lx)
            | (EExc c, lr) => (EExc c, ll ++ lr)
            end
        | r' => r'
        end
    | ECall1 f a =>
        match eval_expr catch t v a with
        | (EVal x, la) => (guard_op catch [x] (fun1 f x), la)
        | r => r
        end
    | ECall2 f a b =>
        match eval_expr catch t v a with
        | (EVal x, la) =>
            match eval_expr catch t v b with
            | (EVal y, lb) => (guard_op catch [x; y] (fun2 f x y), la ++ lb)
            | (EExc c, lb) => (EExc c, la ++ lb)
            end
        | r => r
        end
    end.

  (* self._Y[t+k] = e : right-hand side first, then the store *)
  Definition exec_stmt (catch : bool) (t : Z) (v : vals num) (s : stmt) : (vals num * option Z) * list access :=
    let 'SAssign y k e := s in
    match eval_expr catch t v e with
    | (EVal x, le) =>
        match py_pos (length (row v y)) (t + k) with
        | Some q => ((set_cell num v y q x, None), le ++ [Acc true y (t + k) (Some q)])
        | None => ((v, Some tag_index), le ++ [Acc true y (t + k) None])
        end
    | (EExc c, le) => ((v, Some c), le)
    end.

  (* one call of _evaluate(t): the statements in order, each seeing the stores of the earlier ones
     (Gauss-Seidel); the first exception ends the pass *)
  Fixpoint eval_pass (catch : bool) (prog : program) (t : Z) (v : vals num) : (vals num * option Z) * list access :=
    match prog with
    | [] => ((v, None), [])
    | s :: rest =>
        match exec_stmt catch t v s with
        | ((v', None), l1) => let '(r, l2) := eval_pass catch rest t v' in (r, l1 ++ l2)
        | r => r
        end
    end.

  (* ---- syntactic terms of a program ---- *)
  Fixpoint expr_reads (e : expr) : list (nat * Z) :=
    match e with
    | ENum _ => []
    | ERead x k => [(x, k)]
    | ENeg a | EAbs a | ECall1 _ a => expr_reads a
    | EBin _ a b | EMax a b | EMin a b | ECall2 _ a b => expr_reads a ++ expr_reads b
    | EIf _ l r a b => expr_reads l ++ expr_reads r ++ expr_reads a ++ expr_reads b
    end.
  Definition stmt_lhs (s : stmt) : nat * Z := let 'SAssign y k _ := s in (y, k).
  Definition stmt_reads (s : stmt) : list (nat * Z) := let 'SAssign _ _ e := s in expr_reads e.
  Definition prog_lhs (p : program) : list (nat * Z) := map stmt_lhs p.
  Definition prog_reads (p : program) : list (nat * Z) := flat_map stmt_reads p.
  Definition prog_terms (p : program) : list (nat * Z) := prog_lhs p ++ prog_reads p.

  (* deepest lag / furthest lead of a list of terms: what build_model_definition computes as
     LAGS = abs(min(s.lags ...)), LEADS = abs(max(s.leads ...)) over all symbols (Symbol.lags <= 0 <= Symbol.leads) *)
  Definition terms_lags (ts : list (nat * Z)) : nat := Z.to_nat (fold_right (fun xk m => Z.max (- snd xk) m) 0 ts).
  Definition terms_leads (ts : list (nat * Z)) : nat := Z.to_nat (fold_right (fun xk m => Z.max (snd xk) m) 0 ts).
  Definition prog_lags (p : program) : nat := terms_lags (prog_terms p).
  Definition prog_leads (p : program) : nat := terms_leads (prog_terms p).

  (* ---- the evaluation pass as the solver's oracle ---- *)
  (* warnings become exceptions iff errors == 'raise' and catch_first_error (models.py:331-336) *)
  Definition ev_of (prog : program) : hook num :=
    fun t em cf _ v => fst (eval_pass (is_raise em && cf) prog t v).
  Definition pass_log (prog : program) (em : errmode) (cf : bool) (t : Z) (v : vals num) : list access :=
    snd (eval_pass (is_raise em && cf) prog t v).
  (* solve_t_before / solve_t_after of a parser-built class are `pass` in both class templates *)
  Definition hook_pass : hook num := fun _ _ _ _ v => (v, None).

  Variable isfin : num -> bool.

  Definition solve_t_P (prog : program) : mdesc -> opts num -> Z -> mstate num -> mstate num * outcome bool :=
    solve_t_M num sub absf ltb isfin zero (ev_of prog) hook_pass hook_pass.

  (* an access is "in span, not wrapped" for a solve of period t (normalised position p) of an n-period span:
     it was served, inside the span, at the same distance from p as the requested index is from t *)
  Definition access_ok (n : nat) (t : Z) (p : nat) (a : access) : bool :=
    match acc_srv a with
    | Some q => (q <? n)%nat && (Z.of_nat q - Z.of_nat p =? acc_req a - t)
    | None => false
    end.
  Definition log_ok (n : nat) (t : Z) (lg : list access) : bool :=
    match py_pos n t with
    | Some p => forallb (access_ok n t p) lg
    | None => false
    end.

  (* the monitored evaluator: behaves like ev_of, but raises (tag 999) as soon as a pass performs an access
     that is not access_ok.  Theorem monitored_solve_t_eq: for feasible periods it is indistinguishable. *)
  Definition tag_monitor : Z := 999.
  Definition ev_monitored (n : nat) (prog : program) : hook num :=
    fun t em cf k v =>
      let '(r, lg) := eval_pass (is_raise em && cf) prog t v in
      if log_ok n t lg then r else (fst r, Some tag_monitor).
  Definition solve_t_monitored (n : nat) (prog : program) : mdesc -> opts num -> Z -> mstate num -> mstate num * outcome bool :=
    solve_t_M num sub absf ltb isfin zero (ev_monitored n prog) hook_pass hook_pass.

  (* ---- solve(): the periods in order, stopping at the first exception (interfaces.py:436-449) ---- *)
  Fixpoint solve_seq_M (prog : program) (d : mdesc) (o : opts num) (ts : list Z) (s : mstate num)
    : mstate num * outcome (list bool) :=
    match ts with
    | [] => (s, Ret [])
    | t :: rest =>
        match solve_t_P prog d o t s with
        | (s', Ret b) =>
            match solve_seq_M prog d o rest s' with
            | (s'', Ret bs) => (s'', Ret (b :: bs))
            | r => r
            end
        | (s', Raise e) => (s', Raise e)
        end
    end.
  (* positions a, a+1, ..., b  (range(a, b + 1)) *)
  Definition positions (a b : Z) : list Z := map (fun i => a + Z.of_nat i) (seq 0 (Z.to_nat (b + 1 - a))).
  (* the default range of iter_periods: span[lags] .. span[-1 - leads] *)
  Definition default_positions (d : mdesc) (n : nat) : list Z :=
    positions (Z.of_nat (lags d)) (Z.of_nat n - 1 - Z.of_nat (leads d)).

End Eval.

Arguments ENum {num}. Arguments ERead {num}. Arguments ENeg {num}. Arguments EAbs {num}.
Arguments EBin {num}. Arguments EMax {num}. Arguments EMin {num}. Arguments EIf {num}.
Arguments ECall1 {num}. Arguments ECall2 {num}. Arguments SAssign {num}.
Arguments EVal {num}. Arguments EExc {num}.
