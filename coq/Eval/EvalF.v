(* EvalF.v — the evaluation model instantiated with the kernel's primitive binary64 floats, and the
   in-Coq comparisons used by the correspondence checks (K_eval, K_access).  Definitions only.

   + - * / unary minus abs < <= == are the kernel's IEEE operations (bit-compatible with NumPy float64).
   np.exp, np.log and ** have no kernel primitive: they are looked up in an oracle table of
   (function, argument bits, result) triples recorded by the harness; a missing entry yields NaN, so a call
   the real code did not make (or made on other arguments) shows up as a disagreement, never as agreement. *)
From Coq Require Import PrimFloat FloatOps ZArith List Bool.
Import ListNotations.
Require Import PyBase Solver SolverF Eval.
Open Scope Z_scope.

Definition otable := list (nat * float * float * float).     (* function id, argument 1, argument 2, result *)
Fixpoint olookup (tb : otable) (f : nat) (a b : float) : float :=
  match tb with
  | [] => nan
  | (g, x, y, r) :: rest => if Nat.eqb f g && feq_bits a x && feq_bits b y then r else olookup rest f a b
  end.
Definition pow_id : nat := 100%nat.      (* 0 = np.exp, 1 = np.log, 100 = ** *)

(* NumPy's floating-point warnings for scalar operations (divide by zero, overflow, invalid value; underflow is
   ignored by default): the result is NaN though no input was, or infinite though every input was finite.
   An assumption about NumPy, validated against it on a grid of special values for + - * / ** exp log when the model was
   written and exercised by every K_access run (division by zero, overflow, NaN production occur in the generated data). *)
Definition fflagged (ins : list float) (r : float) : bool :=
  (is_nan r && negb (existsb is_nan ins)) || (is_infinity r && forallb fisfin ins).

Definition fexpr := expr float.
Definition fstmt := stmt float.
Definition fprogram := program float.

Definition f_eval_expr (tb : otable) :=
  eval_expr float PrimFloat.add PrimFloat.sub PrimFloat.mul PrimFloat.div (olookup tb pow_id) PrimFloat.opp PrimFloat.abs
            PrimFloat.ltb PrimFloat.leb PrimFloat.eqb fzero (fun f x => olookup tb f x fzero) (olookup tb) fflagged.
Definition f_eval_pass (tb : otable) :=
  eval_pass float PrimFloat.add PrimFloat.sub PrimFloat.mul PrimFloat.div (olookup tb pow_id) PrimFloat.opp PrimFloat.abs
            PrimFloat.ltb PrimFloat.leb PrimFloat.eqb fzero (fun f x => olookup tb f x fzero) (olookup tb) fflagged.
Definition f_solve_t_P (tb : otable) :=
  solve_t_P float PrimFloat.add PrimFloat.sub PrimFloat.mul PrimFloat.div (olookup tb pow_id) PrimFloat.opp PrimFloat.abs
            PrimFloat.ltb PrimFloat.leb PrimFloat.eqb fzero (fun f x => olookup tb f x fzero) (olookup tb) fflagged fisfin.
Definition f_solve_t_monitored (tb : otable) :=
  solve_t_monitored float PrimFloat.add PrimFloat.sub PrimFloat.mul PrimFloat.div (olookup tb pow_id) PrimFloat.opp PrimFloat.abs
            PrimFloat.ltb PrimFloat.leb PrimFloat.eqb fzero (fun f x => olookup tb f x fzero) (olookup tb) fflagged fisfin.
Definition f_solve_seq (tb : otable) :=
  solve_seq_M float PrimFloat.add PrimFloat.sub PrimFloat.mul PrimFloat.div (olookup tb pow_id) PrimFloat.opp PrimFloat.abs
            PrimFloat.ltb PrimFloat.leb PrimFloat.eqb fzero (fun f x => olookup tb f x fzero) (olookup tb) fflagged fisfin.

(* ---- comparison with the implementation's observation ---- *)
Definition optnat_eqb (a b : option nat) : bool :=
  match a, b with Some x, Some y => Nat.eqb x y | None, None => true | _, _ => false end.
Definition optZ_eqb (a b : option Z) : bool :=
  match a, b with Some x, Some y => Z.eqb x y | None, None => true | _, _ => false end.
Definition access_eqb (a b : access) : bool :=
  let 'Acc w x r s := a in let 'Acc w' x' r' s' := b in
  Bool.eqb w w' && Nat.eqb x x' && Z.eqb r r' && optnat_eqb s s'.
Definition vals_eqb (a b : vals float) : bool := list_eqb (list_eqb feq_bits) a b.

(* one recorded call of _evaluate(t): store before, what it left, what it raised, what it accessed *)
Record pcase := mkP {
  p_tab : otable; p_prog : fprogram; p_catch : bool; p_t : Z; p_v : vals float;
  px_v : vals float; px_exc : option Z; px_log : list access }.

Definition check_pcase (c : pcase) : bool :=
  let '((v', r), lg) := f_eval_pass (p_tab c) (p_catch c) (p_prog c) (p_t c) (p_v c) in
  vals_eqb v' (px_v c) && optZ_eqb r (px_exc c) && list_eqb access_eqb lg (px_log c).

Definition outl_eqb (a b : outcome (list bool)) : bool :=
  match a, b with
  | Ret x, Ret y => list_eqb Bool.eqb x y
  | Raise x, Raise y => exn_eqb x y
  | _, _ => false
  end.

(* one call of solve_t(t) (ts = [t]) or of solve() (ts = the positions it visits) *)
Record scase := mkS {
  s_tab : otable; s_prog : fprogram; s_desc : mdesc; s_opts : fopts; s_ts : list Z; s_state : fstate;
  sx_state : fstate; sx_out : outcome (list bool) }.

Definition check_scase (c : scase) : bool :=
  let '(s', r) := f_solve_seq (s_tab c) (s_prog c) (s_desc c) (s_opts c) (s_ts c) (s_state c) in
  state_eqb s' (sx_state c) && outl_eqb r (sx_out c).

Inductive kcase : Type := KP (c : pcase) | KS (c : scase).
Definition check_kcase (c : kcase) : bool :=
  match c with KP c => check_pcase c | KS c => check_scase c end.
