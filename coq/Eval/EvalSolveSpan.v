(* EvalSolveSpan.v — C04 through the LABEL entry points, on every supported span type:
   solve_period(label) and solve(start=, end=) of a parser-built model over a list / tuple / range, a NumPy array or a
   pandas Index span (Solver/SolveAllSpan.locate_span, builder of C05), labels without repetition.
   1. solve_period(label) touches only the cells its equations assign for the period the label names;
   2. solve() with no start / end: the default-range frame;
   3. reads never wrap: the access monitor is invisible for solve_period and for solve with any start / end. *)
From Coq Require Import ZArith List Bool Lia.
Import ListNotations.
Require Import PyBase Solver SolverFacts SolveAll SolveAllSpan Eval EvalFacts EvalFacts2 EvalFacts3 EvalSolveAll.
Require Fsic.Solver.SolveAllFacts Fsic.Solver.SolveAllSpanFacts.
Open Scope Z_scope.

Section EvalSolveSpan.
  Variable num : Type.
  Variables (add sub mul div pow : num -> num -> num) (neg absf : num -> num).
  Variables (ltb leb eqb : num -> num -> bool).
  Variable zero : num.
  Variable fun1 : nat -> num -> num.
  Variable fun2 : nat -> num -> num -> num.
  Variable flagged : list num -> num -> bool.
  Variable isfin : num -> bool.

  Notation ev_of := (ev_of num add sub mul div pow neg absf ltb leb eqb zero fun1 fun2 flagged).
  Notation ev_monitored := (ev_monitored num add sub mul div pow neg absf ltb leb eqb zero fun1 fun2 flagged).
  Notation solve_t_P := (solve_t_P num add sub mul div pow neg absf ltb leb eqb zero fun1 fun2 flagged isfin).
  Notation program := (program num).

  (* ---- generic in the label type and the lookup ---- *)
  Section AnyLabels.
    Variable L : Type.
    Variable locate : L -> locres.

    Definition solve_period_P (prog : program) :=
      solve_period_M num sub absf ltb isfin zero (ev_of prog) (hook_pass num) (hook_pass num) L locate.
    Definition solve_period_mon (n : nat) (prog : program) :=
      solve_period_M num sub absf ltb isfin zero (ev_monitored n prog) (hook_pass num) (hook_pass num) L locate.

    Lemma solve_period_P_eq (prog : program) d o (span : list L) lab i s :
      SolveAllFacts.locate_ok L locate span -> nth_error span i = Some lab ->
      solve_period_P prog d o lab s = solve_t_P prog d o (Z.of_nat i) s.
    Proof.
      intros Hok Hi. unfold solve_period_P, Eval.solve_t_P.
      apply (SolveAllFacts.solve_period_eq_solve_t num sub absf ltb isfin zero _ _ _ L locate d o span lab i s Hok Hi).
    Qed.

    (* solve_period(label): only the cells the equations assign for the period the label names, and status /
       iterations at that period only *)
    Theorem solve_period_P_touches_only_its_period (prog : program) d o (span : list L) lab i s :
      SolveAllFacts.locate_ok L locate span -> nth_error span i = Some lab ->
      length (status s) = length span ->
      wf_vals (length (status s)) (vals_of s) ->
      (prog_lags num prog <= lags d)%nat -> (prog_leads num prog <= leads d)%nat ->
      let s' := fst (solve_period_P prog d o lab s) in
      (forall j q, (forall k, In (j, k) (prog_lhs num prog) -> Z.of_nat q <> Z.of_nat i + k) ->
                   (offset o = 0 \/ ~ In j (endo d) \/ q <> i) ->
                   nth_error (nth j (vals_of s') []) q = nth_error (nth j (vals_of s) []) q) /\
      shape (vals_of s') = shape (vals_of s) /\ sf_frame i s s'.
    Proof.
      intros Hok Hi Hn Hwf Hlag Hlead. cbv zeta. rewrite (solve_period_P_eq prog d o span lab i s Hok Hi).
      apply (solve_t_P_touches_only_assigned_cells num add sub mul div pow neg absf ltb leb eqb zero fun1 fun2 flagged isfin
               prog d o (Z.of_nat i) s i Hwf Hlag Hlead).
      assert (Hlt : (i < length span)%nat) by (apply nth_error_Some; congruence).
      rewrite py_pos_nonneg by lia. rewrite Nat2Z.id. reflexivity.
    Qed.

    (* an unknown / unresolvable label: KeyError, nothing changes *)
    Theorem solve_period_P_bad_label (prog : program) d o lab s :
      is_int (locate lab) = false -> solve_period_P prog d o lab s = (s, Raise KeyError).
    Proof. intros H. apply SolveAllFacts.solve_period_bad_label. exact H. Qed.

    (* reads never wrap through solve_period: the monitor is invisible, whatever the label *)
    Theorem solve_period_monitored_eq (prog : program) d o lab s :
      wf_vals (length (status s)) (vals_of s) -> vars_ok num prog (length (vals_of s)) ->
      (prog_lags num prog <= lags d)%nat -> (prog_leads num prog <= leads d)%nat ->
      solve_period_mon (length (status s)) prog d o lab s = solve_period_P prog d o lab s.
    Proof.
      intros Hwf Hvars Hlag Hlead. unfold solve_period_mon, solve_period_P, solve_period_M.
      destruct (locate lab); try reflexivity.
      exact (monitored_solve_t_eq num add sub mul div pow neg absf ltb leb eqb zero fun1 fun2 flagged isfin prog d o z s Hwf Hvars Hlag Hlead).
    Qed.
  End AnyLabels.

  (* ---- every supported span type (list / tuple / range, NumPy array, pandas Index), labels without repetition ---- *)
  Theorem solve_period_every_span_touches_only_its_period k (prog : program) d o (span : list Z) lab i s :
    NoDup span -> nth_error span i = Some lab ->
    length (status s) = length span ->
    wf_vals (length (status s)) (vals_of s) ->
    (prog_lags num prog <= lags d)%nat -> (prog_leads num prog <= leads d)%nat ->
    let s' := fst (solve_period_P Z (locate_span k span) prog d o lab s) in
    (forall j q, (forall c, In (j, c) (prog_lhs num prog) -> Z.of_nat q <> Z.of_nat i + c) ->
                 (offset o = 0 \/ ~ In j (endo d) \/ q <> i) ->
                 nth_error (nth j (vals_of s') []) q = nth_error (nth j (vals_of s) []) q) /\
    shape (vals_of s') = shape (vals_of s) /\ sf_frame i s s'.
  Proof.
    intros Hnd. apply solve_period_P_touches_only_its_period. apply SolveAllSpanFacts.locate_span_ok. exact Hnd.
  Qed.

  (* no hypothesis on the labels at all: the defaults are positions (fix 7cd6323), so repeated labels are fine too *)
  Theorem solve_every_span_default_range_frame k (prog : program) d o (span : list Z) s :
    min_iter o <= max_iter o ->
    length (status s) = length span -> (lags d + leads d < length span)%nat ->
    wf_vals (length (status s)) (vals_of s) ->
    (prog_lags num prog <= lags d)%nat -> (prog_leads num prog <= leads d)%nat ->
    let n := length (status s) in
    let s' := fst (solve_P num add sub mul div pow neg absf ltb leb eqb zero fun1 fun2 flagged isfin Z (locate_span k span)
                           prog d o span None None s) in
    (forall i q,
        (forall c p, In (i, c) (prog_lhs num prog) -> (lags d <= p)%nat -> (p + leads d < n)%nat -> Z.of_nat q <> Z.of_nat p + c) ->
        (offset o = 0 \/ ~ In i (endo d) \/ (q < lags d)%nat \/ (n <= q + leads d)%nat) ->
        nth_error (nth i (vals_of s') []) q = nth_error (nth i (vals_of s) []) q) /\
    shape (vals_of s') = shape (vals_of s) /\
    (forall q, (q < lags d)%nat \/ (n <= q + leads d)%nat ->
               nth_error (status s') q = nth_error (status s) q /\ nth_error (iters s') q = nth_error (iters s) q).
  Proof.
    intros Hmm. apply solve_P_default_range_frame. exact Hmm.
  Qed.
End EvalSolveSpan.
