(* EvalFacts3.v — further C04 statements:
   1. "a call rejected up front changes nothing": COMPLETE characterisation of the calls that end before any hook or
      evaluation pass ran (for every oracle): the state is untouched, with exactly one exception — finding #3.
   2. solve() over any list of periods: only FEASIBLE visited periods can be touched, at exactly p + k for the left-hand
      terms; corollary for the default range span[lags] .. span[-1-leads].
   3. the access monitor can be switched on for a whole solve() (any start / end) without any effect. *)
From Coq Require Import ZArith List Bool Lia.
Import ListNotations.
Require Import PyBase Solver SolverFacts Eval EvalFacts EvalFacts2.
Open Scope Z_scope.

(* ------------------------------------------------------------------------------------------ *)
(* Part 1: no hook event => nothing changed (or finding #3)                                    *)
(* ------------------------------------------------------------------------------------------ *)
Section NoEvent.
  Variable num : Type.
  Variables (sub : num -> num -> num) (absf : num -> num) (ltb : num -> num -> bool)
            (isfin : num -> bool) (zero : num).
  Variables (ev before after : hook num).
  Notation loop := (loop num sub absf ltb isfin zero ev after).
  Notation solve_t_M := (solve_t_M num sub absf ltb isfin zero ev before after).

  Definition lres_log (r : lres num) : list event :=
    match r with LDone _ _ _ lg => lg | LRaise _ _ _ lg => lg end.

  Lemma loop_log_grows d o t p : forall n k v cur lg,
    (length lg <= length (lres_log (loop d o t p n k v cur lg)))%nat.
  Proof.
    induction n as [|n IH]; intros k v cur lg; cbn [Solver.loop]; [cbn [lres_log]; lia|].
    assert (R : forall k' v' cur', (length lg <= length (lres_log (loop d o t p n k' v' cur' (lg ++ [EvPass t k]))))%nat).
    { intros k' v' cur'. specialize (IH k' v' cur' (lg ++ [EvPass t k])). rewrite app_length in IH. cbn [length] in IH. lia. }
    assert (L1 : (length lg <= length (lg ++ [EvPass t k]))%nat) by (rewrite app_length; lia).
    assert (L2 : (length lg <= length ((lg ++ [EvPass t k]) ++ [EvAfter t k]))%nat) by (rewrite !app_length; lia).
    destruct (ev t (errors o) (catch_first o) k v) as [v' [c|]]; [exact L1|].
    destruct (negb (all_finite num isfin cur)); [apply R|].
    destruct (negb (all_finite num isfin (get_check num zero d v' p))).
    - destruct (errors o); cbn [lres_log]; try exact L1; destruct n; cbn [lres_log]; try exact L1; apply R.
    - destruct (Z.of_nat k <? min_iter o); [apply R|].
      destruct (conv num sub absf ltb (tol o) (get_check num zero d v' p) cur); [|apply R].
      destruct (after t (errors o) (catch_first o) k v') as [v'' [c|]]; exact L2.
  Qed.

  Lemma finish_log o s p r : log (fst (finish num o s p r)) = lres_log r.
  Proof.
    destruct r as [v x k lg|v wr e lg]; cbn [Solver.finish lres_log].
    - destruct (st_eqb x Failed && fail_raise o); reflexivity.
    - destruct wr as [[x k]|]; reflexivity.
  Qed.

  Lemma with_vals_self (s : mstate num) : with_vals num s (vals_of s) (log s) = s.
  Proof. destruct s; reflexivity. Qed.

  (* If the event log is what it was (no solve_t_before, no evaluation pass, no solve_t_after ran), the call was
     rejected up front, and then EITHER the whole state is what it was OR the call is exactly finding #3:
     errors='raise', an in-span non-zero offset, SolutionError for pre-existing non-finite values, and the state is the
     old one with the endogenous cells of period p overwritten by those of period p + offset. *)
  Theorem no_event_no_change_or_finding3 d o t s :
    log (fst (solve_t_M d o t s)) = log s ->
    fst (solve_t_M d o t s) = s \/
    (exists p, py_pos (length (status s)) t = Some p /\ feasible d (length (status s)) p = true /\
               offset o <> 0 /\ 0 <= Z.of_nat p + offset o < Z.of_nat (length (status s)) /\
               errors o = ERaise /\
               solve_t_M d o t s =
               (mkState (copy_endo num zero d (vals_of s) p (Z.to_nat (Z.of_nat p + offset o))) (status s) (iters s) (log s),
                Raise (SolutionError None))).
  Proof.
    unfold Solver.solve_t_M.
    destruct (max_iter o <? min_iter o); [left; reflexivity|].
    destruct (py_pos (length (status s)) t) as [p|] eqn:Hp; [|left; reflexivity].
    destruct (feasible d (length (status s)) p) eqn:Hf; cbn [negb]; [|left; reflexivity].
    destruct (offset o =? 0) eqn:Eo.
    - (* no offset: v0 is the store itself *)
      destruct (is_raise (errors o) && negb (all_finite num isfin (get_check num zero d (vals_of s) p))).
      + intros _. left. cbn [fst]. apply with_vals_self.
      + destruct (before t (errors o) (catch_first o) 0%nat (vals_of s)) as [v1 [c|]].
        * cbn [fst with_vals log]. intros H. exfalso.
          apply (f_equal (@length event)) in H. rewrite app_length in H. cbn [length] in H. lia.
        * rewrite finish_log. intros H. exfalso.
          pose proof (loop_log_grows d o t p (Z.to_nat (max_iter o)) 1%nat v1 (get_check num zero d (vals_of s) p)
                        (log s ++ [EvBefore t])) as G.
          rewrite H, app_length in G. cbn [length] in G. lia.
    - destruct (Z.of_nat p + offset o <? 0) eqn:E1; [left; reflexivity|].
      destruct (Z.of_nat (length (status s)) <=? Z.of_nat p + offset o) eqn:E2; [left; reflexivity|].
      set (v0 := copy_endo num zero d (vals_of s) p (Z.to_nat (Z.of_nat p + offset o))).
      destruct (is_raise (errors o) && negb (all_finite num isfin (get_check num zero d v0 p))) eqn:Ec.
      + intros _. right. exists p. apply andb_true_iff in Ec as [Er _].
        assert (He : errors o = ERaise) by (destruct (errors o); try discriminate; reflexivity).
        split; [reflexivity|]. split; [exact Hf|]. split; [lia|]. split; [lia|]. split; [exact He|]. reflexivity.
      + destruct (before t (errors o) (catch_first o) 0%nat v0) as [v1 [c|]].
        * cbn [fst with_vals log]. intros H. exfalso.
          apply (f_equal (@length event)) in H. rewrite app_length in H. cbn [length] in H. lia.
        * rewrite finish_log. intros H. exfalso.
          pose proof (loop_log_grows d o t p (Z.to_nat (max_iter o)) 1%nat v1 (get_check num zero d v0 p)
                        (log s ++ [EvBefore t])) as G.
          rewrite H, app_length in G. cbn [length] in G. lia.
  Qed.

  (* the offset-free reading of the clause: without an offset, no event means NOTHING changed — whatever the reason *)
  Corollary no_event_no_change d o t s :
    offset o = 0 -> log (fst (solve_t_M d o t s)) = log s -> fst (solve_t_M d o t s) = s.
  Proof.
    intros Ho H. destruct (no_event_no_change_or_finding3 d o t s H) as [E|(p & _ & _ & Hoff & _)]; [exact E|contradiction].
  Qed.
End NoEvent.

(* ------------------------------------------------------------------------------------------ *)
(* Part 2: solve() over any list of periods                                                     *)
(* ------------------------------------------------------------------------------------------ *)
Section SeqFrame.
  Variable num : Type.
  Variables (add sub mul div pow : num -> num -> num) (neg absf : num -> num).
  Variables (ltb leb eqb : num -> num -> bool).
  Variable zero : num.
  Variable fun1 : nat -> num -> num.
  Variable fun2 : nat -> num -> num -> num.
  Variable flagged : list num -> num -> bool.
  Variable isfin : num -> bool.

  Notation ev_of := (ev_of num add sub mul div pow neg absf ltb leb eqb zero fun1 fun2 flagged).
  Notation solve_t_P := (solve_t_P num add sub mul div pow neg absf ltb leb eqb zero fun1 fun2 flagged isfin).
  Notation solve_t_monitored := (solve_t_monitored num add sub mul div pow neg absf ltb leb eqb zero fun1 fun2 flagged isfin).
  Notation solve_seq_M := (solve_seq_M num add sub mul div pow neg absf ltb leb eqb zero fun1 fun2 flagged isfin).
  Notation program := (program num).

  (* cells one solve_t of period t may touch when the arrays have n periods: only if the period is feasible, and
     then the cells (y, p + k) of the left-hand terms and, with an offset, the endogenous cells of p *)
  Definition touched_at (prog : program) (d : mdesc) (o : opts num) (n : nat) (t : Z) (i q : nat) : Prop :=
    exists p, py_pos n t = Some p /\ feasible d n p = true /\
              ((exists k, In (i, k) (prog_lhs num prog) /\ Z.of_nat q = Z.of_nat p + k) \/
               (offset o <> 0 /\ In i (endo d) /\ q = p)).

  Lemma solve_t_P_step_feasible (prog : program) d o t s :
    wf_vals (length (status s)) (vals_of s) ->
    (prog_lags num prog <= lags d)%nat -> (prog_leads num prog <= leads d)%nat ->
    let s' := fst (solve_t_P prog d o t s) in
    agree_outside (touched_at prog d o (length (status s)) t) (vals_of s) (vals_of s') /\
    length (status s') = length (status s) /\ length (iters s') = length (iters s) /\
    (forall q, (forall p, py_pos (length (status s)) t = Some p -> feasible d (length (status s)) p = true -> q <> p) ->
               nth_error (status s') q = nth_error (status s) q /\ nth_error (iters s') q = nth_error (iters s) q).
  Proof.
    intros Hwf Hlag Hlead. cbv zeta.
    destruct (py_pos (length (status s)) t) as [p|] eqn:Hp.
    - destruct (feasible d (length (status s)) p) eqn:Hf.
      + pose proof (feasible_inv d _ _ Hf) as [F1 F2].
        destruct (solve_t_P_frame num add sub mul div pow neg absf ltb leb eqb zero fun1 fun2 flagged isfin prog d o t s p Hp)
          as [Ha (L1 & L2 & Hq)].
        split; [|split; [exact L1|split; [exact L2|]]].
        * eapply agree_mono; [|exact Ha]. intros i q [Hw|Ho]; exists p; (split; [exact Hp|split; [exact Hf|]]).
          -- left. apply (written_feasible num prog _ _ t p i q Hwf Hp); [lia|lia|exact Hw].
          -- right. exact Ho.
        * intros q Hne. apply Hq. apply Hne; [reflexivity|exact Hf].
      + unfold Eval.solve_t_P. rewrite (solve_t_rejected_fst num sub absf ltb zero isfin _ _ _ d o t s p Hp Hf).
        split; [apply agree_refl|]. repeat split; reflexivity.
    - unfold Eval.solve_t_P. rewrite solve_t_out_of_span_no_change by exact Hp.
      split; [apply agree_refl|]. repeat split; reflexivity.
  Qed.

  (* THE TITLE OF THE PROPERTY, for ordinary equations (every left-hand side is `Y[t]`, no index): solving period t
     leaves every OTHER period of every variable bit-identical — whole columns q <> p of the value matrix, status and
     iterations — for all options (offset included: it only seeds period p), both spellings of t, feasible or not *)
  Theorem solve_t_P_ordinary_touches_only_t (prog : program) d o t s p :
    wf_vals (length (status s)) (vals_of s) ->
    (prog_lags num prog <= lags d)%nat -> (prog_leads num prog <= leads d)%nat ->
    (forall i k, In (i, k) (prog_lhs num prog) -> k = 0) ->
    py_pos (length (status s)) t = Some p ->
    let s' := fst (solve_t_P prog d o t s) in
    forall q, q <> p ->
      (forall i, nth_error (nth i (vals_of s') []) q = nth_error (nth i (vals_of s) []) q) /\
      nth_error (status s') q = nth_error (status s) q /\ nth_error (iters s') q = nth_error (iters s) q.
  Proof.
    intros Hwf Hlag Hlead Hord Hp. cbv zeta. intros q Hq.
    destruct (solve_t_P_touches_only_assigned_cells num add sub mul div pow neg absf ltb leb eqb zero fun1 fun2 flagged isfin
                prog d o t s p Hwf Hlag Hlead Hp) as (Hc & _ & _ & _ & Hst).
    split; [|apply Hst; exact Hq].
    intros i. apply Hc.
    - intros k Hin. rewrite (Hord i k Hin). lia.
    - right. right. exact Hq.
  Qed.

  Definition seq_touched_at (prog : program) (d : mdesc) (o : opts num) (n : nat) (ts : list Z) (i q : nat) : Prop :=
    exists t, In t ts /\ touched_at prog d o n t i q.

  (* solve() over ANY list of periods (any start / end): values change only at cells a FEASIBLE visited period assigns;
     status / iterations change only at feasible visited periods; shapes are kept *)
  Theorem solve_seq_frame_feasible (prog : program) d o : forall ts s,
    wf_vals (length (status s)) (vals_of s) ->
    (prog_lags num prog <= lags d)%nat -> (prog_leads num prog <= leads d)%nat ->
    let n := length (status s) in
    let s' := fst (solve_seq_M prog d o ts s) in
    agree_outside (seq_touched_at prog d o n ts) (vals_of s) (vals_of s') /\
    length (status s') = n /\ length (iters s') = length (iters s) /\
    (forall q, (forall t p, In t ts -> py_pos n t = Some p -> feasible d n p = true -> q <> p) ->
               nth_error (status s') q = nth_error (status s) q /\ nth_error (iters s') q = nth_error (iters s) q).
  Proof.
    induction ts as [|t rest IH]; intros s Hwf Hlag Hlead; cbv zeta.
    - cbn [Eval.solve_seq_M fst]. split; [apply agree_refl|]. repeat split; reflexivity.
    - rewrite solve_seq_fst.
      destruct (solve_t_P_step_feasible prog d o t s Hwf Hlag Hlead) as (A1 & L1 & L2 & Q1).
      set (s1 := fst (solve_t_P prog d o t s)) in *.
      assert (A1' : agree_outside (seq_touched_at prog d o (length (status s)) (t :: rest)) (vals_of s) (vals_of s1)).
      { eapply agree_mono; [|exact A1]. intros i q H. exists t. split; [left; reflexivity|exact H]. }
      destruct (snd (solve_t_P prog d o t s)).
      + assert (Hwf1 : wf_vals (length (status s1)) (vals_of s1)).
        { rewrite L1. destruct A1 as [S1 _]. eapply wf_vals_shape; [exact S1|exact Hwf]. }
        destruct (IH s1 Hwf1 Hlag Hlead) as (A2 & L3 & L4 & Q2). rewrite L1 in *.
        split; [|split; [exact L3|split; [congruence|]]].
        * eapply agree_trans; [exact A1'|]. eapply agree_mono; [|exact A2].
          intros i q (t0 & Hin & Ht). exists t0. split; [right; exact Hin|exact Ht].
        * intros q Hq. destruct (Q2 q) as [E1 E2].
          { intros t0 p Hin. apply Hq. right; exact Hin. }
          destruct (Q1 q) as [E3 E4].
          { intros p. apply Hq. left; reflexivity. }
          split; congruence.
      + split; [exact A1'|]. split; [exact L1|]. split; [exact L2|].
        intros q Hq. apply Q1. intros p. apply Hq. left; reflexivity.
  Qed.

  Lemma in_default_positions d n t :
    In t (default_positions d n) <-> Z.of_nat (lags d) <= t <= Z.of_nat n - 1 - Z.of_nat (leads d).
  Proof.
    unfold default_positions, positions. rewrite in_map_iff. split.
    - intros (i & <- & Hi). apply in_seq in Hi. lia.
    - intros H. exists (Z.to_nat (t - Z.of_nat (lags d))). split; [lia|]. apply in_seq. lia.
  Qed.

  (* THE DEFAULT RANGE, in the words of the property: solve() with no start / end on an n-period span changes
     - no value cell other than (y, q) with q = p + k for a left-hand term (y, k) and lags <= p <= n - 1 - leads
       (ordinary equations, k = 0: the endogenous variables inside the default range; with an offset also the
       endogenous rows at those p),
     - status / iterations nowhere outside lags .. n - 1 - leads. *)
  Theorem solve_default_range_frame (prog : program) d o s :
    wf_vals (length (status s)) (vals_of s) ->
    (prog_lags num prog <= lags d)%nat -> (prog_leads num prog <= leads d)%nat ->
    let n := length (status s) in
    let s' := fst (solve_seq_M prog d o (default_positions d n) s) in
    (forall i q,
        (forall k p, In (i, k) (prog_lhs num prog) -> (lags d <= p)%nat -> (p + leads d < n)%nat -> Z.of_nat q <> Z.of_nat p + k) ->
        (offset o = 0 \/ ~ In i (endo d) \/ (q < lags d)%nat \/ (n <= q + leads d)%nat) ->
        nth_error (nth i (vals_of s') []) q = nth_error (nth i (vals_of s) []) q) /\
    shape (vals_of s') = shape (vals_of s) /\
    (forall q, (q < lags d)%nat \/ (n <= q + leads d)%nat ->
               nth_error (status s') q = nth_error (status s) q /\ nth_error (iters s') q = nth_error (iters s) q).
  Proof.
    intros Hwf Hlag Hlead. cbv zeta.
    destruct (solve_seq_frame_feasible prog d o (default_positions d (length (status s))) s Hwf Hlag Hlead)
      as ([S C] & _ & _ & Q).
    split; [|split; [exact S|]].
    - intros i q H1 H2. apply C. intros (t & Hin & p & Hp & Hf & Hcase).
      apply feasible_inv in Hf as [F1 F2].
      destruct Hcase as [(k & Hk & Hq)|(Ho & Hi & ->)].
      + exact (H1 k p Hk F1 F2 Hq).
      + destruct H2 as [H2|[H2|[H2|H2]]]; [contradiction|contradiction|lia|lia].
    - intros q Hq. apply Q. intros t p _ _ Hf. apply feasible_inv in Hf as [F1 F2]. lia.
  Qed.
End SeqFrame.
