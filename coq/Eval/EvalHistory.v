(* EvalHistory.v — histories: any number of solve_t calls on ONE model instance, each with its own options and period,
   whatever each of them returns or raises (the caller may catch the exception and go on).  The union frame: after the
   whole history a value cell differs only if some call, at a FEASIBLE period p, could assign it — (y, p + k) for a
   left-hand term, or with that call's offset the endogenous cells of p —, status / iterations differ only at feasible
   periods some call addressed; array lengths never change.  Nothing leaks from one call into the next. *)
From Coq Require Import ZArith List Bool Lia.
Import ListNotations.
Require Import PyBase Solver SolverFacts Eval EvalFacts EvalFacts2 EvalFacts3.
Open Scope Z_scope.

Section EvalHistory.
  Variable num : Type.
  Variables (add sub mul div pow : num -> num -> num) (neg absf : num -> num).
  Variables (ltb leb eqb : num -> num -> bool).
  Variable zero : num.
  Variable fun1 : nat -> num -> num.
  Variable fun2 : nat -> num -> num -> num.
  Variable flagged : list num -> num -> bool.
  Variable isfin : num -> bool.
  Notation solve_t_P := (solve_t_P num add sub mul div pow neg absf ltb leb eqb zero fun1 fun2 flagged isfin).
  Notation program := (program num).
  Notation touched_at := (touched_at num).

  (* the state after a history of calls (options, period); outcomes are whatever they are *)
  Fixpoint run_history (prog : program) (d : mdesc) (calls : list (opts num * Z)) (s : mstate num) : mstate num :=
    match calls with
    | [] => s
    | (o, t) :: rest => run_history prog d rest (fst (solve_t_P prog d o t s))
    end.

  Definition history_touched (prog : program) (d : mdesc) (n : nat) (calls : list (opts num * Z)) (i q : nat) : Prop :=
    exists o t, In (o, t) calls /\ touched_at prog d o n t i q.

  Theorem history_frame (prog : program) d : forall calls s,
    wf_vals (length (status s)) (vals_of s) ->
    (prog_lags num prog <= lags d)%nat -> (prog_leads num prog <= leads d)%nat ->
    let n := length (status s) in
    let s' := run_history prog d calls s in
    agree_outside (history_touched prog d n calls) (vals_of s) (vals_of s') /\
    length (status s') = n /\ length (iters s') = length (iters s) /\
    (forall q, (forall o t p, In (o, t) calls -> py_pos n t = Some p -> feasible d n p = true -> q <> p) ->
               nth_error (status s') q = nth_error (status s) q /\ nth_error (iters s') q = nth_error (iters s) q).
  Proof.
    induction calls as [|[o t] rest IH]; intros s Hwf Hlag Hlead; cbv zeta; cbn [run_history].
    - split; [apply agree_refl|]. repeat split; reflexivity.
    - destruct (solve_t_P_step_feasible num add sub mul div pow neg absf ltb leb eqb zero fun1 fun2 flagged isfin
                  prog d o t s Hwf Hlag Hlead) as (A1 & L1 & L2 & Q1).
      set (s1 := fst (solve_t_P prog d o t s)) in *.
      assert (Hwf1 : wf_vals (length (status s1)) (vals_of s1)).
      { rewrite L1. destruct A1 as [S1 _]. eapply wf_vals_shape; [exact S1|exact Hwf]. }
      destruct (IH s1 Hwf1 Hlag Hlead) as (A2 & L3 & L4 & Q2). rewrite L1 in *.
      split; [|split; [exact L3|split; [congruence|]]].
      + eapply agree_trans.
        * eapply agree_mono; [|exact A1]. intros i q H. exists o, t. split; [left; reflexivity|exact H].
        * eapply agree_mono; [|exact A2]. intros i q (o' & t' & Hin & H). exists o', t'. split; [right; exact Hin|exact H].
      + intros q Hq. destruct (Q2 q) as [E1 E2].
        { intros o' t' p Hin. apply (Hq o' t' p). right; exact Hin. }
        destruct (Q1 q) as [E3 E4].
        { intros p. apply (Hq o t p). left; reflexivity. }
        split; congruence.
  Qed.

  (* in particular: rows no statement assigns are bit-identical after ANY history without offsets on them *)
  Corollary history_unassigned_rows_unchanged (prog : program) d calls s i :
    wf_vals (length (status s)) (vals_of s) ->
    (prog_lags num prog <= lags d)%nat -> (prog_leads num prog <= leads d)%nat ->
    (forall k, ~ In (i, k) (prog_lhs num prog)) -> ~ In i (endo d) ->
    nth i (vals_of (run_history prog d calls s)) [] = nth i (vals_of s) [].
  Proof.
    intros Hwf Hlag Hlead Hn He.
    destruct (history_frame prog d calls s Hwf Hlag Hlead) as (A & _).
    apply (agree_row_eq num _ _ _ i A). intros q (o & t & _ & p & _ & _ & [(k & Hk & _)|(_ & Hi & _)]).
    - exact (Hn k Hk).
    - exact (He Hi).
  Qed.
End EvalHistory.
