(* EvalFacts2.v — the C04 statements about solve_t / solve() of a parser-built model:
   solver model (Solver.v) composed with the evaluation model (Eval.v), for every program. *)
From Coq Require Import ZArith List Bool Lia.
Import ListNotations.
Require Import PyBase Solver SolverFacts Eval EvalFacts.
Open Scope Z_scope.

Section EvalSolve.
  Variable num : Type.
  Variables (add sub mul div pow : num -> num -> num) (neg absf : num -> num).
  Variables (ltb leb eqb : num -> num -> bool).
  Variable zero : num.
  Variable fun1 : nat -> num -> num.
  Variable fun2 : nat -> num -> num -> num.
  Variable flagged : list num -> num -> bool.
  Variable isfin : num -> bool.

  Notation eval_pass := (eval_pass num add sub mul div pow neg absf ltb leb eqb zero fun1 fun2 flagged).
  Notation ev_of := (ev_of num add sub mul div pow neg absf ltb leb eqb zero fun1 fun2 flagged).
  Notation ev_monitored := (ev_monitored num add sub mul div pow neg absf ltb leb eqb zero fun1 fun2 flagged).
  Notation solve_t_P := (solve_t_P num add sub mul div pow neg absf ltb leb eqb zero fun1 fun2 flagged isfin).
  Notation solve_t_monitored := (solve_t_monitored num add sub mul div pow neg absf ltb leb eqb zero fun1 fun2 flagged isfin).
  Notation solve_seq_M := (solve_seq_M num add sub mul div pow neg absf ltb leb eqb zero fun1 fun2 flagged isfin).
  Notation program := (program num).
  Notation written := (written num).
  Notation vars_ok := (vars_ok num).

  (* what one solve_t(t) may touch in the value matrix: the cells its statements assign, and with an offset
     the endogenous cells of the period itself *)
  Definition touched (prog : program) (d : mdesc) (o : opts num) (sh : list nat) (t : Z) (p : nat) (i q : nat) : Prop :=
    written prog sh t i q \/ (offset o <> 0 /\ In i (endo d) /\ q = p).

  Theorem solve_t_P_frame (prog : program) d o t s p :
    py_pos (length (status s)) t = Some p ->
    let s' := fst (solve_t_P prog d o t s) in
    agree_outside (touched prog d o (shape (vals_of s)) t p) (vals_of s) (vals_of s') /\ sf_frame p s s'.
  Proof.
    intros Hp. unfold Eval.solve_t_P, touched.
    apply (solve_t_frame num sub absf ltb isfin zero (ev_of prog) (hook_pass num) (hook_pass num) d o t s p
             (written prog (shape (vals_of s)) t) Hp).
    - apply parsed_ev_frame.
    - apply hook_pass_frame.
    - apply hook_pass_frame.
  Qed.

  (* in a period with room for the lags and leads the assigned cells are exactly (y, p + k) *)
  Lemma written_feasible (prog : program) n (v : vals num) t p i q :
    wf_vals n v -> py_pos n t = Some p ->
    (prog_lags num prog <= p)%nat -> (p + prog_leads num prog < n)%nat ->
    written prog (shape v) t i q -> exists k, In (i, k) (prog_lhs num prog) /\ Z.of_nat q = Z.of_nat p + k.
  Proof.
    intros Hwf Hp Hlag Hlead (k & Hin & Hq). exists k. split; [exact Hin|].
    rewrite shape_nth in Hq.
    destruct (Nat.lt_ge_cases i (length v)) as [Hi|Hi].
    - rewrite (Hwf i Hi) in Hq.
      assert (Hin' : In (i, k) (prog_terms num prog)) by (unfold prog_terms; apply in_or_app; left; exact Hin).
      pose proof (terms_lags_bound _ _ _ Hin') as B1. pose proof (terms_leads_bound _ _ _ Hin') as B2.
      fold (prog_lags num prog) in B1. fold (prog_leads num prog) in B2.
      rewrite (py_pos_shift n t p k Hp) in Hq by lia. inversion Hq; subst. lia.
    - rewrite nth_overflow in Hq by exact Hi. cbn [length] in Hq. rewrite py_pos_zero_len in Hq. discriminate.
  Qed.

  Lemma solve_t_rejected_fst (ev before after : hook num) d o t s p :
    py_pos (length (status s)) t = Some p -> feasible d (length (status s)) p = false ->
    fst (solve_t_M num sub absf ltb isfin zero ev before after d o t s) = s.
  Proof.
    intros Hp Hf. unfold Solver.solve_t_M. destruct (max_iter o <? min_iter o); [reflexivity|]. rewrite Hp, Hf. reflexivity.
  Qed.

  Lemma feasible_inv d n p : feasible d n p = true -> (lags d <= p)%nat /\ (p + leads d < n)%nat.
  Proof.
    unfold feasible. intros H. apply andb_true_iff in H as [H1 H2].
    apply Nat.leb_le in H1. apply Nat.ltb_lt in H2. split; assumption.
  Qed.

  (* THE C04 FRAME STATEMENT: solving period t of a parser-built model changes no value cell other than the
     cells (y, p + k) its equations assign for that period (and, with an offset, the endogenous cells of the
     period), keeps every array's length, and changes status / iterations at p only — for every program,
     every option set, every store, both spellings of t, feasible or not. *)
  Theorem solve_t_P_touches_only_assigned_cells (prog : program) d o t s p :
    wf_vals (length (status s)) (vals_of s) ->
    (prog_lags num prog <= lags d)%nat -> (prog_leads num prog <= leads d)%nat ->
    py_pos (length (status s)) t = Some p ->
    let s' := fst (solve_t_P prog d o t s) in
    (forall i q, (forall k, In (i, k) (prog_lhs num prog) -> Z.of_nat q <> Z.of_nat p + k) ->
                 (offset o = 0 \/ ~ In i (endo d) \/ q <> p) ->
                 nth_error (nth i (vals_of s') []) q = nth_error (nth i (vals_of s) []) q) /\
    shape (vals_of s') = shape (vals_of s) /\ sf_frame p s s'.
  Proof.
    intros Hwf Hlag Hlead Hp. cbv zeta.
    destruct (feasible d (length (status s)) p) eqn:Hf.
    - apply feasible_inv in Hf as [F1 F2].
      destruct (solve_t_P_frame prog d o t s p Hp) as [[Hs Hc] Hsf].
      split; [|split; assumption]. intros i q H1 H2. apply Hc. intros [Hw|(Ho & Hi & Hq)].
      + destruct (written_feasible prog _ _ t p i q Hwf Hp ltac:(lia) ltac:(lia) Hw) as (k & Hin & Hk).
        exact (H1 k Hin Hk).
      + destruct H2 as [H2|[H2|H2]]; auto.
    - unfold Eval.solve_t_P. rewrite (solve_t_rejected_fst _ _ _ d o t s p Hp Hf).
      split; [intros; reflexivity|]. split; [reflexivity|]. apply sf_frame_same; reflexivity.
  Qed.

  (* rows that no statement assigns — exogenous variables, parameters, errors — are bit-identical afterwards,
     everywhere, whatever t and the options are (with an offset: unless the user listed the row as endogenous) *)
  Theorem solve_t_P_unassigned_rows_unchanged (prog : program) d o t s i :
    (forall k, ~ In (i, k) (prog_lhs num prog)) -> (offset o = 0 \/ ~ In i (endo d)) ->
    nth i (vals_of (fst (solve_t_P prog d o t s))) [] = nth i (vals_of s) [].
  Proof.
    intros Hn Ho. destruct (py_pos (length (status s)) t) as [p|] eqn:Hp.
    - destruct (solve_t_P_frame prog d o t s p Hp) as [Ha _].
      apply (agree_row_eq num _ _ _ i Ha). intros q [(k & Hin & _)|(Hoff & Hi & _)].
      + exact (Hn k Hin).
      + destruct Ho as [Ho|Ho]; auto.
    - unfold Eval.solve_t_P. rewrite solve_t_out_of_span_no_change by exact Hp. reflexivity.
  Qed.

  (* with the non-negative spelling of t the position served IS the index requested, and it lies in the span *)
  Corollary eval_pass_served_eq_requested catch (prog : program) n t p (v : vals num) :
    wf_vals n v -> vars_ok prog (length v) ->
    py_pos n t = Some p -> 0 <= t ->
    (prog_lags num prog <= p)%nat -> (p + prog_leads num prog < n)%nat ->
    Forall (fun a => acc_srv a = Some (Z.to_nat (acc_req a)) /\ 0 <= acc_req a < Z.of_nat n)
           (snd (eval_pass catch prog t v)).
  Proof.
    intros Hwf Hvars Hp Ht Hlag Hlead.
    pose proof (eval_pass_accesses_in_span num add sub mul div pow neg absf ltb leb eqb zero fun1 fun2 flagged
                  catch prog n t p v Hwf Hvars Hp Hlag Hlead) as HF.
    eapply Forall_impl; [|exact HF]. intros a (x & k & _ & _ & Hreq & Hsrv & Hk).
    apply py_pos_inv in Hp as [_ [[_ Ht']|[Hneg _]]]; [|lia].
    rewrite Hreq, Hsrv. split; [f_equal; f_equal; lia|lia].
  Qed.

  (* ---- reads never wrap: the access monitor can be switched on without any effect ---- *)
  Theorem monitored_solve_t_eq (prog : program) d o t s :
    wf_vals (length (status s)) (vals_of s) -> vars_ok prog (length (vals_of s)) ->
    (prog_lags num prog <= lags d)%nat -> (prog_leads num prog <= leads d)%nat ->
    solve_t_monitored (length (status s)) prog d o t s = solve_t_P prog d o t s.
  Proof.
    intros Hwf Hvars Hlag Hlead. unfold Eval.solve_t_monitored, Eval.solve_t_P.
    destruct (py_pos (length (status s)) t) as [p|] eqn:Hp.
    2:{ unfold Solver.solve_t_M. rewrite Hp. reflexivity. }
    destruct (feasible d (length (status s)) p) eqn:Hf.
    2:{ unfold Solver.solve_t_M. rewrite Hp, Hf. reflexivity. }
    apply feasible_inv in Hf as [F1 F2].
    apply solve_t_ext.
    - intros em cf k v Hsh. unfold Eval.ev_monitored, Eval.ev_of.
      assert (Hwf' : wf_vals (length (status s)) v) by (eapply wf_vals_shape; [exact Hsh|exact Hwf]).
      assert (Hvars' : vars_ok prog (length v)).
      { rewrite (shape_eq_length num _ _ Hsh). exact Hvars. }
      pose proof (eval_pass_log_ok num add sub mul div pow neg absf ltb leb eqb zero fun1 fun2 flagged
                    (is_raise em && cf) prog _ t p v Hwf' Hvars' Hp ltac:(lia) ltac:(lia)) as Hok.
      destruct (eval_pass (is_raise em && cf) prog t v) as [r lg]. cbn [snd fst] in *. rewrite Hok. reflexivity.
    - intros em cf k v Hsh.
      destruct (parsed_ev_frame num add sub mul div pow neg absf ltb leb eqb zero fun1 fun2 flagged prog _ t em cf k v Hsh) as [S _].
      rewrite S. exact Hsh.
    - intros em cf k v Hsh. exact Hsh.
  Qed.

  (* ---- solve(): a sequence of solve_t calls touches only the periods it visits ---- *)
  Definition seq_touched (prog : program) (d : mdesc) (o : opts num) (s : mstate num) (ts : list Z) (i q : nat) : Prop :=
    exists t p, In t ts /\ py_pos (length (status s)) t = Some p /\ touched prog d o (shape (vals_of s)) t p i q.

  Lemma solve_t_P_step (prog : program) d o t s :
    let s' := fst (solve_t_P prog d o t s) in
    agree_outside (seq_touched prog d o s [t]) (vals_of s) (vals_of s') /\
    length (status s') = length (status s) /\ length (iters s') = length (iters s) /\
    (forall q, py_pos (length (status s)) t <> Some q ->
               nth_error (status s') q = nth_error (status s) q /\ nth_error (iters s') q = nth_error (iters s) q).
  Proof.
    cbv zeta. destruct (py_pos (length (status s)) t) as [p|] eqn:Hp.
    - destruct (solve_t_P_frame prog d o t s p Hp) as [Ha (L1 & L2 & Hq)].
      split; [|split; [exact L1|split; [exact L2|]]].
      + eapply agree_mono; [|exact Ha]. intros i q H. exists t, p. split; [left; reflexivity|split; [exact Hp|exact H]].
      + intros q Hne. apply Hq. intros ->. apply Hne. reflexivity.
    - unfold Eval.solve_t_P. rewrite solve_t_out_of_span_no_change by exact Hp.
      split; [apply agree_refl|]. repeat split; reflexivity.
  Qed.

  Lemma solve_seq_fst (prog : program) d o t rest s :
    fst (solve_seq_M prog d o (t :: rest) s) =
    match snd (solve_t_P prog d o t s) with
    | Ret _ => fst (solve_seq_M prog d o rest (fst (solve_t_P prog d o t s)))
    | Raise _ => fst (solve_t_P prog d o t s)
    end.
  Proof.
    cbn [Eval.solve_seq_M]. destruct (solve_t_P prog d o t s) as [s1 [b|e]]; cbn [fst snd]; [|reflexivity].
    destruct (solve_seq_M prog d o rest s1) as [s2 [bs|e]]; reflexivity.
  Qed.

  Theorem solve_seq_frame (prog : program) d o : forall ts s,
    let s' := fst (solve_seq_M prog d o ts s) in
    agree_outside (seq_touched prog d o s ts) (vals_of s) (vals_of s') /\
    length (status s') = length (status s) /\ length (iters s') = length (iters s) /\
    (forall q, (forall t, In t ts -> py_pos (length (status s)) t <> Some q) ->
               nth_error (status s') q = nth_error (status s) q /\ nth_error (iters s') q = nth_error (iters s) q).
  Proof.
    induction ts as [|t rest IH]; intros s; cbv zeta.
    - cbn [Eval.solve_seq_M fst]. split; [apply agree_refl|]. repeat split; reflexivity.
    - rewrite solve_seq_fst.
      destruct (solve_t_P_step prog d o t s) as (A1 & L1 & L2 & Q1).
      set (s1 := fst (solve_t_P prog d o t s)) in *.
      assert (A1' : agree_outside (seq_touched prog d o s (t :: rest)) (vals_of s) (vals_of s1)).
      { eapply agree_mono; [|exact A1]. intros i q (t0 & p & Hin & Hp & Ht). exists t0, p.
        split; [destruct Hin as [->|[]]; left; reflexivity|split; assumption]. }
      destruct (snd (solve_t_P prog d o t s)).
      + destruct (IH s1) as (A2 & L3 & L4 & Q2).
        destruct A1 as [S1 _].
        split; [|split; [congruence|split; [congruence|]]].
        * eapply agree_trans; [exact A1'|]. eapply agree_mono; [|exact A2].
          intros i q (t0 & p & Hin & Hp & Ht). exists t0, p. rewrite L1, S1 in *.
          split; [right; exact Hin|split; assumption].
        * intros q Hq. destruct (Q2 q) as [E1 E2].
          { intros t0 Hin. rewrite L1. apply Hq. right; exact Hin. }
          destruct (Q1 q (Hq t (or_introl eq_refl))) as [E3 E4]. split; congruence.
      + split; [exact A1'|]. split; [exact L1|]. split; [exact L2|].
        intros q Hq. apply Q1. apply Hq. left; reflexivity.
  Qed.

  (* every position of the default range of solve() is a period with room for the lags and leads *)
  Theorem default_positions_feasible d n t :
    In t (default_positions d n) ->
    py_pos n t = Some (Z.to_nat t) /\ feasible d n (Z.to_nat t) = true /\ 0 <= t.
  Proof.
    unfold default_positions, positions. intros H. apply in_map_iff in H as (i & <- & Hi).
    apply in_seq in Hi.
    assert (Hb : Z.of_nat i < Z.of_nat n - Z.of_nat (leads d) - Z.of_nat (lags d)) by lia.
    split; [apply py_pos_nonneg; lia|]. split; [|lia].
    unfold feasible. apply andb_true_iff. split; [apply Nat.leb_le; lia|apply Nat.ltb_lt; lia].
  Qed.
End EvalSolve.
