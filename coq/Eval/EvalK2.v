(* EvalK2.v — in-Coq comparison used by K_access for the SECOND engine: the wrapper model Fortran/FSolve.w_solve_t on
   binary64 against the real FortranEngine.solve_t, on the calls that end before the compiled iteration loop is
   reached (min_iter > max_iter, infeasible period, out-of-span offset, pre-existing non-finite values): there the
   {equations} block is irrelevant (instantiated with the identity), so no translation of the equations is needed.
   Definitions only. *)
From Coq Require Import PrimFloat ZArith List Bool.
Import ListNotations.
Require Import PyBase Solver SolverF FSem FSolve Eval EvalF.
Open Scope Z_scope.

Definition F_w_solve_t := w_solve_t float PrimFloat.sub PrimFloat.abs PrimFloat.ltb fisfin fzero (fun _ v => v).

Record fcase := mkF {
  f_fm : fmod; f_desc : mdesc; f_opts : fopts; f_t : Z; f_state : fstate;
  fx_state : fstate; fx_out : outcome bool }.

Definition check_fcase (c : fcase) : bool :=
  let '(s', r) := F_w_solve_t (f_fm c) (f_desc c) (f_opts c) (f_t c) (f_state c) in
  state_eqb s' (fx_state c) && out_eqb r (fx_out c).

Inductive kcase2 : Type := K1 (c : kcase) | KF (c : fcase).
Definition check_kcase2 (c : kcase2) : bool :=
  match c with K1 c => check_kcase c | KF c => check_fcase c end.
