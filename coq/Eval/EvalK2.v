(* EvalK2.v — in-Coq comparison used by K_access for the SECOND engine: the wrapper model Fortran/FSolve.w_solve_t on
   binary64 against the real FortranEngine.solve_t, on the calls that end before the compiled iteration loop is
   reached (min_iter > max_iter, infeasible period, out-of-span offset, pre-existing non-finite values): there the
   {equations} block is irrelevant (instantiated with the identity), so no translation of the equations is needed.
   Definitions only. *)
From Coq Require Import PrimFloat ZArith List Bool.
Import ListNotations.
Require Import PyBase Solver SolverF FSem FSolve Eval EvalF.
Open Scope Z_scope.

Definition F_w_solve_t := w_solve_t float PrimFloat.sub PrimFloat.abs PrimFloat.ltb fisfin fzero (fun _ v => v).

Record fcase := mkF {
  f_fm : fmod; f_desc : mdesc; f_opts : fopts; f_t : Z; f_state : fstate;
  fx_state : fstate; fx_out : outcome bool }.

Definition check_fcase (c : fcase) : bool :=
  let '(s', r) := F_w_solve_t (f_fm c) (f_desc c) (f_opts c) (f_t c) (f_state c) in
  state_eqb s' (fx_state c) && out_eqb r (fx_out c).

(* FortranEngine._evaluate(t) at a period the index tests reject (codes 11 - 14): equations block irrelevant *)
Definition F_w_evaluate := w_evaluate float (fun _ v => v).
Record gcase := mkG { g_fm : fmod; g_t : Z; g_state : fstate; gx_state : fstate; gx_out : outcome unit }.
Definition outu_eqb (a b : outcome unit) : bool :=
  match a, b with Ret _, Ret _ => true | Raise x, Raise y => exn_eqb x y | _, _ => false end.
Definition check_gcase (c : gcase) : bool :=
  let '(s', r) := F_w_evaluate (g_fm c) (g_t c) (g_state c) in
  state_eqb s' (gx_state c) && outu_eqb r (gx_out c).

Inductive kcase2 : Type := K1 (c : kcase) | KF (c : fcase).
Definition check_kcase2 (c : kcase2) : bool :=
  match c with K1 c => check_kcase c | KF c => check_fcase c end.

(* ---- the real entry point solve(start=, end=): Solver/SolveAll.solve_M (iter_periods included) with the evaluation pass
   of the parsed program; span labels are the integers 0 .. n-1 (the harness's label 'p<i>' is i), looked up with
   span.index as fsic does for a list span ---- *)
Require Import SolveAll EvalSolveAll.

Definition F_solve_P (tb : otable) (span : list Z) :=
  solve_P float PrimFloat.add PrimFloat.sub PrimFloat.mul PrimFloat.div (olookup tb pow_id) PrimFloat.opp PrimFloat.abs
          PrimFloat.ltb PrimFloat.leb PrimFloat.eqb fzero (fun f x => olookup tb f x fzero) (olookup tb) fflagged fisfin
          Z (locate_index span).

Record ecase := mkE {
  e_tab : otable; e_prog : fprogram; e_desc : mdesc; e_opts : fopts; e_n : nat; e_start : option Z; e_end : option Z;
  e_state : fstate;
  ex_state : fstate;
  ex_out : outcome (list bool * list Z * list Z) }.       (* solved flags, positions, labels — the three returned lists *)

Definition visits_out (r : outcome (sresult Z)) : outcome (list bool * list Z * list Z) :=
  match r with
  | Ret res => Ret (map (fun v : visit Z => snd v) (r_visits res),
                    map (fun v : visit Z => snd (fst v)) (r_visits res),
                    map (fun v : visit Z => fst (fst v)) (r_visits res))
  | Raise e => Raise e
  end.
Definition out3_eqb (a b : outcome (list bool * list Z * list Z)) : bool :=
  match a, b with
  | Ret (x1, x2, x3), Ret (y1, y2, y3) => list_eqb Bool.eqb x1 y1 && list_eqb Z.eqb x2 y2 && list_eqb Z.eqb x3 y3
  | Raise x, Raise y => exn_eqb x y
  | _, _ => false
  end.

Definition check_ecase (c : ecase) : bool :=
  let span := map Z.of_nat (seq 0 (e_n c)) in
  let '(s', r) := F_solve_P (e_tab c) span (e_prog c) (e_desc c) (e_opts c) span (e_start c) (e_end c) (e_state c) in
  state_eqb s' (ex_state c) && out3_eqb (visits_out r) (ex_out c).

(* the hypothesis of the C04 theorems that ties the solver's description to the program — instance-level lags / leads at
   least the deepest lag / furthest lead of the generated code — is itself checked on every whole-call case *)
Definition hyp_ok (prog : fprogram) (d : mdesc) : bool :=
  (prog_lags float prog <=? lags d)%nat && (prog_leads float prog <=? leads d)%nat.

(* KL / KEL: the same comparisons WITHOUT the hypothesis check — used for the cases where the user lowered model.lags /
   model.leads below what the equations need (outside the premise of the positive theorems; the model still mirrors fsic) *)
Inductive kcase3 : Type := K2 (c : kcase2) | KE (c : ecase) | KG (c : gcase) | KL (c : kcase2) | KEL (c : ecase).
Definition check_kcase3 (c : kcase3) : bool :=
  match c with
  | K2 (K1 (KS c)) => check_scase c && hyp_ok (s_prog c) (s_desc c)
  | K2 c => check_kcase2 c
  | KE c => check_ecase c && hyp_ok (e_prog c) (e_desc c)
  | KG c => check_gcase c
  | KL c => check_kcase2 c
  | KEL c => check_ecase c
  end.
