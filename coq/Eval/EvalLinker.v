(* EvalLinker.v — the VALUES frame of BaseLinker.solve_t (model Linker/Linker.v, builder of C08) when the submodels are
   parser-built models: with the class template's `pass` for the four linker hooks, one linker.solve_t(t) changes in each
   submodel only the cells that submodel's own equations assign for index t, keeps every array length and every descriptor,
   and never touches the values of the linker's core.  Since fixes 97423a0 / a0fbb5c the linker has the same up-front
   rejections as a model: min_iter > max_iter and a period without room for the linker's lags / leads change nothing at all
   (linker_rejected_min_gt_max, linker_infeasible_period_rejected); in a feasible period the assigned cells are (y, p + k).  Proved for every evaluation oracle meeting the frame condition, then instantiated with Eval.ev_of. *)
From Coq Require Import ZArith List Bool Lia ZifyBool.
Import ListNotations.
Require Import PyBase Solver SolverFacts Linker Eval EvalFacts EvalFacts2.
Open Scope Z_scope.

Section EvalLinker.
  Variable num : Type.
  Variables (sub : num -> num -> num) (absf : num -> num) (ltb : num -> num -> bool) (zero : num).
  Variable sev : sid -> hook num.
  Variables (pre ebefore eafter post : lhook num).

  Notation comp := (comp num).
  Notation lstate := (lstate num).
  Notation find_sub := (find_sub num).
  Notation put_sub := (put_sub num).
  Notation with_cvals := (with_cvals num).
  Notation eval_subs := (eval_subs num sev).
  Notation iter_step := (iter_step num sev ebefore eafter).
  Notation lloop := (lloop num sub absf ltb zero sev ebefore eafter post).
  Notation solve_t := (linker_solve_t_M num sub absf ltb zero sev pre ebefore eafter post).

  Variable t : Z.
  (* what submodels[id]._evaluate(t) may write, given the array lengths of that submodel *)
  Variable W : sid -> list nat -> nat -> nat -> Prop.
  Hypothesis Hsev : forall id sh, hook_frame sh (W id sh) (sev id) t.
  (* the linker hooks of the class template: `pass` *)
  Definition hook_id (h : lhook num) : Prop := forall t' ids em cf k jv, fst (h t' ids em cf k jv) = jv.
  Hypotheses (Hpre : hook_id pre) (Hbefore : hook_id ebefore) (Hafter : hook_id eafter) (Hpost : hook_id post).

  (* component after vs before: same descriptor, values equal outside what its own pass may write *)
  Definition cvr (id : sid) (c c' : comp) : Prop :=
    c_desc c' = c_desc c /\
    agree_outside (W id (shape (vals_of (c_st c)))) (vals_of (c_st c)) (vals_of (c_st c')).
  Definition pvr (a b : sid * comp) : Prop := fst b = fst a /\ cvr (fst a) (snd a) (snd b).
  Definition svr (s s' : lstate) : Prop :=
    c_desc (l_core s') = c_desc (l_core s) /\ vals_of (c_st (l_core s')) = vals_of (c_st (l_core s)) /\
    Forall2 pvr (l_subs s) (l_subs s').

  Lemma cvr_refl id c : cvr id c c.
  Proof. split; [reflexivity|apply agree_refl]. Qed.
  Lemma cvr_trans id a b c : cvr id a b -> cvr id b c -> cvr id a c.
  Proof.
    intros [D1 A1] [D2 A2]. split; [congruence|]. eapply agree_trans; [exact A1|].
    destruct A1 as [S1 _]. rewrite S1 in A2. exact A2.
  Qed.
  Lemma pvr_refl a : pvr a a.
  Proof. split; [reflexivity|apply cvr_refl]. Qed.
  Lemma pvr_trans a b c : pvr a b -> pvr b c -> pvr a c.
  Proof.
    intros [F1 C1] [F2 C2]. split; [congruence|]. rewrite F1 in C2. eapply cvr_trans; eauto.
  Qed.
  Lemma F2_refl l : Forall2 pvr l l.
  Proof. induction l; constructor; auto using pvr_refl. Qed.
  Lemma F2_trans : forall l1 l2 l3, Forall2 pvr l1 l2 -> Forall2 pvr l2 l3 -> Forall2 pvr l1 l3.
  Proof.
    induction l1 as [|a l1 IH]; intros l2 l3 H1 H2; inversion H1; subst; inversion H2; subst; constructor.
    - eapply pvr_trans; eauto.
    - eapply IH; eauto.
  Qed.
  Lemma svr_refl s : svr s s.
  Proof. split; [reflexivity|]. split; [reflexivity|apply F2_refl]. Qed.
  Lemma svr_trans a b c : svr a b -> svr b c -> svr a c.
  Proof.
    intros (D1 & V1 & F1) (D2 & V2 & F2). split; [congruence|]. split; [congruence|]. eapply F2_trans; eauto.
  Qed.

  (* replacing the component found under `id` by a related one *)
  Lemma put_sub_rel id c c' : forall subs, find_sub id subs = Some c -> cvr id c c' -> Forall2 pvr subs (put_sub id c' subs).
  Proof.
    induction subs as [|[i x] r IH]; intros Hf Hc; cbn [Linker.find_sub Linker.put_sub] in *; [discriminate|].
    destruct (Nat.eqb id i) eqn:E.
    - inversion Hf; subst. apply Nat.eqb_eq in E; subst. constructor; [split; [reflexivity|exact Hc]|apply F2_refl].
    - constructor; [apply pvr_refl|apply IH; assumption].
  Qed.

  Lemma cvr_set_iter id c x c' : set_iter num c t x = Some c' -> cvr id c c'.
  Proof.
    unfold Linker.set_iter. destruct (py_set (iters (c_st c)) t x); [|discriminate]. intros H; inversion H; subst. split; [reflexivity|cbn [c_st vals_of]; apply agree_refl].
  Qed.
  Lemma cvr_bump_iter id c c' : bump_iter num c t = Some c' -> cvr id c c'.
  Proof. unfold Linker.bump_iter. destruct (py_get (iters (c_st c)) t); [apply cvr_set_iter|discriminate]. Qed.
  Lemma cvr_set_status id c x c' : set_status num c t x = Some c' -> cvr id c c'.
  Proof.
    unfold Linker.set_status. destruct (py_set (status (c_st c)) t x); [|discriminate]. intros H; inversion H; subst. split; [reflexivity|cbn [c_st vals_of]; apply agree_refl].
  Qed.

  Lemma zero_iters_rel : forall ids subs, Forall2 pvr subs (fst (zero_iters num ids t subs)).
  Proof.
    induction ids as [|id r IH]; intros subs; cbn [Linker.zero_iters fst]; [apply F2_refl|].
    destruct (find_sub id subs) as [c|] eqn:Ef; [|apply F2_refl].
    destruct (set_iter num c t 0) as [c'|] eqn:Es; [|apply F2_refl].
    eapply F2_trans; [eapply put_sub_rel; [exact Ef|eapply cvr_set_iter; exact Es]|apply IH].
  Qed.
  Lemma stamp_subs_rel x : forall ids subs, Forall2 pvr subs (fst (stamp_subs num ids t x subs)).
  Proof.
    induction ids as [|id r IH]; intros subs; cbn [Linker.stamp_subs fst]; [apply F2_refl|].
    destruct (find_sub id subs) as [c|] eqn:Ef; [|apply F2_refl].
    destruct (set_status num c t x) as [c'|] eqn:Es; [|apply F2_refl].
    eapply F2_trans; [eapply put_sub_rel; [exact Ef|eapply cvr_set_status; exact Es]|apply IH].
  Qed.

  (* a `pass` hook: the values written back are the ones read *)
  Lemma put_sub_vals_same : forall subs : list (sid * comp),
    Forall2 pvr subs (put_sub_vals num subs (map (fun ic => vals_of (c_st (snd ic))) subs)).
  Proof.
    induction subs as [|[i c] r IH]; cbn [map Linker.put_sub_vals snd]; constructor; [|exact IH].
    split; [reflexivity|]. cbn [fst snd]. split; [reflexivity|]. cbn [Linker.with_cvals c_st vals_of]. apply agree_refl.
  Qed.
  Lemma run_hook_rel h ids o k e s : hook_id h -> svr s (fst (run_hook num h ids o t k e s)).
  Proof.
    intros Hh. unfold Linker.run_hook. pose proof (Hh t ids (errors o) (catch_first o) k (jv_of num s)) as E.
    destruct (h t ids (errors o) (catch_first o) k (jv_of num s)) as [jv r]. cbn [fst] in *. subst jv.
    unfold Linker.put_jv, Linker.jv_of. cbn [fst snd]. split; [reflexivity|]. split; [reflexivity|]. cbn [l_subs]. apply put_sub_vals_same.
  Qed.

  Lemma eval_subs_rel o k : forall ids s, svr s (fst (eval_subs o t k ids s)).
  Proof.
    induction ids as [|id r IH]; intros s; cbn [Linker.eval_subs]; [apply svr_refl|].
    destruct (find_sub id (l_subs s)) as [c|] eqn:Ef; [|apply svr_refl].
    pose proof (Hsev id (shape (vals_of (c_st c))) (errors o) (catch_first o) k (vals_of (c_st c)) eq_refl) as A.
    destruct (sev id t (errors o) (catch_first o) k (vals_of (c_st c))) as [v' r'] eqn:Ev. cbn [fst] in A.
    assert (C1 : cvr id c (with_cvals c v')) by (split; [reflexivity|exact A]).
    destruct r' as [e|].
    - cbn [fst]. split; [reflexivity|]. split; [reflexivity|]. cbn [l_subs]. eapply put_sub_rel; eauto.
    - destruct (bump_iter num (with_cvals c v') t) as [c2|] eqn:Eb.
      + eapply svr_trans; [|apply IH]. split; [reflexivity|]. split; [reflexivity|]. cbn [l_subs].
        eapply put_sub_rel; [exact Ef|]. eapply cvr_trans; [exact C1|]. eapply cvr_bump_iter; exact Eb.
      + cbn [fst]. split; [reflexivity|]. split; [reflexivity|]. cbn [l_subs]. eapply put_sub_rel; eauto.
  Qed.

  Lemma iter_step_rel ids o k s : svr s (fst (iter_step ids o t k s)).
  Proof.
    unfold Linker.iter_step.
    pose proof (run_hook_rel ebefore ids o k (LBefore t k) s Hbefore) as R1.
    destruct (run_hook num ebefore ids o t k (LBefore t k) s) as [s1 [e|]]; cbn [fst] in *; [exact R1|].
    pose proof (eval_subs_rel o k ids s1) as R2.
    destruct (eval_subs o t k ids s1) as [s2 [e|]]; cbn [fst] in *; [eapply svr_trans; eauto|].
    eapply svr_trans; [exact R1|]. eapply svr_trans; [exact R2|]. apply run_hook_rel. exact Hafter.
  Qed.

  Definition llstate (r : llres num) : lstate := match r with LLDone s _ _ => s | LLRaise s _ => s end.

  Lemma lloop_rel ids o : forall n k s cur, svr s (llstate (lloop ids o t n k s cur)).
  Proof.
    induction n as [|n IH]; intros k s cur; cbn [Linker.lloop]; [apply svr_refl|].
    pose proof (iter_step_rel ids o k s) as R1.
    destruct (iter_step ids o t k s) as [s1 [e|]]; cbn [fst llstate] in *; [exact R1|].
    destruct (get_check_values num zero ids t s1) as [cur'|e]; [|exact R1].
    assert (Rec : forall cur2, svr s (llstate (lloop ids o t n (S k) s1 cur2))) by (intros; eapply svr_trans; [exact R1|apply IH]).
    destruct (Z.of_nat k <? min_iter o); [apply Rec|].
    destruct (conv_all num sub absf ltb (tol o) cur' cur); [|apply Rec].
    pose proof (run_hook_rel post ids o k (LPost t k) s1 Hpost) as R2.
    destruct (run_hook num post ids o t k (LPost t k) s1) as [s2 [e|]]; cbn [fst llstate] in *; eapply svr_trans; eauto.
  Qed.

  Lemma lfinish_rel o ids r : svr (llstate r) (fst (lfinish num o ids t r)).
  Proof.
    destruct r as [s x k|s e]; cbn [Linker.lfinish llstate]; [|apply svr_refl].
    destruct (set_status num (l_core s) t x) as [c1|] eqn:E1; [|apply svr_refl].
    destruct (cvr_set_status 0%nat _ _ _ E1) as [D1 _].
    assert (V1 : vals_of (c_st c1) = vals_of (c_st (l_core s))).
    { unfold Linker.set_status in E1. destruct (py_set (status (c_st (l_core s))) t x); [|discriminate]. inversion E1; reflexivity. }
    destruct (set_iter num c1 t (Z.of_nat k)) as [c2|] eqn:E2.
    2:{ cbn [fst]. split; [exact D1|]. split; [exact V1|apply F2_refl]. }
    destruct (cvr_set_iter 0%nat _ _ _ E2) as [D2 _].
    assert (V2 : vals_of (c_st c2) = vals_of (c_st c1)).
    { unfold Linker.set_iter in E2. destruct (py_set (iters (c_st c1)) t (Z.of_nat k)); [|discriminate]. inversion E2; reflexivity. }
    pose proof (stamp_subs_rel x ids (l_subs s)) as R.
    destruct (stamp_subs num ids t x (l_subs s)) as [subs' [e|]]; cbn [fst] in *.
    - split; [cbn; congruence|]. split; [cbn; congruence|exact R].
    - destruct (st_eqb x Failed && fail_raise o); cbn [fst]; (split; [cbn; congruence|]); (split; [cbn; congruence|exact R]).
  Qed.

  (* the body of linker.solve_t (everything after the guards and the offset seeding), from ANY state *)
  Lemma linker_body_values_frame sel o s : svr s (fst (linker_solve_t_body num sub absf ltb zero sev pre ebefore eafter post sel o t s)).
  Proof.
    unfold Linker.linker_solve_t_body.
    destruct (get_check_values num zero (sel_ids num sel s) t s) as [cur|e]; [|apply svr_refl].
    pose proof (zero_iters_rel (sel_ids num sel s) (l_subs s)) as Z0.
    destruct (zero_iters num (sel_ids num sel s) t (l_subs s)) as [subs1 [e|]]; cbn [fst] in *.
    { split; [reflexivity|]. split; [reflexivity|exact Z0]. }
    set (s0 := mkL (l_core s) subs1 (l_log s)).
    assert (R0 : svr s s0) by (split; [reflexivity|]; split; [reflexivity|exact Z0]).
    pose proof (run_hook_rel pre (sel_ids num sel s) o 0%nat (LPre t) s0 Hpre) as R1.
    destruct (run_hook num pre (sel_ids num sel s) o t 0%nat (LPre t) s0) as [s1 [e|]]; cbn [fst] in *.
    { eapply svr_trans; eauto. }
    eapply svr_trans; [exact R0|]. eapply svr_trans; [exact R1|].
    eapply svr_trans; [apply (lloop_rel (sel_ids num sel s) o (Z.to_nat (max_iter o)) 1%nat s1 cur)|apply lfinish_rel].
  Qed.

  (* linker.solve_t = guards, then the offset seeding (fix 6298cba: endogenous cells of period t of the core and of the
     selected submodels copied from t + offset), then the body.  The whole call, for every selection and option set:
     the state it leaves is related by the values frame to the state AFTER seeding, which is s itself or `seeded ... s` *)
  Theorem linker_solve_t_seed_then_frame sel o s :
    exists s0, (s0 = s \/ exists p q, s0 = seeded num zero (sel_ids num sel s) p q s) /\ svr s0 (fst (solve_t sel o t s)).
  Proof.
    unfold Linker.linker_solve_t_M.
    destruct (max_iter o <? min_iter o); [exists s; split; [left; reflexivity|apply svr_refl]|].
    destruct (linker_infeasible _ _ t); [exists s; split; [left; reflexivity|apply svr_refl]|].
    unfold Linker.linker_seed.
    destruct (offset o =? 0); [exists s; split; [left; reflexivity|apply linker_body_values_frame]|].
    match goal with |- context [if ?c then (s, Some IndexError) else _] => destruct c end;
      [exists s; split; [left; reflexivity|apply svr_refl]|].
    match goal with |- context [if ?c then (s, Some KeyError) else _] => destruct c end;
      [exists s; split; [left; reflexivity|apply svr_refl]|].
    destruct (py_pos (length (status (c_st (l_core s)))) t) as [p|].
    - eexists. split; [right; eexists; eexists; reflexivity|apply linker_body_values_frame].
    - destruct (has_endo num (sel_ids num sel s) s); exists s; (split; [left; reflexivity|]); [apply svr_refl|apply linker_body_values_frame].
  Qed.

  (* THE VALUES FRAME OF linker.solve_t when no offset is given, for every selection of submodels and every option set *)
  Theorem linker_solve_t_values_frame sel o s : offset o = 0 -> svr s (fst (solve_t sel o t s)).
  Proof.
    intros Ho. unfold Linker.linker_solve_t_M. destruct (max_iter o <? min_iter o); [apply svr_refl|].
    destruct (linker_infeasible _ _ t); [apply svr_refl|]. unfold Linker.linker_seed. rewrite Ho. cbn [Z.eqb].
    apply linker_body_values_frame.
  Qed.

  (* the same, cell by cell *)
  Corollary linker_solve_t_cells sel o s i id c :
    offset o = 0 ->
    nth_error (l_subs s) i = Some (id, c) ->
    vals_of (c_st (l_core (fst (solve_t sel o t s)))) = vals_of (c_st (l_core s)) /\
    exists c', nth_error (l_subs (fst (solve_t sel o t s))) i = Some (id, c') /\ c_desc c' = c_desc c /\
               agree_outside (W id (shape (vals_of (c_st c)))) (vals_of (c_st c)) (vals_of (c_st c')).
  Proof.
    intros Ho Hi. destruct (linker_solve_t_values_frame sel o s Ho) as (_ & V & F). split; [exact V|].
    revert i Hi. induction F as [|a b l l' Hab F IH]; intros i Hi; [destruct i; discriminate|].
    destruct i as [|i]; cbn [nth_error] in *.
    - inversion Hi; subst. destruct b as [id' c']. destruct Hab as [Hf [D A]]. cbn [fst snd] in *. subst id'.
      exists c'. split; [reflexivity|]. split; assumption.
    - apply IH. exact Hi.
  Qed.

  (* ---- the linker analogues of C04's up-front rejections (for EVERY oracle and hook: no premise on sev or the hooks) ---- *)
  Theorem linker_rejected_min_gt_max sel o s :
    max_iter o < min_iter o -> solve_t sel o t s = (s, LRaise (LExn ValueError)).
  Proof. intros H. unfold Linker.linker_solve_t_M. replace (max_iter o <? min_iter o) with true by lia. reflexivity. Qed.

  (* the coded guard is `not feasible` at the position t denotes in the linker's span *)
  Lemma linker_infeasible_iff d n p : py_pos n t = Some p -> linker_infeasible d n t = negb (feasible d n p).
  Proof.
    unfold py_pos, linker_infeasible, feasible.
    destruct ((t <? - Z.of_nat n) || (Z.of_nat n <=? t)) eqn:E; [discriminate|]. intros H; inversion H; subst; clear H.
    destruct (t <? 0) eqn:Et; apply Bool.eq_true_iff_eq; split; intros HH; lia.
  Qed.

  (* an explicit request for a period without room for the LINKER's lags or leads (both spellings of t): IndexError, and the
     whole linker state — core, every submodel's values, status, iterations, the event log — is exactly what it was *)
  Theorem linker_infeasible_period_rejected sel o s p :
    min_iter o <= max_iter o ->
    py_pos (length (status (c_st (l_core s)))) t = Some p ->
    feasible (c_desc (l_core s)) (length (status (c_st (l_core s)))) p = false ->
    solve_t sel o t s = (s, LRaise (LExn IndexError)).
  Proof.
    intros Hmm Hp Hf. unfold Linker.linker_solve_t_M. replace (max_iter o <? min_iter o) with false by lia.
    rewrite (linker_infeasible_iff _ _ p Hp), Hf. reflexivity.
  Qed.
End EvalLinker.

(* ---- parser-built submodels: every submodel's evaluation pass is Eval.ev_of of its own program ---- *)
Section EvalLinkerParsed.
  Variable num : Type.
  Variables (add sub mul div pow : num -> num -> num) (neg absf : num -> num).
  Variables (ltb leb eqb : num -> num -> bool).
  Variable zero : num.
  Variable fun1 : nat -> num -> num.
  Variable fun2 : nat -> num -> num -> num.
  Variable flagged : list num -> num -> bool.
  Variable progs : sid -> program num.
  Notation ev_of := (ev_of num add sub mul div pow neg absf ltb leb eqb zero fun1 fun2 flagged).
  Definition lpass : lhook num := fun _ _ _ _ _ jv => (jv, None).
  (* submodels[id]._evaluate as BaseLinker.evaluate_t calls it: inside `warnings.simplefilter('always')`, so a NumPy warning
     never becomes an exception there, whatever errors / catch_first_error say (linkers.py evaluate_t) *)
  Definition lsev : sid -> hook num := fun j t _ _ k v => ev_of (progs j) t EIgnore false k v.

  Theorem linker_parsed_solve_t_cells sel o t s i id c :
    offset o = 0 ->
    nth_error (l_subs s) i = Some (id, c) ->
    let s' := fst (linker_solve_t_M num sub absf ltb zero lsev lpass lpass lpass lpass sel o t s) in
    vals_of (c_st (l_core s')) = vals_of (c_st (l_core s)) /\
    exists c', nth_error (l_subs s') i = Some (id, c') /\ c_desc c' = c_desc c /\
               agree_outside (written num (progs id) (shape (vals_of (c_st c))) t) (vals_of (c_st c)) (vals_of (c_st c')).
  Proof.
    intros Ho Hi. cbv zeta.
    apply (linker_solve_t_cells num sub absf ltb zero lsev lpass lpass lpass lpass t
             (fun j sh => written num (progs j) sh t)); try (intros ? ? ? ? ? ?; reflexivity); [|exact Ho|exact Hi].
    intros j sh em cf k v Hsh. unfold lsev. apply (parsed_ev_frame num add sub mul div pow neg absf ltb leb eqb zero fun1 fun2 flagged (progs j) sh t EIgnore false k v Hsh).
  Qed.

  (* in a period the guard lets through, with the submodel's own lags / leads within the linker's (lags_leads_are_maxima,
     C08) and arrays of the span's length: the cells a submodel may change are exactly (y, p + k) for its left-hand terms *)
  Theorem linker_parsed_solve_t_cells_feasible sel o t s i id c p :
    offset o = 0 ->
    nth_error (l_subs s) i = Some (id, c) ->
    py_pos (length (status (c_st (l_core s)))) t = Some p ->
    feasible (c_desc (l_core s)) (length (status (c_st (l_core s)))) p = true ->
    wf_vals (length (status (c_st (l_core s)))) (vals_of (c_st c)) ->
    (prog_lags num (progs id) <= lags (c_desc (l_core s)))%nat -> (prog_leads num (progs id) <= leads (c_desc (l_core s)))%nat ->
    let s' := fst (linker_solve_t_M num sub absf ltb zero lsev lpass lpass lpass lpass sel o t s) in
    exists c', nth_error (l_subs s') i = Some (id, c') /\ c_desc c' = c_desc c /\ shape (vals_of (c_st c')) = shape (vals_of (c_st c)) /\
      forall j q, (forall k, In (j, k) (prog_lhs num (progs id)) -> Z.of_nat q <> Z.of_nat p + k) ->
                  nth_error (nth j (vals_of (c_st c')) []) q = nth_error (nth j (vals_of (c_st c)) []) q.
  Proof.
    intros Ho Hi Hp Hf Hwf Hlag Hlead. cbv zeta.
    destruct (linker_parsed_solve_t_cells sel o t s i id c Ho Hi) as (_ & c' & Hn & Hd & [S C]).
    exists c'. split; [exact Hn|]. split; [exact Hd|]. split; [exact S|].
    intros j q Hq. apply C. intros Hw.
    apply feasible_inv in Hf as [F1 F2].
    destruct (written_feasible num (progs id) _ _ t p j q Hwf Hp ltac:(lia) ltac:(lia) Hw) as (k & Hin & Hk).
    exact (Hq k Hin Hk).
  Qed.
End EvalLinkerParsed.
