(* EvalSolveAll.v — C04 at the level of solve() itself: the model of SolverMixin.iter_periods / solve
   (Solver/SolveAll.v, builder of C05) instantiated with the evaluation pass of a parser-built model.
   1. solve()'s loop is Eval.solve_seq_M over the positions it visits;
   2. with no start / end the visited positions are exactly lags .. n-1-leads, so the default-range frame holds for the
      real entry point;
   3. reads never wrap: for ANY start / end the access monitor can be switched on without changing anything. *)
From Coq Require Import ZArith List Bool Lia.
Import ListNotations.
Require Import PyBase Solver SolverFacts SolveAll Eval EvalFacts EvalFacts2 EvalFacts3.
Require Fsic.Solver.SolveAllFacts.
Open Scope Z_scope.

Section EvalSolveAll.
  Variable num : Type.
  Variables (add sub mul div pow : num -> num -> num) (neg absf : num -> num).
  Variables (ltb leb eqb : num -> num -> bool).
  Variable zero : num.
  Variable fun1 : nat -> num -> num.
  Variable fun2 : nat -> num -> num -> num.
  Variable flagged : list num -> num -> bool.
  Variable isfin : num -> bool.
  Variable L : Type.
  Variable locate : L -> locres.

  Notation ev_of := (ev_of num add sub mul div pow neg absf ltb leb eqb zero fun1 fun2 flagged).
  Notation ev_monitored := (ev_monitored num add sub mul div pow neg absf ltb leb eqb zero fun1 fun2 flagged).
  Notation solve_t_P := (solve_t_P num add sub mul div pow neg absf ltb leb eqb zero fun1 fun2 flagged isfin).
  Notation solve_t_monitored := (solve_t_monitored num add sub mul div pow neg absf ltb leb eqb zero fun1 fun2 flagged isfin).
  Notation solve_seq_M := (solve_seq_M num add sub mul div pow neg absf ltb leb eqb zero fun1 fun2 flagged isfin).
  Notation program := (program num).

  (* solve() / its loop for a parser-built model, plain and with the access monitor *)
  Definition run_periods_P (prog : program) :=
    run_periods num sub absf ltb isfin zero (ev_of prog) (hook_pass num) (hook_pass num) L.
  Definition run_periods_mon (n : nat) (prog : program) :=
    run_periods num sub absf ltb isfin zero (ev_monitored n prog) (hook_pass num) (hook_pass num) L.
  Definition solve_P (prog : program) :=
    solve_M num sub absf ltb isfin zero (ev_of prog) (hook_pass num) (hook_pass num) L locate.
  Definition solve_mon (n : nat) (prog : program) :=
    solve_M num sub absf ltb isfin zero (ev_monitored n prog) (hook_pass num) (hook_pass num) L locate.

  (* ---- 1. the loop of solve() is solve_seq_M ---- *)
  Lemma run_periods_fst (prog : program) d o : forall ps s acc,
    fst (run_periods_P prog d o ps s acc) = fst (solve_seq_M prog d o (map fst ps) s).
  Proof.
    induction ps as [|[t lab] ps IH]; intros s acc; [reflexivity|].
    unfold run_periods_P in *. cbn [run_periods map fst Eval.solve_seq_M]. unfold Eval.solve_t_P.
    destruct (solve_t_M num sub absf ltb isfin zero (ev_of prog) (hook_pass num) (hook_pass num) d o t s) as [s1 [b|e]];
      [|reflexivity].
    rewrite IH. fold solve_t_P.
    destruct (solve_seq_M prog d o (map fst ps) s1) as [s2 [bs|e]]; reflexivity.
  Qed.

  Lemma map_fst_combine {A B} : forall (l1 : list A) (l2 : list B), length l1 = length l2 -> map fst (combine l1 l2) = l1.
  Proof.
    induction l1 as [|a l1 IH]; intros [|b l2] H; cbn in *; try reflexivity; try discriminate.
    f_equal. apply IH. lia.
  Qed.

  Lemma map_seq_shift a : forall m b, map Z.of_nat (seq (a + b) m) = map (fun i => Z.of_nat a + Z.of_nat i) (seq b m).
  Proof.
    induction m as [|m IH]; intros b; [reflexivity|]. cbn [seq map]. f_equal; [lia|].
    replace (S (a + b))%nat with (a + S b)%nat by lia. apply IH.
  Qed.

  Lemma periods_positions (span : list L) a b :
    (b < length span)%nat ->
    map fst (SolveAllFacts.periods L span a b) = positions (Z.of_nat a) (Z.of_nat b).
  Proof.
    intros Hb. unfold SolveAllFacts.periods, positions. rewrite map_fst_combine.
    - replace (Z.to_nat (Z.of_nat b + 1 - Z.of_nat a)) with (S b - a)%nat by lia.
      replace a with (a + 0)%nat at 1 by lia. apply map_seq_shift.
    - rewrite map_length, seq_length, firstn_length, skipn_length. lia.
  Qed.

  (* ---- 2. solve() with the default range ---- *)
  Lemma solve_P_default_fst (prog : program) d o (span : list L) s :
    min_iter o <= max_iter o ->
    length (status s) = length span -> (lags d + leads d < length span)%nat ->
    fst (solve_P prog d o span None None s) = fst (solve_seq_M prog d o (default_positions d (length (status s))) s).
  Proof.
    intros Hmm Hn Hroom. unfold solve_P.
    (* the defaults are positions: no label is looked up (fix 7cd6323), so nothing is asked of `locate` *)
    rewrite (SolveAllFacts.solve_eq_fold_given num sub absf ltb isfin zero _ _ _ L locate d o span None None s
               (lags d) (length span - 1 - leads d) Hmm I I).
    - pose proof (run_periods_fst prog d o (SolveAllFacts.periods L span (lags d) (length span - 1 - leads d)) s []) as H.
      unfold run_periods_P in H.
      destruct (run_periods num sub absf ltb isfin zero (ev_of prog) (hook_pass num) (hook_pass num) L d o
                  (SolveAllFacts.periods L span (lags d) (length span - 1 - leads d)) s []) as [s' [vs|e]];
        cbn [fst] in *; rewrite H, periods_positions by lia; unfold default_positions; rewrite Hn;
        (replace (Z.of_nat (length span - 1 - leads d)) with (Z.of_nat (length span) - 1 - Z.of_nat (leads d)) by lia);
        reflexivity.
    - cbn. lia.
    - cbn. lia.
  Qed.

  (* THE PROPERTY'S FRAME CLAUSE FOR solve(): no start, no end, an n-period span with room for the lags and leads *)
  Theorem solve_P_default_range_frame (prog : program) d o (span : list L) s :
    min_iter o <= max_iter o ->
    length (status s) = length span -> (lags d + leads d < length span)%nat ->
    wf_vals (length (status s)) (vals_of s) ->
    (prog_lags num prog <= lags d)%nat -> (prog_leads num prog <= leads d)%nat ->
    let n := length (status s) in
    let s' := fst (solve_P prog d o span None None s) in
    (forall i q,
        (forall k p, In (i, k) (prog_lhs num prog) -> (lags d <= p)%nat -> (p + leads d < n)%nat -> Z.of_nat q <> Z.of_nat p + k) ->
        (offset o = 0 \/ ~ In i (endo d) \/ (q < lags d)%nat \/ (n <= q + leads d)%nat) ->
        nth_error (nth i (vals_of s') []) q = nth_error (nth i (vals_of s) []) q) /\
    shape (vals_of s') = shape (vals_of s) /\
    (forall q, (q < lags d)%nat \/ (n <= q + leads d)%nat ->
               nth_error (status s') q = nth_error (status s) q /\ nth_error (iters s') q = nth_error (iters s) q).
  Proof.
    intros Hmm Hn Hroom Hwf Hlag Hlead. cbv zeta.
    rewrite (solve_P_default_fst prog d o span s Hmm Hn Hroom).
    apply (solve_default_range_frame num add sub mul div pow neg absf ltb leb eqb zero fun1 fun2 flagged isfin prog d o s Hwf Hlag Hlead).
  Qed.

  (* ---- 3. the monitor over a whole solve(), any start / end ---- *)
  Lemma run_periods_monitored_eq (prog : program) d o : forall ps s acc,
    wf_vals (length (status s)) (vals_of s) -> vars_ok num prog (length (vals_of s)) ->
    (prog_lags num prog <= lags d)%nat -> (prog_leads num prog <= leads d)%nat ->
    run_periods_mon (length (status s)) prog d o ps s acc = run_periods_P prog d o ps s acc.
  Proof.
    induction ps as [|[t lab] ps IH]; intros s acc Hwf Hvars Hlag Hlead; [reflexivity|].
    unfold run_periods_mon, run_periods_P in *. cbn [run_periods].
    pose proof (monitored_solve_t_eq num add sub mul div pow neg absf ltb leb eqb zero fun1 fun2 flagged isfin
                  prog d o t s Hwf Hvars Hlag Hlead) as E.
    unfold Eval.solve_t_monitored, Eval.solve_t_P in E. rewrite E.
    destruct (solve_t_P_step num add sub mul div pow neg absf ltb leb eqb zero fun1 fun2 flagged isfin prog d o t s)
      as ([S1 _] & L1 & _ & _).
    unfold Eval.solve_t_P in S1, L1.
    destruct (solve_t_M num sub absf ltb isfin zero (ev_of prog) (hook_pass num) (hook_pass num) d o t s) as [s1 [b|e]];
      [|reflexivity].
    cbn [fst] in S1, L1. rewrite <- L1. apply IH; try assumption.
    - rewrite L1. eapply wf_vals_shape; [exact S1|exact Hwf].
    - rewrite (shape_eq_length num _ _ S1). exact Hvars.
  Qed.

  (* READS NEVER WRAP, for the real entry point: whatever start / end are requested (explicit infeasible periods
     included — they are rejected by the guard), an evaluator that raises on the first access that is not served
     inside the span at its requested distance from t behaves exactly like the plain one: same final state (values,
     status, iterations, hook events), same result or exception *)
  Theorem solve_monitored_eq (prog : program) d o (span : list L) start end_ s :
    wf_vals (length (status s)) (vals_of s) -> vars_ok num prog (length (vals_of s)) ->
    (prog_lags num prog <= lags d)%nat -> (prog_leads num prog <= leads d)%nat ->
    solve_mon (length (status s)) prog d o span start end_ s = solve_P prog d o span start end_ s.
  Proof.
    intros Hwf Hvars Hlag Hlead. unfold solve_mon, solve_P, solve_M.
    destruct (max_iter o <? min_iter o); [reflexivity|].
    destruct (bad_label L locate start); [reflexivity|].
    destruct (bad_label L locate end_); [reflexivity|].
    destruct (iter_periods_M L locate d span start end_) as [[len ps]|e]; [|reflexivity].
    pose proof (run_periods_monitored_eq prog d o ps s [] Hwf Hvars Hlag Hlead) as E.
    unfold run_periods_mon, run_periods_P in E. rewrite E. reflexivity.
  Qed.
End EvalSolveAll.

(* ---- 4. an explicit infeasible `start` is rejected by solve() as a whole, nothing changes ---- *)
Section EvalSolveAllReject.
  Variable num : Type.
  Variables (sub : num -> num -> num) (absf : num -> num) (ltb : num -> num -> bool)
            (isfin : num -> bool) (zero : num).
  Variables (ev before after : hook num).
  Variable L : Type.
  Variable locate : L -> locres.
  Notation solve_M := (solve_M num sub absf ltb isfin zero ev before after L locate).

  Lemma periods_head (span : list L) a b x :
    (a <= b)%nat -> (b < length span)%nat -> nth_error span a = Some x ->
    exists rest, SolveAllFacts.periods L span a b = (Z.of_nat a, x) :: rest.
  Proof.
    intros Hab Hb Hx. unfold SolveAllFacts.periods.
    replace (S b - a)%nat with (S (b - a)) by lia. cbn [seq map].
    destruct (skipn a span) as [|y l] eqn:E.
    - exfalso. assert (H : length (skipn a span) = 0%nat) by (rewrite E; reflexivity). rewrite skipn_length in H. lia.
    - assert (Hy : nth_error (skipn a span) 0 = Some x).
      { rewrite <- Hx. clear. revert span. induction a as [|a IH]; intros span; [reflexivity|].
        destruct span as [|z span]; [reflexivity|]. cbn [skipn nth_error]. apply IH. }
      rewrite E in Hy. cbn in Hy. inversion Hy; subst. cbn [firstn combine]. eexists. reflexivity.
  Qed.

  (* for EVERY evaluation oracle and hooks: solve(start=x) where x sits at a position without room for the lags or
     leads (and end at or after it) raises IndexError before anything is evaluated — the whole state is unchanged *)
  Theorem solve_infeasible_start_rejected d o (span : list L) x end_ s a b :
    min_iter o <= max_iter o -> SolveAllFacts.locate_ok L locate span ->
    length (status s) = length span ->
    nth_error span a = Some x -> SolveAllFacts.resolves_end L d span end_ b -> (a <= b)%nat ->
    feasible d (length span) a = false ->
    solve_M d o span (Some x) end_ s = (s, Raise IndexError).
  Proof.
    intros Hmm Hok Hn Hx He Hab Hf.
    rewrite (SolveAllFacts.solve_eq_fold num sub absf ltb isfin zero ev before after L locate d o span (Some x) end_ s a b Hmm Hok Hx He).
    pose proof (SolveAllFacts.resolves_end_lt L d span end_ b He) as Hb.
    destruct (periods_head span a b x Hab Hb Hx) as [rest ->]. cbn [run_periods].
    rewrite (infeasible_period_rejected num sub absf ltb isfin zero ev before after d o (Z.of_nat a) s a Hmm).
    - reflexivity.
    - rewrite Hn, py_pos_nonneg by (pose proof (SolveAllFacts.resolves_end_lt L d span end_ b He); lia).
      rewrite Nat2Z.id. reflexivity.
    - rewrite Hn. exact Hf.
  Qed.
End EvalSolveAllReject.
