(* EvalExamples3.v — instances for the history and linker statements of C04 (non-vacuity, closed computations). *)
From Coq Require Import PrimFloat ZArith List Bool Lia.
Import ListNotations.
Require Import PyBase Solver SolverF Linker Eval EvalFacts EvalF EvalExamples EvalHistory EvalLinker.
Open Scope Z_scope.

(* a history on the one-lag model: an infeasible call, a feasible one spelled negatively, a rejected one (min > max with
   an offset), a feasible one with an offset: only periods 2 and 3 of Y are touched *)
Definition ex_history : list (fopts * Z) :=
  [(ex_o 0, 0); (ex_o 0, -2); (mkOpts 4 3 0x1.b7cdfd9d7bdbbp-34%float (-1) false ERaise true, 3); (ex_o (-1), 3)].

Definition f_run_history :=
  run_history float PrimFloat.add PrimFloat.sub PrimFloat.mul PrimFloat.div (olookup [] pow_id) PrimFloat.opp PrimFloat.abs
              PrimFloat.ltb PrimFloat.leb PrimFloat.eqb fzero (fun f x => olookup [] f x fzero) (olookup []) fflagged fisfin.

Example ex_history_run :
  status (f_run_history ex_prog ex_d ex_history ex_s) = [Unsolved; Unsolved; Solved; Solved] /\
  nth_error (nth 0 (vals_of (f_run_history ex_prog ex_d ex_history ex_s)) []) 0 = Some 1%float /\
  nth_error (nth 0 (vals_of (f_run_history ex_prog ex_d ex_history ex_s)) []) 1 = Some 2%float /\
  nth 1 (vals_of (f_run_history ex_prog ex_d ex_history ex_s)) [] = nth 1 (vals_of ex_s) [].
Proof. repeat split; vm_compute; reflexivity. Qed.

(* a linker over one parser-built submodel (key 7) *)
Definition exL_comp : comp float := mkComp ex_d ex_s.
Definition exL_core : comp float := mkComp (mkDesc [] [] 0%nat 0%nat) (mkState [] [Unsolved; Unsolved; Unsolved; Unsolved] [-1; -1; -1; -1] []).
Definition exL_s : lstate float := mkL exL_core [(7%nat, exL_comp)] [].

Example exL_hyps :
  nth_error (l_subs exL_s) 0 = Some (7%nat, exL_comp) /\
  hook_id float (lpass float) /\
  (forall (id : sid) (sh : list nat), hook_frame sh (fun _ _ => True) (fun (_ : Z) (_ : errmode) (_ : bool) (_ : nat) (v : vals float) => (v, None)) 2).
Proof.
  split; [reflexivity|]. split; [intros ? ? ? ? ? ?; reflexivity|].
  intros id sh em cf k v _. apply agree_refl.
Qed.

(* the linker over the one-lag submodel: its own lags are 1, so period 0 (either spelling) is rejected, nothing changes *)
Definition exL_core1 : comp float := mkComp (mkDesc [] [] 1%nat 0%nat) (mkState [] [Unsolved; Unsolved; Unsolved; Unsolved] [-1; -1; -1; -1] []).
Definition exL_s1 : lstate float := mkL exL_core1 [(7%nat, exL_comp)] [].
Example exL_infeasible :
  min_iter (ex_o 0) <= max_iter (ex_o 0) /\
  py_pos (length (status (c_st (l_core exL_s1)))) (-4) = Some 0%nat /\
  feasible (c_desc (l_core exL_s1)) (length (status (c_st (l_core exL_s1)))) 0 = false /\
  nth_error (l_subs exL_s1) 0 = Some (7%nat, exL_comp) /\
  feasible (c_desc (l_core exL_s1)) (length (status (c_st (l_core exL_s1)))) 2 = true.
Proof. repeat split; cbn; lia. Qed.

(* hypotheses of solve_over_infeasible_raises: a model with one LEAD on a 4-period span, solve(end=<last label>) from the
   default start: the range 0..3 contains position 3, which has no room for the lead *)
Require Import SolveAll EvalSolveReject.
Require Fsic.Solver.SolveAllFacts.
Definition ex_d_lead : mdesc := mkDesc [0%nat] [0%nat] 0%nat 1%nat.
Example ex_end_infeasible_hyps :
  SolveAllFacts.given_ok Z (locate_index [10; 11; 12; 13]) None 0 /\
  SolveAllFacts.given_ok Z (locate_index [10; 11; 12; 13]) (Some 13) 3 /\
  SolveAllFacts.resolves_start Z ex_d_lead [10; 11; 12; 13] None 0 /\
  SolveAllFacts.resolves_end Z ex_d_lead [10; 11; 12; 13] (Some 13) 3 /\
  (0 <= 3 <= 3)%nat /\ feasible ex_d_lead 4 3 = false /\ infeasible_at ex_d_lead 4 (-1).
Proof.
  split; [exact I|]. split; [reflexivity|]. split; [cbn; lia|]. split; [reflexivity|]. split; [lia|]. split; [reflexivity|].
  exists 3%nat. split; reflexivity.
Qed.
