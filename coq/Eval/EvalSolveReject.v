(* EvalSolveReject.v — "an explicit request to solve a period that cannot accommodate the lags or leads is REJECTED", for
   solve() over a range: a requested range that CONTAINS an infeasible period never returns — in particular iter_periods does
   not silently clip `end` — and the exception is IndexError at the FIRST infeasible period, with exactly the earlier periods
   solved (their state is the state the call leaves) and nothing touched from that period on.  For every evaluation oracle
   and hooks (Solver/SolveAll.v's loop), then for solve_M with given or default start / end.
   Also: the solver's OWN array accesses (get_check_values at t; the offset copy reads t + offset and writes t; status /
   iterations at t), which use the RAW t, never wrap once the up-front guards have passed. *)
From Coq Require Import ZArith List Bool Lia.
Import ListNotations.
Require Import PyBase Solver SolverFacts SolveAll EvalFacts.
Require Fsic.Solver.SolveAllFacts.
Open Scope Z_scope.

Section SolveReject.
  Variable num : Type.
  Variables (sub : num -> num -> num) (absf : num -> num) (ltb : num -> num -> bool)
            (isfin : num -> bool) (zero : num).
  Variables (ev before after : hook num).
  Variable L : Type.
  Variable locate : L -> locres.
  Notation solve_t_M := (solve_t_M num sub absf ltb isfin zero ev before after).
  Notation run_periods := (run_periods num sub absf ltb isfin zero ev before after L).
  Notation solve_M := (solve_M num sub absf ltb isfin zero ev before after L locate).

  Definition infeasible_at (d : mdesc) (n : nat) (t : Z) : Prop :=
    exists p, py_pos n t = Some p /\ feasible d n p = false.

  (* the loop of solve() at the first infeasible period: IndexError, the state is the one the earlier periods left *)
  Theorem run_periods_first_infeasible d o ps1 t lab ps2 s acc s1 vs :
    min_iter o <= max_iter o ->
    run_periods d o ps1 s acc = (s1, Ret vs) ->
    infeasible_at d (length (status s)) t ->
    run_periods d o (ps1 ++ (t, lab) :: ps2) s acc = (s1, Raise IndexError).
  Proof.
    intros Hmm H1 (p & Hp & Hf).
    rewrite (SolveAllFacts.run_periods_app num sub absf ltb isfin zero ev before after L d o ps1 ((t, lab) :: ps2) s acc), H1.
    pose proof (SolveAllFacts.run_periods_length num sub absf ltb isfin zero ev before after L d o ps1 s acc s1 (Ret vs) H1) as Hl.
    apply SolveAllFacts.run_periods_cons_raise.
    apply (infeasible_period_rejected num sub absf ltb isfin zero ev before after d o t s1 p Hmm); rewrite Hl; assumption.
  Qed.

  (* ... hence a list of periods that contains an infeasible one NEVER returns: some exception ends the call *)
  Theorem run_periods_over_infeasible_raises d o : forall ps s acc,
    min_iter o <= max_iter o ->
    (exists t lab, In (t, lab) ps /\ infeasible_at d (length (status s)) t) ->
    exists s' e, run_periods d o ps s acc = (s', Raise e).
  Proof.
    induction ps as [|[t lab] ps IH]; intros s acc Hmm (t0 & lab0 & Hin & Hinf); [destruct Hin|].
    cbn [SolveAll.run_periods].
    destruct (solve_t_M d o t s) as [s1 [b|e]] eqn:E; [|eauto].
    destruct Hin as [Heq|Hin].
    - inversion Heq; subst. destruct Hinf as (p & Hp & Hf).
      rewrite (infeasible_period_rejected num sub absf ltb isfin zero ev before after d o t0 s p Hmm Hp Hf) in E. discriminate.
    - apply IH; [exact Hmm|]. exists t0, lab0. split; [exact Hin|].
      rewrite (SolveAllFacts.solve_t_length num sub absf ltb isfin zero ev before after d o t s s1 (Ret b) E). exact Hinf.
  Qed.

  (* solve(start=, end=) whose range a..b contains a position q without room for the lags / leads — e.g. a feasible start with
     end = the last period of a model with a lead: the call RAISES (the range is not clipped) *)
  Theorem solve_over_infeasible_raises d o (span : list L) start end_ s a b q :
    min_iter o <= max_iter o ->
    SolveAllFacts.given_ok L locate start a -> SolveAllFacts.given_ok L locate end_ b ->
    SolveAllFacts.resolves_start L d span start a -> SolveAllFacts.resolves_end L d span end_ b ->
    length (status s) = length span ->
    (a <= q <= b)%nat -> feasible d (length span) q = false ->
    exists s' e, solve_M d o span start end_ s = (s', Raise e).
  Proof.
    intros Hmm Gs Ge Hs He Hn Hq Hf.
    rewrite (SolveAllFacts.solve_eq_fold_given num sub absf ltb isfin zero ev before after L locate d o span start end_ s a b Hmm Gs Ge Hs He).
    pose proof (SolveAllFacts.resolves_end_lt L d span end_ b He) as Hb.
    assert (Hlab : exists lab, nth_error span q = Some lab).
    { destruct (nth_error span q) eqn:E; [eauto|]. apply nth_error_None in E. lia. }
    destruct Hlab as [lab Hlab].
    assert (Hin : In (Z.of_nat q, lab) (SolveAllFacts.periods L span a b)).
    { apply (nth_error_In _ (q - a)).
      apply (SolveAllFacts.positions_exact L span a b Hb (q - a)%nat (Z.of_nat q) lab).
      replace (a + (q - a))%nat with q by lia. split; [lia|]. split; [reflexivity|exact Hlab]. }
    destruct (run_periods_over_infeasible_raises d o (SolveAllFacts.periods L span a b) s [] Hmm) as (s' & e & E).
    - exists (Z.of_nat q), lab. split; [exact Hin|]. exists q. rewrite Hn. split; [|exact Hf].
      rewrite py_pos_nonneg by lia. rewrite Nat2Z.id. reflexivity.
    - rewrite E. eauto.
  Qed.
End SolveReject.

(* ---- the solver's own accesses use the raw t: they never wrap once the guards have passed ---- *)
Section OwnAccesses.
  Variable num : Type.
  (* the raw indexes BaseModel.solve_t itself hands to NumPy, in order: the offset copy reads t + offset and writes t (only
     when an offset is given, and only after the offset guards), get_check_values / status / iterations use t *)
  Definition solver_requests (o : opts num) (t : Z) : list Z :=
    (if offset o =? 0 then [] else [t + offset o; t]) ++ [t].

  Theorem solver_requests_no_wrap (o : opts num) n t p :
    py_pos n t = Some p ->
    (offset o = 0 \/ 0 <= Z.of_nat p + offset o < Z.of_nat n) ->       (* = the offset guards of solve_t passed *)
    Forall (fun i => py_pos n i = Some (Z.to_nat (Z.of_nat p + (i - t))) /\ 0 <= Z.of_nat p + (i - t) < Z.of_nat n)
           (solver_requests o t).
  Proof.
    intros Hp Hoff. unfold solver_requests.
    assert (Ht : py_pos n t = Some (Z.to_nat (Z.of_nat p + (t - t))) /\ 0 <= Z.of_nat p + (t - t) < Z.of_nat n).
    { replace (Z.of_nat p + (t - t)) with (Z.of_nat p) by lia. rewrite Nat2Z.id. split; [exact Hp|]. apply py_pos_inv in Hp. lia. }
    destruct (offset o =? 0) eqn:E; cbn [app]; [constructor; [exact Ht|constructor]|].
    destruct Hoff as [Hoff|Hoff]; [lia|].
    constructor; [|constructor; [exact Ht|constructor; [exact Ht|constructor]]].
    replace (t + offset o - t) with (offset o) by lia. split; [|exact Hoff].
    apply py_pos_shift; assumption.
  Qed.
End OwnAccesses.
