(* EvalFortran.v — the C04 clauses on the SECOND engine: FortranEngine.solve_t (fsic/fortran.py:310-470) over the
   compiled subroutine solve_t of FORTRAN_TEMPLATE (fortran.py:650-745), as modelled in Fortran/FSolve.v (w_solve_t /
   t_solve_t, by the builder of C07).  Only FSolve.v's DEFINITIONS are imported; the statements here are C04's:

   - an explicit request for a period without room for the lags / leads is REJECTED (error codes 13 / 14, surfacing as
     FortranEngineError, or as SolutionError when the pre-existing-non-finite test of the wrapper fires first) — the
     {equations} block is never executed, status / iterations / events are untouched;
   - without an offset nothing at all changes; WITH an in-span offset the wrapper has already copied period t+offset
     into period t (finding: C04|fortran|infeasible-after-offset|changed) — refuted + exact residue. *)
From Coq Require Import ZArith List Bool Lia ZifyBool PrimFloat.
Import ListNotations.
Require Import PyBase Solver SolverF FSem FSolve Eval EvalFacts.
Open Scope Z_scope.

Lemma fortran_codes_nonzero :
  c_lags <> 0 /\ c_leads <> 0 /\ c_lags <> w_t_ok /\ c_leads <> w_t_ok /\
  c_lags <> w_t_raise /\ c_leads <> w_t_raise /\ c_lags <> w_t_skip /\ c_leads <> w_t_skip /\
  c_lags = 13 /\ c_leads = 14.
Proof. repeat split; vm_compute; congruence. Qed.

Section EvalFortran.
  Variable num : Type.
  Variables (sub : num -> num -> num) (absf : num -> num) (ltb : num -> num -> bool)
            (isfin : num -> bool) (zero : num).
  Variable evf : Z -> vals num -> vals num.

  Notation w_solve_t := (w_solve_t num sub absf ltb isfin zero evf).
  Notation t_solve_t := (t_solve_t num sub absf ltb isfin zero evf).
  Notation copy_endo := (copy_endo num zero).
  Notation get_check := (get_check num zero).
  Notation all_finite := (all_finite num isfin).

  (* index = t + 1, wrapped once when < 1: the same position as Python's t *)
  Lemma f_index_pos n t p : py_pos n t = Some p -> t_index (Z.of_nat n) (t + 1) = Z.of_nat p + 1.
  Proof.
    unfold py_pos, t_index. destruct ((t <? - Z.of_nat n) || (Z.of_nat n <=? t)) eqn:E; [discriminate|].
    apply orb_false_iff in E as [E1 E2]. intros H; inversion H; subst; clear H.
    destruct (t <? 0) eqn:E3; destruct (t + 1 <? 1) eqn:E4; lia.
  Qed.

  (* the template's four index tests at an in-span position: 13 / 14 exactly when the period is infeasible *)
  Lemma f_guard_infeasible (fm : fmod) d n p :
    fm_lags fm = Z.of_nat (lags d) -> fm_leads fm = Z.of_nat (leads d) -> (p < n)%nat ->
    feasible d n p = false ->
    t_guard fm (Z.of_nat n) (Z.of_nat p + 1) = c_lags \/ t_guard fm (Z.of_nat n) (Z.of_nat p + 1) = c_leads.
  Proof.
    intros Hl Hd Hp Hf. unfold t_guard, feasible in *. rewrite Hl, Hd.
    destruct (Z.of_nat p + 1 <? 1) eqn:E1; [lia|].
    destruct (Z.of_nat n <? Z.of_nat p + 1) eqn:E2; [lia|].
    destruct (Z.of_nat p + 1 <=? Z.of_nat (lags d)) eqn:E3; [left; reflexivity|].
    destruct (Z.of_nat n - Z.of_nat (leads d) <? Z.of_nat p + 1) eqn:E4; [right; reflexivity|].
    exfalso. apply andb_false_iff in Hf as [Hf|Hf]; lia.
  Qed.
  Lemma f_guard_feasible (fm : fmod) d n p :
    fm_lags fm = Z.of_nat (lags d) -> fm_leads fm = Z.of_nat (leads d) -> (p < n)%nat ->
    feasible d n p = true -> t_guard fm (Z.of_nat n) (Z.of_nat p + 1) = 0.
  Proof.
    intros Hl Hd Hp Hf. unfold t_guard, feasible in *. rewrite Hl, Hd. apply andb_true_iff in Hf as [F1 F2].
    destruct (Z.of_nat p + 1 <? 1) eqn:E1; [lia|].
    destruct (Z.of_nat n <? Z.of_nat p + 1) eqn:E2; [lia|].
    destruct (Z.of_nat p + 1 <=? Z.of_nat (lags d)) eqn:E3; [lia|].
    destruct (Z.of_nat n - Z.of_nat (leads d) <? Z.of_nat p + 1) eqn:E4; [lia|]. reflexivity.
  Qed.

  (* the compiled subroutine at an infeasible period: returns at the index tests — values as passed in, not converged,
     code 13 or 14; the {equations} block (evf), the offset copy and the loop are never reached *)
  Lemma t_solve_t_infeasible (fm : fmod) d n t p v mi ma tl off cv ec :
    fm_lags fm = Z.of_nat (lags d) -> fm_leads fm = Z.of_nat (leads d) ->
    py_pos n t = Some p -> feasible d n p = false -> ncols_of num v = Z.of_nat n ->
    exists c, (c = c_lags \/ c = c_leads) /\ t_solve_t fm v (t + 1) mi ma tl off cv ec = mkFout v false undef_iter c.
  Proof.
    intros Hl Hd Hp Hf Hn. unfold FSolve.t_solve_t. rewrite Hn, (f_index_pos n t p Hp).
    assert (Hlt : (p < n)%nat) by (apply py_pos_inv in Hp; lia).
    destruct fortran_codes_nonzero as (N1 & N2 & _).
    destruct (f_guard_infeasible fm d n p Hl Hd Hlt Hf) as [G|G]; rewrite G.
    - exists c_lags. split; [left; reflexivity|]. replace (c_lags =? 0) with false by lia. reflexivity.
    - exists c_leads. split; [right; reflexivity|]. replace (c_leads =? 0) with false by lia. reflexivity.
  Qed.

  Lemma ncols_shape (v v' : vals num) : shape v' = shape v -> ncols_of num v' = ncols_of num v.
  Proof.
    unfold ncols_of, shape. destruct v as [|a v], v' as [|b v']; cbn [map hd]; intros H; try reflexivity; try discriminate.
    inversion H. congruence.
  Qed.

  Lemma setvals_self (s : mstate num) : setvals num s (vals_of s) = s.
  Proof. destruct s; reflexivity. Qed.

  (* what the wrapper answers once the compiled code has returned 13 / 14: none of the codes it tests *)
  Ltac after_guard Hc :=
    cbv zeta; cbn [fo_code fo_vals fo_conv fo_iter];
    let A1 := fresh in let A2 := fresh in let A3 := fresh in let A4 := fresh in let A5 := fresh in let A6 := fresh in
    destruct fortran_codes_nonzero as (_ & _ & A1 & A2 & A3 & A4 & A5 & A6 & _);
    destruct Hc as [-> | ->];
    [ replace (c_lags =? w_t_ok) with false by lia; replace (c_lags =? w_t_raise) with false by lia;
      replace (c_lags =? w_t_skip) with false by lia
    | replace (c_leads =? w_t_ok) with false by lia; replace (c_leads =? w_t_raise) with false by lia;
      replace (c_leads =? w_t_skip) with false by lia ];
    cbn [andb].

  (* FORTRAN ENGINE, INFEASIBLE PERIOD, THE WHOLE ANSWER.  For every equations block, every option set with a valid
     `errors`, both spellings of t: the call raises — IndexError for an out-of-span offset, SolutionError when the
     wrapper's pre-existing-non-finite test fires, FortranEngineError (uncaught code 13 / 14) otherwise —, status,
     iterations and events are untouched, and the values are untouched too UNLESS a non-zero in-span offset was given:
     then the wrapper's copy of period p + offset into period p is left behind. *)
  Theorem fortran_infeasible_rejected (fm : fmod) d o t s p ec :
    min_iter o <= max_iter o -> w_ec (errors o) = Some ec ->
    fm_lags fm = Z.of_nat (lags d) -> fm_leads fm = Z.of_nat (leads d) ->
    py_pos (length (status s)) t = Some p -> feasible d (length (status s)) p = false ->
    ncols_of num (vals_of s) = Z.of_nat (length (status s)) ->
    let n := Z.of_nat (length (status s)) in
    let q := Z.of_nat p + offset o in
    let verdict (v : vals num) : exn :=
      if is_raise (errors o) && negb (all_finite (get_check d v p)) then SolutionError None else FortranEngineError in
    w_solve_t fm d o t s =
      if offset o =? 0 then (s, Raise (verdict (vals_of s)))
      else if (q <? 0) || (n <=? q) then (s, Raise IndexError)
      else let v0 := copy_endo d (vals_of s) p (Z.to_nat q) in (setvals num s v0, Raise (verdict v0)).
  Proof.
    intros Hmm Hec Hl Hd Hp Hf Hn. cbv zeta. unfold FSolve.w_solve_t.
    replace (max_iter o <? min_iter o) with false by lia. rewrite Hec, Hp.
    destruct (offset o =? 0) eqn:Eo.
    - destruct (is_raise (errors o) && negb (all_finite (get_check d (vals_of s) p))).
      + rewrite setvals_self. reflexivity.
      + destruct (t_solve_t_infeasible fm d _ t p (vals_of s) (min_iter o) (max_iter o) (tol o) (offset o) (cv_of d) ec
                    Hl Hd Hp Hf Hn) as (c & Hc & ->).
        after_guard Hc; rewrite setvals_self; reflexivity.
    - destruct (Z.of_nat p + offset o <? 0) eqn:E1; [reflexivity|].
      destruct (Z.of_nat (length (status s)) <=? Z.of_nat p + offset o) eqn:E2; [reflexivity|]. cbn [orb].
      set (v0 := copy_endo d (vals_of s) p (Z.to_nat (Z.of_nat p + offset o))).
      destruct (is_raise (errors o) && negb (all_finite (get_check d v0 p))); [reflexivity|].
      assert (Hn0 : ncols_of num v0 = Z.of_nat (length (status s))).
      { rewrite <- Hn. apply ncols_shape. apply (copy_endo_agree num zero d (vals_of s) p). }
      destruct (t_solve_t_infeasible fm d _ t p v0 (min_iter o) (max_iter o) (tol o) (offset o) (cv_of d) ec
                  Hl Hd Hp Hf Hn0) as (c & Hc & ->).
      after_guard Hc; reflexivity.
  Qed.

  (* the property's clause, under the guard that excludes the finding: no offset => rejected AND nothing changes *)
  Corollary fortran_infeasible_no_offset_no_change (fm : fmod) d o t s p ec :
    min_iter o <= max_iter o -> w_ec (errors o) = Some ec ->
    fm_lags fm = Z.of_nat (lags d) -> fm_leads fm = Z.of_nat (leads d) ->
    py_pos (length (status s)) t = Some p -> feasible d (length (status s)) p = false ->
    ncols_of num (vals_of s) = Z.of_nat (length (status s)) -> offset o = 0 ->
    fst (w_solve_t fm d o t s) = s /\
    (snd (w_solve_t fm d o t s) = Raise FortranEngineError \/ snd (w_solve_t fm d o t s) = Raise (SolutionError None)).
  Proof.
    intros Hmm Hec Hl Hd Hp Hf Hn Ho.
    rewrite (fortran_infeasible_rejected fm d o t s p ec Hmm Hec Hl Hd Hp Hf Hn), Ho. cbn [Z.eqb fst snd].
    split; [reflexivity|]. destruct (is_raise (errors o) && negb (all_finite (get_check d (vals_of s) p))); auto.
  Qed.

  (* an infeasible period is never SERVED, offset or not: the outcome is always an exception and no status is stamped *)
  Corollary fortran_infeasible_never_served (fm : fmod) d o t s p ec :
    min_iter o <= max_iter o -> w_ec (errors o) = Some ec ->
    fm_lags fm = Z.of_nat (lags d) -> fm_leads fm = Z.of_nat (leads d) ->
    py_pos (length (status s)) t = Some p -> feasible d (length (status s)) p = false ->
    ncols_of num (vals_of s) = Z.of_nat (length (status s)) ->
    (exists e, snd (w_solve_t fm d o t s) = Raise e) /\
    status (fst (w_solve_t fm d o t s)) = status s /\ iters (fst (w_solve_t fm d o t s)) = iters s /\
    log (fst (w_solve_t fm d o t s)) = log s /\
    agree_outside (fun i j => offset o <> 0 /\ In i (endo d) /\ j = p) (vals_of s) (vals_of (fst (w_solve_t fm d o t s))).
  Proof.
    intros Hmm Hec Hl Hd Hp Hf Hn.
    rewrite (fortran_infeasible_rejected fm d o t s p ec Hmm Hec Hl Hd Hp Hf Hn).
    destruct (offset o =? 0) eqn:Eo; [|destruct ((Z.of_nat p + offset o <? 0) || (Z.of_nat (length (status s)) <=? Z.of_nat p + offset o))];
      cbn [fst snd]; (split; [eexists; reflexivity|]); repeat (split; [reflexivity|]); try apply agree_refl.
    cbn [setvals vals_of]. eapply agree_mono; [|apply (copy_endo_agree num zero d (vals_of s) p)].
    intros i j [Hi Hj]. split; [lia|split; assumption].
  Qed.

  (* ---- FortranEngine._evaluate(t) (fortran.py:472-528) over subroutine evaluate (592-647): the explicit index tests,
     codes 11 / 12 (t outside the span) and 13 / 14 (no room for the lags / leads), all surface as IndexError and the
     model instance is left exactly as it was — no read ever wraps on this engine ---- *)
  Lemma fortran_index_codes : existsb (Z.eqb c_below) w_e_index = true /\ existsb (Z.eqb c_above) w_e_index = true /\
                              existsb (Z.eqb c_lags) w_e_index = true /\ existsb (Z.eqb c_leads) w_e_index = true /\
                              c_below <> 0 /\ c_above <> 0.
  Proof. repeat split; vm_compute; congruence. Qed.

  Theorem fortran_evaluate_infeasible_rejected (fm : fmod) d t (s : mstate num) n :
    fm_lags fm = Z.of_nat (lags d) -> fm_leads fm = Z.of_nat (leads d) ->
    ncols_of num (vals_of s) = Z.of_nat n ->
    (py_pos n t = None \/ exists p, py_pos n t = Some p /\ feasible d n p = false) ->
    w_evaluate num evf fm t s = (s, Raise IndexError).
  Proof.
    intros Hl Hd Hn Hcase. unfold FSolve.w_evaluate, FSolve.t_evaluate. rewrite Hn.
    destruct fortran_index_codes as (I1 & I2 & I3 & I4 & N1 & N2).
    destruct fortran_codes_nonzero as (N3 & N4 & _).
    assert (G : exists c, t_guard fm (Z.of_nat n) (t_index (Z.of_nat n) (t + 1)) = c /\ c <> 0 /\ existsb (Z.eqb c) w_e_index = true).
    { destruct Hcase as [Hnone|(p & Hp & Hf)].
      - unfold py_pos in Hnone. destruct ((t <? - Z.of_nat n) || (Z.of_nat n <=? t)) eqn:E; [|discriminate].
        unfold t_guard, t_index. destruct (t + 1 <? 1) eqn:E1.
        + destruct (t + 1 + Z.of_nat n <? 1) eqn:E2; [exists c_below; auto|]. exfalso. lia.
        + replace (t + 1 <? 1) with false by lia. destruct (Z.of_nat n <? t + 1) eqn:E2; [exists c_above; auto|]. exfalso. lia.
      - rewrite (f_index_pos n t p Hp). assert (Hlt : (p < n)%nat) by (apply py_pos_inv in Hp; lia).
        destruct (f_guard_infeasible fm d n p Hl Hd Hlt Hf) as [->| ->]; [exists c_lags|exists c_leads]; auto. }
    destruct G as (c & -> & Hc0 & Hin).
    replace (c =? 0) with false by lia. replace (c =? 0) with false by lia. rewrite Hin. reflexivity.
  Qed.
End EvalFortran.

(* ---------------- binary64 witness of the finding ---------------- *)
(* Y[t] = 0.5 * Y[t-1] + X[t] on a 4-period span, LAGS = 1; the equations block is irrelevant (never reached) *)
Definition exF_fm : fmod := mkFmod 1 0 [1].
Definition exF_d : mdesc := mkDesc [0%nat] [0%nat] 1%nat 0%nat.
Definition exF_s : fstate :=
  mkState [[1%float; 2%float; 3%float; 4%float]; [1%float; 1%float; 1%float; 1%float]]
          [Unsolved; Unsolved; Unsolved; Unsolved] [-1; -1; -1; -1] [].
Definition exF_o (off : Z) : fopts := mkOpts 0 3 0x1.b7cdfd9d7bdbbp-34%float off false ERaise true.
Definition exF_solve_t := w_solve_t float PrimFloat.sub PrimFloat.abs PrimFloat.ltb fisfin fzero (fun _ v => v).

Example exF_infeasible_no_offset :
  exF_solve_t exF_fm exF_d (exF_o 0) 0 exF_s = (exF_s, Raise FortranEngineError) /\
  exF_solve_t exF_fm exF_d (exF_o 0) (-4) exF_s = (exF_s, Raise FortranEngineError).
Proof. split; vm_compute; reflexivity. Qed.

Example exF_infeasible_offset :
  exF_solve_t exF_fm exF_d (exF_o 1) 0 exF_s =
  (mkState [[2%float; 2%float; 3%float; 4%float]; [1%float; 1%float; 1%float; 1%float]]
           [Unsolved; Unsolved; Unsolved; Unsolved] [-1; -1; -1; -1] [], Raise FortranEngineError).
Proof. vm_compute. reflexivity. Qed.

(* "an infeasible period is rejected and nothing changes" is FALSE of FortranEngine.solve_t when an in-span offset is given *)
Lemma fortran_infeasible_after_offset_refuted :
  exists (fm : fmod) d o t s p,
    py_pos (length (status s)) t = Some p /\ feasible d (length (status s)) p = false /\
    fm_lags fm = Z.of_nat (lags d) /\ fm_leads fm = Z.of_nat (leads d) /\ offset o <> 0 /\
    snd (exF_solve_t fm d o t s) = Raise FortranEngineError /\
    nth_error (nth 0 (vals_of s) []) 0 = Some 1%float /\
    nth_error (nth 0 (vals_of (fst (exF_solve_t fm d o t s))) []) 0 = Some 2%float.
Proof.
  exists exF_fm, exF_d, (exF_o 1), 0, exF_s, 0%nat. rewrite exF_infeasible_offset.
  repeat split; try reflexivity. cbn. lia.
Qed.

(* the hypotheses of fortran_infeasible_rejected are satisfiable *)
Example exF_hyps :
  min_iter (exF_o 1) <= max_iter (exF_o 1) /\ w_ec (errors (exF_o 1)) = Some 0 /\
  py_pos (length (status exF_s)) 0 = Some 0%nat /\ feasible exF_d (length (status exF_s)) 0 = false /\
  ncols_of float (vals_of exF_s) = Z.of_nat (length (status exF_s)).
Proof. repeat split; try reflexivity. cbn. lia. Qed.
