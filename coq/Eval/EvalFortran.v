(* EvalFortran.v — the C04 clauses on the SECOND engine: FortranEngine.solve_t / _evaluate (fsic/fortran.py) over the compiled
   template, as modelled in Fortran/FSolve.v (w_solve_t / w_evaluate / t_solve_t, by the builder of C07).  Only FSolve.v's
   DEFINITIONS are imported; the statements here are C04's:

   - an explicit request for a period without room for the lags / leads is REJECTED with IndexError before anything is copied
     or changed (fix 1354783: the wrapper now has the guard of BaseModel.solve_t in front of the offset block; before, the
     offset copy was left behind — former finding C04|fortran|infeasible-after-offset|changed);
   - FortranEngine._evaluate answers every t outside the span or without room for the lags / leads with IndexError. *)
From Coq Require Import ZArith List Bool Lia ZifyBool PrimFloat.
Import ListNotations.
Require Import PyBase Solver SolverF FSem FSolve Eval EvalFacts.
Open Scope Z_scope.

Lemma fortran_codes_nonzero :
  c_lags <> 0 /\ c_leads <> 0 /\ c_lags <> w_t_ok /\ c_leads <> w_t_ok /\
  c_lags <> w_t_raise /\ c_leads <> w_t_raise /\ c_lags <> w_t_skip /\ c_leads <> w_t_skip /\
  c_lags = 13 /\ c_leads = 14.
Proof. repeat split; vm_compute; congruence. Qed.

Section EvalFortran.
  Variable num : Type.
  Variables (sub : num -> num -> num) (absf : num -> num) (ltb : num -> num -> bool)
            (isfin : num -> bool) (zero : num).
  Variable evf : Z -> vals num -> vals num.

  Notation w_solve_t := (w_solve_t num sub absf ltb isfin zero evf).
  Notation t_solve_t := (t_solve_t num sub absf ltb isfin zero evf).
  Notation copy_endo := (copy_endo num zero).
  Notation get_check := (get_check num zero).
  Notation all_finite := (all_finite num isfin).

  (* index = t + 1, wrapped once when < 1: the same position as Python's t *)
  Lemma f_index_pos n t p : py_pos n t = Some p -> t_index (Z.of_nat n) (t + 1) = Z.of_nat p + 1.
  Proof.
    unfold py_pos, t_index. destruct ((t <? - Z.of_nat n) || (Z.of_nat n <=? t)) eqn:E; [discriminate|].
    apply orb_false_iff in E as [E1 E2]. intros H; inversion H; subst; clear H.
    destruct (t <? 0) eqn:E3; destruct (t + 1 <? 1) eqn:E4; lia.
  Qed.

  (* the template's four index tests at an in-span position: 13 / 14 exactly when the period is infeasible *)
  Lemma f_guard_infeasible (fm : fmod) d n p :
    fm_lags fm = Z.of_nat (lags d) -> fm_leads fm = Z.of_nat (leads d) -> (p < n)%nat ->
    feasible d n p = false ->
    t_guard fm (Z.of_nat n) (Z.of_nat p + 1) = c_lags \/ t_guard fm (Z.of_nat n) (Z.of_nat p + 1) = c_leads.
  Proof.
    intros Hl Hd Hp Hf. unfold t_guard, feasible in *. rewrite Hl, Hd.
    destruct (Z.of_nat p + 1 <? 1) eqn:E1; [lia|].
    destruct (Z.of_nat n <? Z.of_nat p + 1) eqn:E2; [lia|].
    destruct (Z.of_nat p + 1 <=? Z.of_nat (lags d)) eqn:E3; [left; reflexivity|].
    destruct (Z.of_nat n - Z.of_nat (leads d) <? Z.of_nat p + 1) eqn:E4; [right; reflexivity|].
    exfalso. apply andb_false_iff in Hf as [Hf|Hf]; lia.
  Qed.
  Lemma f_guard_feasible (fm : fmod) d n p :
    fm_lags fm = Z.of_nat (lags d) -> fm_leads fm = Z.of_nat (leads d) -> (p < n)%nat ->
    feasible d n p = true -> t_guard fm (Z.of_nat n) (Z.of_nat p + 1) = 0.
  Proof.
    intros Hl Hd Hp Hf. unfold t_guard, feasible in *. rewrite Hl, Hd. apply andb_true_iff in Hf as [F1 F2].
    destruct (Z.of_nat p + 1 <? 1) eqn:E1; [lia|].
    destruct (Z.of_nat n <? Z.of_nat p + 1) eqn:E2; [lia|].
    destruct (Z.of_nat p + 1 <=? Z.of_nat (lags d)) eqn:E3; [lia|].
    destruct (Z.of_nat n - Z.of_nat (leads d) <? Z.of_nat p + 1) eqn:E4; [lia|]. reflexivity.
  Qed.

  (* FORTRAN ENGINE, INFEASIBLE PERIOD (fix 1354783), at full strength: for every equations block, every compiled module,
     every option set with a valid `errors`, both spellings of t, WITH OR WITHOUT an offset: IndexError, and the whole
     state — values, status, iterations, events — is exactly what it was.  The guard is the instance-level one of
     BaseModel.solve_t and sits before the offset block, so nothing has been copied. *)
  Theorem fortran_infeasible_rejected (fm : fmod) d o t s p ec :
    min_iter o <= max_iter o -> w_ec (errors o) = Some ec ->
    py_pos (length (status s)) t = Some p -> feasible d (length (status s)) p = false ->
    w_solve_t fm d o t s = (s, Raise IndexError).
  Proof.
    intros Hmm Hec Hp Hf. unfold FSolve.w_solve_t.
    replace (max_iter o <? min_iter o) with false by lia. rewrite Hec, Hp, Hf. reflexivity.
  Qed.

  (* the other up-front rejections of the wrapper change nothing either *)
  Theorem fortran_rejected_min_gt_max (fm : fmod) d o t s :
    max_iter o < min_iter o -> w_solve_t fm d o t s = (s, Raise ValueError).
  Proof. intros H. unfold FSolve.w_solve_t. replace (max_iter o <? min_iter o) with true by lia. reflexivity. Qed.

  Theorem fortran_rejected_offset_out_of_span (fm : fmod) d o t s p ec :
    min_iter o <= max_iter o -> w_ec (errors o) = Some ec ->
    py_pos (length (status s)) t = Some p -> feasible d (length (status s)) p = true ->
    offset o <> 0 ->
    (Z.of_nat p + offset o < 0 \/ Z.of_nat (length (status s)) <= Z.of_nat p + offset o) ->
    w_solve_t fm d o t s = (s, Raise IndexError).
  Proof.
    intros Hmm Hec Hp Hf Ho Hq. unfold FSolve.w_solve_t.
    replace (max_iter o <? min_iter o) with false by lia. rewrite Hec, Hp, Hf. cbn [negb].
    replace (offset o =? 0) with false by lia.
    destruct (Z.of_nat p + offset o <? 0) eqn:E1; [reflexivity|].
    replace (Z.of_nat (length (status s)) <=? Z.of_nat p + offset o) with true by lia. reflexivity.
  Qed.

  (* ---- FortranEngine._evaluate(t) (fortran.py:472-528) over subroutine evaluate (592-647): the explicit index tests,
     codes 11 / 12 (t outside the span) and 13 / 14 (no room for the lags / leads), all surface as IndexError and the
     model instance is left exactly as it was — no read ever wraps on this engine ---- *)
  Lemma fortran_index_codes : existsb (Z.eqb c_below) w_e_index = true /\ existsb (Z.eqb c_above) w_e_index = true /\
                              existsb (Z.eqb c_lags) w_e_index = true /\ existsb (Z.eqb c_leads) w_e_index = true /\
                              c_below <> 0 /\ c_above <> 0.
  Proof. repeat split; vm_compute; congruence. Qed.

  Theorem fortran_evaluate_infeasible_rejected (fm : fmod) d t (s : mstate num) n :
    fm_lags fm = Z.of_nat (lags d) -> fm_leads fm = Z.of_nat (leads d) ->
    ncols_of num (vals_of s) = Z.of_nat n ->
    (py_pos n t = None \/ exists p, py_pos n t = Some p /\ feasible d n p = false) ->
    w_evaluate num evf fm t s = (s, Raise IndexError).
  Proof.
    intros Hl Hd Hn Hcase. unfold FSolve.w_evaluate, FSolve.t_evaluate. rewrite Hn.
    destruct fortran_index_codes as (I1 & I2 & I3 & I4 & N1 & N2).
    destruct fortran_codes_nonzero as (N3 & N4 & _).
    assert (G : exists c, t_guard fm (Z.of_nat n) (t_index (Z.of_nat n) (t + 1)) = c /\ c <> 0 /\ existsb (Z.eqb c) w_e_index = true).
    { destruct Hcase as [Hnone|(p & Hp & Hf)].
      - unfold py_pos in Hnone. destruct ((t <? - Z.of_nat n) || (Z.of_nat n <=? t)) eqn:E; [|discriminate].
        unfold t_guard, t_index. destruct (t + 1 <? 1) eqn:E1.
        + destruct (t + 1 + Z.of_nat n <? 1) eqn:E2; [exists c_below; auto|]. exfalso. lia.
        + replace (t + 1 <? 1) with false by lia. destruct (Z.of_nat n <? t + 1) eqn:E2; [exists c_above; auto|]. exfalso. lia.
      - rewrite (f_index_pos n t p Hp). assert (Hlt : (p < n)%nat) by (apply py_pos_inv in Hp; lia).
        destruct (f_guard_infeasible fm d n p Hl Hd Hlt Hf) as [->| ->]; [exists c_lags|exists c_leads]; auto. }
    destruct G as (c & -> & Hc0 & Hin).
    replace (c =? 0) with false by lia. replace (c =? 0) with false by lia. rewrite Hin. reflexivity.
  Qed.
End EvalFortran.

(* ---------------- binary64 instances ---------------- *)
(* Y[t] = 0.5 * Y[t-1] + X[t] on a 4-period span, LAGS = 1; the equations block is irrelevant (never reached) *)
Definition exF_fm : fmod := mkFmod 1 0 [1].
Definition exF_d : mdesc := mkDesc [0%nat] [0%nat] 1%nat 0%nat.
Definition exF_s : fstate :=
  mkState [[1%float; 2%float; 3%float; 4%float]; [1%float; 1%float; 1%float; 1%float]]
          [Unsolved; Unsolved; Unsolved; Unsolved] [-1; -1; -1; -1] [].
Definition exF_o (off : Z) : fopts := mkOpts 0 3 0x1.b7cdfd9d7bdbbp-34%float off false ERaise true.
Definition exF_solve_t := w_solve_t float PrimFloat.sub PrimFloat.abs PrimFloat.ltb fisfin fzero (fun _ v => v).

(* the former finding's input (offset = 1 at the infeasible period 0, both spellings): now rejected with nothing copied *)
Example exF_infeasible_rejected :
  exF_solve_t exF_fm exF_d (exF_o 0) 0 exF_s = (exF_s, Raise IndexError) /\
  exF_solve_t exF_fm exF_d (exF_o 1) 0 exF_s = (exF_s, Raise IndexError) /\
  exF_solve_t exF_fm exF_d (exF_o 2) (-4) exF_s = (exF_s, Raise IndexError).
Proof. repeat split; vm_compute; reflexivity. Qed.

(* the hypotheses of fortran_infeasible_rejected are satisfiable *)
Example exF_hyps :
  min_iter (exF_o 1) <= max_iter (exF_o 1) /\ w_ec (errors (exF_o 1)) = Some 0 /\
  py_pos (length (status exF_s)) 0 = Some 0%nat /\ feasible exF_d (length (status exF_s)) 0 = false /\
  ncols_of float (vals_of exF_s) = Z.of_nat (length (status exF_s)).
Proof. repeat split; try reflexivity. cbn. lia. Qed.
