(* EvalDeps.v — what the value of a generated expression depends on: only the cells it syntactically reads.
   (Shared groundwork for C01 / C20; not needed by C04's theorems.) *)
From Coq Require Import ZArith List Bool Lia.
Import ListNotations.
Require Import PyBase Solver Eval EvalFacts.
Open Scope Z_scope.

Section EvalDeps.
  Variable num : Type.
  Variables (add sub mul div pow : num -> num -> num) (neg absf : num -> num).
  Variables (ltb leb eqb : num -> num -> bool).
  Variable zero : num.
  Variable fun1 : nat -> num -> num.
  Variable fun2 : nat -> num -> num -> num.
  Variable flagged : list num -> num -> bool.
  Notation eval_expr := (eval_expr num add sub mul div pow neg absf ltb leb eqb zero fun1 fun2 flagged).
  Notation exec_stmt := (exec_stmt num add sub mul div pow neg absf ltb leb eqb zero fun1 fun2 flagged).

  (* two stores of the same shape that agree on the cells served for the terms of e give the same value, the same
     exception and the same access log *)
  Theorem eval_expr_ext catch t (v v' : vals num) (e : expr num) :
    shape v' = shape v ->
    (forall x k q, In (x, k) (expr_reads num e) -> py_pos (nth x (shape v) 0%nat) (t + k) = Some q ->
                   nth q (nth x v' []) zero = nth q (nth x v []) zero) ->
    eval_expr catch t v' e = eval_expr catch t v e.
  Proof.
    intros Hs.
    induction e as [x|x k|a IHa|a IHa|o a IHa b IHb|a IHa b IHb|a IHa b IHb|o l IHl r IHr a IHa b IHb|f a IHa|f a IHa b IHb];
      intros H; cbn [Eval.eval_expr]; cbn [expr_reads] in H.
    - reflexivity.
    - unfold read, row. rewrite (shape_eq_row num v v' x Hs).
      destruct (py_pos (length (nth x v [])) (t + k)) as [q|] eqn:E; [|reflexivity].
      rewrite (H x k q (or_introl eq_refl)); [reflexivity|]. rewrite shape_nth. exact E.
    - rewrite (IHa H). reflexivity.
    - rewrite (IHa H). reflexivity.
    - rewrite (IHa (fun x k q Hx => H x k q (in_or_app _ _ _ (or_introl Hx)))),
              (IHb (fun x k q Hx => H x k q (in_or_app _ _ _ (or_intror Hx)))). reflexivity.
    - rewrite (IHa (fun x k q Hx => H x k q (in_or_app _ _ _ (or_introl Hx)))),
              (IHb (fun x k q Hx => H x k q (in_or_app _ _ _ (or_intror Hx)))). reflexivity.
    - rewrite (IHa (fun x k q Hx => H x k q (in_or_app _ _ _ (or_introl Hx)))),
              (IHb (fun x k q Hx => H x k q (in_or_app _ _ _ (or_intror Hx)))). reflexivity.
    - rewrite (IHl (fun x k q Hx => H x k q (in_or_app _ _ _ (or_introl Hx)))),
              (IHr (fun x k q Hx => H x k q (in_or_app _ _ _ (or_intror (in_or_app _ _ _ (or_introl Hx)))))).
      destruct (eval_expr catch t v l) as [[xl|c] ll]; [|reflexivity].
      destruct (eval_expr catch t v r) as [[xr|c] lr]; [|reflexivity].
      destruct (cmp_sem num ltb leb eqb o xl xr); cbv iota.
      + rewrite (IHa (fun x k q Hx => H x k q (in_or_app _ _ _ (or_intror (in_or_app _ _ _ (or_intror (in_or_app _ _ _ (or_introl Hx)))))))).
        reflexivity.
      + rewrite (IHb (fun x k q Hx => H x k q (in_or_app _ _ _ (or_intror (in_or_app _ _ _ (or_intror (in_or_app _ _ _ (or_intror Hx)))))))).
        reflexivity.
    - rewrite (IHa H). reflexivity.
    - rewrite (IHa (fun x k q Hx => H x k q (in_or_app _ _ _ (or_introl Hx)))),
              (IHb (fun x k q Hx => H x k q (in_or_app _ _ _ (or_intror Hx)))). reflexivity.
  Qed.

  (* in particular: overwriting a cell that is not served for any term of e changes nothing *)
  Corollary eval_expr_unread_cell catch t (v : vals num) (e : expr num) i p y :
    (forall k, In (i, k) (expr_reads num e) -> py_pos (nth i (shape v) 0%nat) (t + k) <> Some p) ->
    eval_expr catch t (set_cell num v i p y) e = eval_expr catch t v e.
  Proof.
    intros Hn. apply eval_expr_ext; [apply shape_set_cell|].
    intros x k q Hin Hq.
    assert (Hne : (x, q) <> (i, p)) by (intros E; inversion E; subst; exact (Hn k Hin Hq)).
    pose proof (set_cell_other num v i p y x q Hne) as E.
    pose proof (shape_eq_row num v (set_cell num v i p y) x (shape_set_cell num v i p y)) as L.
    destruct (nth_error (nth x v []) q) as [z|] eqn:E1.
    - rewrite (nth_error_nth _ _ zero E), (nth_error_nth _ _ zero E1). reflexivity.
    - apply nth_error_None in E1. rewrite !nth_overflow; [reflexivity|exact E1|lia].
  Qed.
End EvalDeps.
